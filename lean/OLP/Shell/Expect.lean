/-
  Tie T3 — hand-written expectations about the extracted fact tables (OLP/Gen/Facts.lean is
  REGENERATED from /repo's working tree on every check run) and the analyses run over them.
  The obligations themselves (`… = expected := by decide`) live in OLP/Props/*Facts.lean.
-/
import OLP.Gen.Facts

namespace OLP.Expect
open OLP.Gen

def rowsOf (t : List HookAim) (fn : String) : List HookAim := t.filter (fun r => r.fn == fn)

/-- Walk a block hook in source order, inlining calls to other hook functions, and collect every
    use of a singleton store that is neither re-aimed at that point (`.WithState(..)`) nor
    preceded, on every path, by a re-aiming of the same store earlier in the same ABCI call.
    Such a use reads through whatever state the last CheckTx / DeliverTx left the singleton
    aimed at (premise `AllAimed` of C07). -/
def walk (t : List HookAim) : Nat → String → Bool → List String → List String × List (String × String)
  | 0, _, _, aimed => (aimed, [])
  | fuel + 1, fn, ctxUncond, aimed =>
    (rowsOf t fn).foldl (fun (acc : List String × List (String × String)) row =>
      if row.isCall then
        let r := walk t fuel row.store (ctxUncond && row.uncond) acc.1
        (r.1, acc.2 ++ r.2)
      else if row.aimed then
        (if ctxUncond && row.uncond then row.store :: acc.1 else acc.1, acc.2)
      else if acc.1.contains row.store then acc
      else (acc.1, acc.2 ++ [(row.fn, row.store)])) (aimed, [])

def undominated (fn : String) : List (String × String) := (walk hookAims 6 fn true []).2

/-- BeginBlock: what remains un-aimed, each classified by reading the code:
    * applyUpdate/stateDB   — `stateDB.SetBlockHash`: in-memory field only, no state read
    * blockBeginner/feePool — `feePool.SetupOpt(feeOpt)`: in-memory option copy only
    (`govern.GetFeeOption()` and `AddInternalTX(proposalMaster, …)` were un-aimed until the
    fix: commit "BeginBlock reads the fee option and the proposal queue through the deliver state") -/
def beginUnaimed : List (String × String) := [("applyUpdate", "stateDB"), ("blockBeginner", "feePool")]

/-- EndBlock:
    * ethTrackers — handed to doEthTransitions, whose first statement re-aims it (`ts.WithState(deliver)`)
    * witnesses   — only `IsETHWitness()` (the node-local flag) is consulted, never the store
    * stateDB ×2  — `GetBloomEvent` / `Reset`: in-memory caches -/
def endUnaimed : List (String × String) :=
  [("blockEnder", "ethTrackers"), ("blockEnder", "witnesses"), ("blockEnder", "stateDB"), ("blockEnder", "stateDB")]

/-- the commit/discard discipline of the two transaction entry points -/
def sessionRule : List SessionRule := [
  ⟨"txChecker", "!(ok && feeOk)", "discard", "commit"⟩,
  ⟨"txChecker", "!bytes.Equal(msg.Tx, tx.SignedBytes())", "canonical-guard", "reject"⟩,
  ⟨"txChecker", "VerifyCache>BeginTxSession>Validate>ProcessCheck>ProcessFee", "order", ""⟩,
  ⟨"txDeliverer", "!(ok && feeOk)", "discard", "commit"⟩,
  ⟨"txDeliverer", "!bytes.Equal(msg.Tx, tx.SignedBytes())", "canonical-guard", "reject"⟩,
  ⟨"txDeliverer", "GetTxFromCache>BeginTxSession>Validate>ProcessDeliver>ProcessFee", "order", ""⟩
]

/-- `range` over a Go map whose body writes state and whose keys are not sorted in the same
    function: iteration order would leak into the write order, hence into the IAVL root -/
def unsortedWritingRanges : List MapRange → List (String × String)
  | t => (t.filter (fun r => r.writesInBody && !r.sortInFn)).map (fun r => (r.fn, r.expr))



/-- map ranges that write state in iteration order: none (S1 `ExecuteAllegationTracker at.Requests`
    and S2 `delegation.LoadState blocks` were repaired by fix: commits, both now sort first) -/
def unsortedWriting : List (String × String) := []

/-! ### Expected tables (reviewed by reading the code at the pinned commit; a row that appears,
    disappears or changes in the regenerated table breaks the corresponding obligation and has to
    be re-classified) -/

/-- every `range` over a Go map in the consensus packages. Classification:
    * sorted before use: app.handleBlockRewards kvMap, evidence.CleanTracker at.Requests,
      identity.CheckMaliciousValidators cv.Addresses, identity.GetEndBlockUpdate vs.lastActive
    * lookup structure only (order cannot reach state): balance.CurrencySet.GetCurrencies nameMap
      (feeds a by-name set), data.StorageRouter.WithState (re-aiming), external_apps.RegisterExtApp ×2
      (start-up registration), vm.accessList.Copy ×2, vm.CopyCommitStateDB ×2 (copies into maps)
    * not on a consensus path: app.rpcStarter, data.ContractData.Update/UpdateByJSONData,
      balance.Balance.String, storage.*.Dump / DumpState, storage.cacheSession.Iterate (no caller),
      utils.PrintStringMap (logging)
    * collect keys, sort, then write (after the fix: commits for S1/S2):
      identity.ExecuteAllegationTracker at.Requests, delegation.LoadState blocks -/
def mapRanges : List MapRange := [
  ⟨"app.App.rpcStarter", "services", false, false⟩,
  ⟨"app.handleBlockRewards", "kvMap", true, false⟩,
  ⟨"data.ContractData.Update", "d", false, false⟩,
  ⟨"data.ContractData.UpdateByJSONData", "raw", false, false⟩,
  ⟨"data.StorageRouter.WithState", "s.router", false, false⟩,
  ⟨"data/balance.Balance.String", "b.Amounts", false, false⟩,
  ⟨"data/balance.CurrencySet.GetCurrencies", "c.nameMap", false, false⟩,
  ⟨"data/delegation.DelegationStore.LoadState", "blocks", true, false⟩,
  ⟨"data/evidence.EvidenceStore.CleanTracker", "at.Requests", true, false⟩,
  ⟨"external_apps.RegisterExtApp", "extAppData.ExtServiceMap", false, false⟩,
  ⟨"external_apps.RegisterExtApp", "extAppData.ExtStores", false, false⟩,
  ⟨"identity.ValidatorStore.CheckMaliciousValidators", "cv.Addresses", true, false⟩,
  ⟨"identity.ValidatorStore.ExecuteAllegationTracker", "at.Requests", true, false⟩,
  ⟨"identity.ValidatorStore.GetEndBlockUpdate", "vs.lastActive", true, false⟩,
  ⟨"storage.KeyValue.Dump", "texts", false, false⟩,
  ⟨"storage.KeyValueSession.Dump", "texts", false, false⟩,
  ⟨"storage.cacheSession.Iterate", "c.store", false, false⟩,
  ⟨"storage.sessionCache.DumpState", "c.store", true, false⟩,
  ⟨"utils.PrintStringMap", "dict", true, false⟩,
  ⟨"vm.CopyCommitStateDB", "from.logs", false, false⟩,
  ⟨"vm.CopyCommitStateDB", "from.stateObjectsDirty", false, false⟩,
  ⟨"vm.accessList.Copy", "a.addresses", false, false⟩,
  ⟨"vm.accessList.Copy", "slotMap", false, false⟩
]

def envUses : List Use := [
  ⟨"app.App.Prepare", "app.Context.node.ValidatorAddress"⟩,
  ⟨"app.App.Prepare", "os.Getenv"⟩,
  ⟨"app.App.blockBeginner", "app.Context.node.ValidatorAddress"⟩,
  ⟨"app.App.blockBeginner", "app.Context.node.ValidatorAddress"⟩,
  ⟨"app.App.blockBeginner", "app.Context.node.ValidatorAddress"⟩,
  ⟨"app.App.blockEnder", "app.Context.node.ValidatorAddress"⟩,
  ⟨"app.App.blockEnder", "app.Context.node.ValidatorAddress"⟩,
  ⟨"app.ExpireProposals", "uuid.NewUUID"⟩,
  ⟨"app.FinalizeProposals", "uuid.NewUUID"⟩,
  ⟨"app.context.JobContext", "ctx.node.ValidatorAddress"⟩,
  ⟨"app.newContext", "os.Getenv"⟩,
  ⟨"data/evidence.EvidenceStore.GenerateRequestID", "uuid.NewUUID"⟩,
  ⟨"data/keys.buildFileName", "time.Now"⟩,
  ⟨"event.BroadcastGovExpireVotesTx", "uuid.NewUUID"⟩,
  ⟨"event.BroadcastGovFinalizeVotesTx", "uuid.NewUUID"⟩,
  ⟨"event.BroadcastReportFinalityETHTx", "uuid.NewUUID"⟩,
  ⟨"event.Broadcasting", "context.Witnesses.IsETHWitness"⟩,
  ⟨"event.Cleanup", "context.Witnesses.IsETHWitness"⟩,
  ⟨"event.CleanupFailed", "context.Witnesses.IsETHWitness"⟩,
  ⟨"event.Finalization", "context.Witnesses.IsETHWitness"⟩,
  ⟨"event.Finalizing", "context.Witnesses.IsETHWitness"⟩,
  ⟨"event.JobBTCCheckFinality.DoMyJob", "time.Now"⟩,
  ⟨"event.JobBTCCheckFinality.DoMyJob", "time.Now"⟩,
  ⟨"event.NewBTCCheckFinalityJob", "time.Now"⟩,
  ⟨"event.RedeemConfirmed", "context.Witnesses.IsETHWitness"⟩,
  ⟨"event.Signing", "context.Witnesses.IsETHWitness"⟩,
  ⟨"event.VerifyRedeem", "context.Witnesses.IsETHWitness"⟩,
  ⟨"event.redeemCleanup", "context.Witnesses.IsETHWitness"⟩,
  ⟨"event.redeemCleanupFailed", "context.Witnesses.IsETHWitness"⟩,
  ⟨"external_apps/bid/bid_block_func.PopExpireBidTxFromQueue", "uuid.NewUUID"⟩,
  ⟨"external_apps/bid/bid_rpc/bid_rpc_tx.Service.BidderDecision", "uuid.NewUUID"⟩,
  ⟨"external_apps/bid/bid_rpc/bid_rpc_tx.Service.CancelBid", "uuid.NewUUID"⟩,
  ⟨"external_apps/bid/bid_rpc/bid_rpc_tx.Service.CounterOffer", "uuid.NewUUID"⟩,
  ⟨"external_apps/bid/bid_rpc/bid_rpc_tx.Service.CreateBid", "uuid.NewUUID"⟩,
  ⟨"external_apps/bid/bid_rpc/bid_rpc_tx.Service.OwnerDecision", "uuid.NewUUID"⟩,
  ⟨"storage.dbDir", "os.Getenv"⟩
]

def volatileSets : List Use := [
  ⟨"action.feeOptionminFeeDecimal", "ctx.FeePool.SetupOpt"⟩,
  ⟨"action.onsOptionsbaseDomainPrice", "ctx.Domains.SetOptions"⟩,
  ⟨"action.onsOptionsperBlockFees", "ctx.Domains.SetOptions"⟩,
  ⟨"action.propOptionscodeChangefundingDeadline", "ctx.ProposalMasterStore.Proposal.SetOptions"⟩,
  ⟨"action.propOptionscodeChangefundingGoal", "ctx.ProposalMasterStore.Proposal.SetOptions"⟩,
  ⟨"action.propOptionscodeChangeinitialFunding", "ctx.ProposalMasterStore.Proposal.SetOptions"⟩,
  ⟨"action.propOptionscodeChangepassPercentage", "ctx.ProposalMasterStore.Proposal.SetOptions"⟩,
  ⟨"action.propOptionscodeChangevotingDeadline", "ctx.ProposalMasterStore.Proposal.SetOptions"⟩,
  ⟨"action.propOptionsconfigUpdatefundingDeadline", "ctx.ProposalMasterStore.Proposal.SetOptions"⟩,
  ⟨"action.propOptionsconfigUpdatefundingGoal", "ctx.ProposalMasterStore.Proposal.SetOptions"⟩,
  ⟨"action.propOptionsconfigUpdateinitialFunding", "ctx.ProposalMasterStore.Proposal.SetOptions"⟩,
  ⟨"action.propOptionsconfigUpdatepassPercentage", "ctx.ProposalMasterStore.Proposal.SetOptions"⟩,
  ⟨"action.propOptionsconfigUpdatevotingDeadline", "ctx.ProposalMasterStore.Proposal.SetOptions"⟩,
  ⟨"action.propOptionsgeneralfundingDeadline", "ctx.ProposalMasterStore.Proposal.SetOptions"⟩,
  ⟨"action.propOptionsgeneralfundingGoal", "ctx.ProposalMasterStore.Proposal.SetOptions"⟩,
  ⟨"action.propOptionsgeneralinitialFunding", "ctx.ProposalMasterStore.Proposal.SetOptions"⟩,
  ⟨"action.propOptionsgeneralpassPercentage", "ctx.ProposalMasterStore.Proposal.SetOptions"⟩,
  ⟨"action.propOptionsgeneralvotingDeadline", "ctx.ProposalMasterStore.Proposal.SetOptions"⟩,
  ⟨"app.App.Prepare", "app.Context.btcTrackers.SetConfig"⟩,
  ⟨"app.App.Prepare", "app.Context.ethTrackers.SetupOption"⟩,
  ⟨"app.App.Prepare", "app.Context.feePool.SetupOpt"⟩,
  ⟨"app.App.Prepare", "app.Context.proposalMaster.Proposal.SetOptions"⟩,
  ⟨"app.App.Prepare", "app.Context.rewardMaster.SetOptions"⟩,
  ⟨"app.App.blockBeginner", "app.Context.feePool.SetupOpt"⟩,
  ⟨"app.App.setupState", "app.Context.btcTrackers.SetConfig"⟩,
  ⟨"app.App.setupState", "app.Context.btcTrackers.SetOption"⟩,
  ⟨"app.App.setupState", "app.Context.domains.SetOptions"⟩,
  ⟨"app.App.setupState", "app.Context.ethTrackers.SetupOption"⟩,
  ⟨"app.App.setupState", "app.Context.feePool.SetupOpt"⟩,
  ⟨"app.App.setupState", "app.Context.proposalMaster.Proposal.SetOptions"⟩,
  ⟨"app.App.setupState", "app.Context.rewardMaster.SetOptions"⟩,
  ⟨"app.context.Services", "btcTrackers.SetConfig"⟩,
  ⟨"app.context.Services", "ethTracker.SetupOption"⟩,
  ⟨"app.context.Services", "feePool.SetupOpt"⟩,
  ⟨"app.context.Services", "proposalMaster.Proposal.SetOptions"⟩,
  ⟨"app.context.Services", "rewardMaster.SetOptions"⟩,
  ⟨"data/rewards.RewardCumulativeStore.SetOptions", "rws.calculator.SetOptions"⟩,
  ⟨"data/rewards.RewardMasterStore.SetOptions", "rwz.Reward.SetOptions"⟩,
  ⟨"data/rewards.RewardMasterStore.SetOptions", "rwz.RewardCm.SetOptions"⟩,
  ⟨"data/rewards.RewardStore.UpdateOptions", "rs.SetOptions"⟩
]

def fatalSites : List Use := [
  ⟨"action/governance.CreateProposal.Validate", "panic"⟩,
  ⟨"action/governance.WithdrawFunds.Validate", "panic"⟩,
  ⟨"action/governance.fundProposalTx.Validate", "panic"⟩,
  ⟨"action/ons.RenewDomainTx.Validate", "panic"⟩,
  ⟨"action/ons.domainCreateTx.Validate", "panic"⟩,
  ⟨"action/ons.domainPurchaseTx.Validate", "panic"⟩,
  ⟨"action/ons.domainSaleTx.Validate", "panic"⟩,
  ⟨"action/rewards.withdrawTx.Validate", "panic"⟩,
  ⟨"action/transfer.sendPoolTx.Validate", "panic"⟩,
  ⟨"app.App.blockBeginner", "panic"⟩,
  ⟨"app.addMaturedAmountsToBalance", "panic"⟩,
  ⟨"app.addMaturedAmountsToBalance", "panic"⟩,
  ⟨"app.addMaturedAmountsToBalance", "panic"⟩,
  ⟨"app.context.Close", "panic"⟩,
  ⟨"app.doEthTransitions", "panic"⟩,
  ⟨"app.matureDelegationRewards", "panic"⟩,
  ⟨"app.matureDelegationRewards", "panic"⟩,
  ⟨"app.matureDelegationRewards", "panic"⟩,
  ⟨"data/accounts.Account.Address", "Fatal"⟩,
  ⟨"data/accounts.Account.FromBytes", "Fatal"⟩,
  ⟨"data/balance.Coin.LessThanCoin", "Fatal"⟩,
  ⟨"data/balance.Coin.LessThanEqualCoin", "Fatal"⟩,
  ⟨"data/balance.Coin.Minus", "Fatal"⟩,
  ⟨"data/balance.Coin.Plus", "Fatal"⟩,
  ⟨"data/balance.Coin.Plus", "Fatal"⟩,
  ⟨"data/balance.EthAccount.SubBalance", "panic"⟩,
  ⟨"event.FreezeForBroadcast", "panic"⟩,
  ⟨"event.JobETHSignRedeem.DoMyJob", "panic"⟩,
  ⟨"event.JobETHSignRedeem.DoMyJob", "panic"⟩,
  ⟨"event.JobETHSignRedeem.DoMyJob", "panic"⟩,
  ⟨"event.JobETHSignRedeem.DoMyJob", "panic"⟩,
  ⟨"event.JobETHSignRedeem.DoMyJob", "panic"⟩,
  ⟨"event.JobETHSignRedeem.DoMyJob", "panic"⟩,
  ⟨"event.JobETHVerifyRedeem.DoMyJob", "panic"⟩,
  ⟨"event.JobETHVerifyRedeem.DoMyJob", "panic"⟩,
  ⟨"event.JobETHVerifyRedeem.DoMyJob", "panic"⟩,
  ⟨"event.MakeAvailable", "panic"⟩,
  ⟨"event.ProcessAllJobs", "panic"⟩,
  ⟨"event.ReportBroadcastSuccess", "panic"⟩,
  ⟨"event.ReserveTracker", "panic"⟩,
  ⟨"event.init", "panic"⟩,
  ⟨"event.init", "panic"⟩,
  ⟨"event.init", "panic"⟩,
  ⟨"event.init", "panic"⟩,
  ⟨"event.init", "panic"⟩,
  ⟨"event.init", "panic"⟩,
  ⟨"event.init", "panic"⟩,
  ⟨"event.init", "panic"⟩,
  ⟨"event.init", "panic"⟩,
  ⟨"event.init", "panic"⟩,
  ⟨"event.init", "panic"⟩,
  ⟨"event.init", "panic"⟩,
  ⟨"event.init", "panic"⟩,
  ⟨"event.init", "panic"⟩,
  ⟨"external_apps/bid/bid_action.CounterOfferTx.Validate", "panic"⟩,
  ⟨"external_apps/bid/bid_action.CreateBidTx.Validate", "panic"⟩,
  ⟨"identity.ValidatorStore.CheckMaliciousValidators", "Fatal"⟩,
  ⟨"identity.ValidatorStore.GetEndBlockUpdate", "Fatal"⟩,
  ⟨"identity.ValidatorStore.GetEndBlockUpdate", "Fatal"⟩,
  ⟨"identity.ValidatorStore.GetEndBlockUpdate", "Fatal"⟩,
  ⟨"identity.ValidatorStore.GetEndBlockUpdate", "Fatal"⟩,
  ⟨"identity.ValidatorStore.GetEndBlockUpdate", "Fatal"⟩,
  ⟨"serialize.msgpackRegConc", "panic"⟩,
  ⟨"storage.ChainState.Commit", "panic"⟩,
  ⟨"storage.KeyValue.Close", "panic"⟩,
  ⟨"storage.KeyValue.Delete", "panic"⟩,
  ⟨"storage.KeyValue.Set", "panic"⟩,
  ⟨"storage.KeyValue.empty", "panic"⟩,
  ⟨"storage.KeyValue.list", "panic"⟩,
  ⟨"storage.KeyValueSession.Commit", "Fatal"⟩,
  ⟨"storage.State.CommitTxSession", "panic"⟩,
  ⟨"storage.cache.IterateRange", "panic"⟩,
  ⟨"storage.cacheSafe.IterateRange", "panic"⟩,
  ⟨"storage.cacheSession.IterateRange", "panic"⟩,
  ⟨"storage.newKeyValue", "panic"⟩,
  ⟨"storage.newKeyValue", "panic"⟩,
  ⟨"storage.sessionCache.IterateRange", "panic"⟩,
  ⟨"vm.Bloom.SetBytes", "panic"⟩,
  ⟨"vm.CommitStateDB.GetBlockHash", "panic"⟩,
  ⟨"vm.CommitStateDB.RevertToSnapshot", "panic"⟩,
  ⟨"vm.CommitStateDB.SubRefund", "panic"⟩,
  ⟨"vm.accessList.DeleteSlot", "panic"⟩,
  ⟨"vm.stateObject.setNonce", "panic"⟩
]

def signerRows : List Use := [
  ⟨"action/btc.AddSignature.Signers", "as.ValidatorAddress"⟩,
  ⟨"action/btc.BroadcastSuccess.Signers", "b.ValidatorAddress"⟩,
  ⟨"action/btc.FailedBroadcastReset.Signers", "fbr.ValidatorAddress"⟩,
  ⟨"action/btc.Lock.Signers", "bl.Locker"⟩,
  ⟨"action/btc.Redeem.Signers", "bl.Redeemer"⟩,
  ⟨"action/btc.ReportFinalityMint.Signers", "m.ValidatorAddress"⟩,
  ⟨"action/eth.ERC20Lock.Signers", "E.Locker"⟩,
  ⟨"action/eth.ERC20Redeem.Signers", "E.Owner"⟩,
  ⟨"action/eth.Lock.Signers", "et.Locker"⟩,
  ⟨"action/eth.Redeem.Signers", "r.Owner"⟩,
  ⟨"action/eth.ReportFinality.Signers", "m.ValidatorAddress"⟩,
  ⟨"action/evidence.Allegation.Signers", "r.ValidatorAddress"⟩,
  ⟨"action/evidence.AllegationVote.Signers", "av.Address"⟩,
  ⟨"action/evidence.Release.Signers", "r.ValidatorAddress"⟩,
  ⟨"action/governance.CancelProposal.Signers", "cp.Proposer"⟩,
  ⟨"action/governance.CreateProposal.Signers", "c.Proposer"⟩,
  ⟨"action/governance.ExpireVotes.Signers", "e.ValidatorAddress"⟩,
  ⟨"action/governance.FinalizeProposal.Signers", "p.ValidatorAddress"⟩,
  ⟨"action/governance.FundProposal.Signers", "fp.FunderAddress"⟩,
  ⟨"action/governance.VoteProposal.Signers", "vote.Address,vote.ValidatorAddress"⟩,
  ⟨"action/governance.WithdrawFunds.Signers", "wp.Funder"⟩,
  ⟨"action/network_delegation.AddNetworkDelegation.Signers", "n.DelegationAddress"⟩,
  ⟨"action/network_delegation.Reinvest.Signers", "ri.Delegator"⟩,
  ⟨"action/network_delegation.Undelegate.Signers", "ud.Delegator"⟩,
  ⟨"action/network_delegation.Withdraw.Signers", "w.Delegator"⟩,
  ⟨"action/olvm.Transaction.Signers", "tx.From"⟩,
  ⟨"action/ons.DeleteSub.Signers", "d.Owner"⟩,
  ⟨"action/ons.DomainCreate.Signers", "dc.Owner"⟩,
  ⟨"action/ons.DomainPurchase.Signers", "dp.Buyer"⟩,
  ⟨"action/ons.DomainSale.Signers", "s.OwnerAddress"⟩,
  ⟨"action/ons.DomainSend.Signers", "s.From"⟩,
  ⟨"action/ons.DomainUpdate.Signers", "du.Owner"⟩,
  ⟨"action/ons.RenewDomain.Signers", "r.Owner"⟩,
  ⟨"action/rewards.Withdraw.Signers", "w.SignerAddress"⟩,
  ⟨"action/staking.Stake.Signers", "st.StakeAddress,st.ValidatorAddress"⟩,
  ⟨"action/staking.Unstake.Signers", "ust.StakeAddress,ust.ValidatorAddress"⟩,
  ⟨"action/staking.Withdraw.Signers", "s.StakeAddress,s.ValidatorAddress"⟩,
  ⟨"action/transfer.Send.Signers", "s.From"⟩,
  ⟨"action/transfer.SendPool.Signers", "s.From"⟩,
  ⟨"external_apps/bid/bid_action.BidderDecision.Signers", "b.Bidder"⟩,
  ⟨"external_apps/bid/bid_action.CancelBid.Signers", "c.Bidder"⟩,
  ⟨"external_apps/bid/bid_action.CounterOffer.Signers", "c.AssetOwner"⟩,
  ⟨"external_apps/bid/bid_action.CreateBid.Signers", "c.Bidder"⟩,
  ⟨"external_apps/bid/bid_action.ExpireBid.Signers", "e.ValidatorAddress"⟩,
  ⟨"external_apps/bid/bid_action.OwnerDecision.Signers", "o.Owner"⟩
]



/-! ### Pinned sources: the functions the Lean models port by hand. Each row is the function and a
    hash of its normalised source (comments / layout removed) at the commit the port was made and
    validated against. An edit of a ported function changes the regenerated row and has to be
    acknowledged here after the model was re-validated. -/

def pinnedOf (t : List Use) (names : List String) : List Use := t.filter (fun r => names.contains r.fn)

def pinnedStore : List Use := [
  ⟨"storage.ChainState.Commit", "fa7aa151718d"⟩,
  ⟨"storage.ChainState.Delete", "954e612ccfe4"⟩,
  ⟨"storage.ChainState.Exists", "f924f73a99a4"⟩,
  ⟨"storage.ChainState.Get", "efe6e4f0fb49"⟩,
  ⟨"storage.ChainState.Set", "18c7954e82a3"⟩,
  ⟨"storage.ChainState.loadDB", "a124ab61ba6c"⟩,
  ⟨"storage.GasStore.Delete", "b2db44f3c5ee"⟩,
  ⟨"storage.GasStore.Exists", "b5ebf09b6eaf"⟩,
  ⟨"storage.GasStore.Get", "8b7efdc0e92a"⟩,
  ⟨"storage.GasStore.Set", "9362c0dfbe01"⟩,
  ⟨"storage.State.BeginTxSession", "9cdb6edd6c7c"⟩,
  ⟨"storage.State.Commit", "a13b3e8a9c69"⟩,
  ⟨"storage.State.CommitTxSession", "f8fb166d4f14"⟩,
  ⟨"storage.State.Delete", "4246b77b0d19"⟩,
  ⟨"storage.State.DiscardTxSession", "b0dd7d580d62"⟩,
  ⟨"storage.State.Exists", "3afc44af29cb"⟩,
  ⟨"storage.State.Get", "aabe050b413b"⟩,
  ⟨"storage.State.Iterate", "fc4a0187a7f4"⟩,
  ⟨"storage.State.IterateRange", "0662e131e08a"⟩,
  ⟨"storage.State.Set", "8cf5d915c17d"⟩,
  ⟨"storage.State.Write", "b9b8658c4407"⟩,
  ⟨"storage.State.deleted", "28ea826de789"⟩,
  ⟨"storage.State.rawCache", "0d5f82253f80"⟩,
  ⟨"storage.cacheSession.Commit", "a4bdab4276d3"⟩,
  ⟨"storage.cacheSession.Delete", "aa14baacfa77"⟩,
  ⟨"storage.cacheSession.Exists", "6c26e2586b2b"⟩,
  ⟨"storage.cacheSession.Get", "0fd39dd18e97"⟩,
  ⟨"storage.cacheSession.Set", "1f71ce3abdaf"⟩,
  ⟨"storage.gasCalculator.Consume", "16f3723657bd"⟩,
  ⟨"storage.isTombstone", "0f5b6f16da58"⟩,
  ⟨"storage.sessionCache.BeginSession", "18f59e62b38e"⟩,
  ⟨"storage.sessionCache.Delete", "7d299781649d"⟩,
  ⟨"storage.sessionCache.Exists", "d5f9e790c332"⟩,
  ⟨"storage.sessionCache.Get", "57d56f96ca2e"⟩,
  ⟨"storage.sessionCache.Iterate", "5ed52239efe2"⟩,
  ⟨"storage.sessionCache.Set", "32a0235275b3"⟩
]

def pinnedShell : List Use := [
  ⟨"app.App.GetTxFromCache", "873fb08129f6"⟩,
  ⟨"app.App.VerifyCache", "40f37f368782"⟩,
  ⟨"app.App.commitor", "be77335cc296"⟩,
  ⟨"app.App.infoServer", "65fd350ed923"⟩,
  ⟨"app.App.txChecker", "dc9d37957479"⟩,
  ⟨"app.App.txDeliverer", "75d25ada01a4"⟩
]

def pinnedLedger : List Use := [
  ⟨"action.Amount.IsValid", "5c466d054d42"⟩,
  ⟨"action.Amount.ToCoin", "8753ed279e9d"⟩,
  ⟨"action.Amount.ToCoinWithBase", "771405e05d43"⟩,
  ⟨"action.BasicFeeHandling", "0efa9aa29884"⟩,
  ⟨"action.StakingPayerFeeHandling", "7ab8b33e9544"⟩,
  ⟨"action/transfer.runSendPool", "85744aa41bde"⟩,
  ⟨"action/transfer.runTx", "fbaaaf735eae"⟩,
  ⟨"data/balance.Coin.IsValid", "3ce24331656d"⟩,
  ⟨"data/balance.Coin.Minus", "a7acd398966a"⟩,
  ⟨"data/balance.Coin.Plus", "9faff75e435a"⟩,
  ⟨"data/balance.Store.AddToAddress", "0f8462eea153"⟩,
  ⟨"data/balance.Store.MinusFromAddress", "93cf6d52be0d"⟩
]

def pinnedSig : List Use := [
  ⟨"action.RawTx.RawBytes", "9f0a69e62e6c"⟩,
  ⟨"action.SignedTx.SignedBytes", "0f2d9b6caa3d"⟩,
  ⟨"action.ValidateBasic", "94edf4483a09"⟩
]

end OLP.Expect

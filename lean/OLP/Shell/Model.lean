/-
  Layer S — the ABCI shell of `app/controller.go` with *handlers as arbitrary programs*.

  A handler (Validate / ProcessCheck / ProcessDeliver / ProcessFee, a block hook) is a value of
  the interaction-tree type `Prog`: it can read and write the store it is run against, read and
  write named volatile cells (the in-memory fields of the singleton stores), read the node-local
  environment (identity, clock, map-iteration oracle) and succeed with a value or fail.
  Every theorem about the shell is therefore a statement about *all* present and future
  transaction kinds.

  The shell itself is a statement-by-statement port of `txChecker`, `txDeliverer`,
  `blockBeginner`, `blockEnder`, `commitor` and of the session / overlay / index / gas
  discipline they implement, on top of the store model of layer K.
  Core-only.
-/
import OLP.KV.Model

namespace OLP.Shell
open OLP OLP.KV

/-- Interaction trees over the store interface. `C` names volatile cells, `E` is the node-local
    environment, `α` the result. -/
inductive Prog (K V C E : Type) (α : Type) where
  | ret  (a : α)
  | fail
  | get  (k : K) (κ : GetRes V → Prog K V C E α)             -- `.errGas` = ErrExceedGasLimit
  | has  (k : K) (κ : Bool → Prog K V C E α)
  | set  (k : K) (v : V) (κ : Bool → Prog K V C E α)        -- `false` = ErrExceedGasLimit
  | del  (k : K) (κ : Prog K V C E α)
  | iter (lo hi : Option K) (asc : Bool) (κ : List (K × Option V) → Prog K V C E α)
  | iterAll (lo hi : Option K) (asc : Bool) (κ : List (K × Option V) → Prog K V C E α)  -- `IterateRangeAll`: also the pending keys
  | getv (ver : Int) (k : K) (κ : Option V → Prog K V C E α)   -- versioned read (height−1 records)
  | gas  (κ : Int → Prog K V C E α)                          -- ConsumedGas()
  | burn (amount : Int) (κ : Prog K V C E α)                 -- ConsumeUpfront / VerifySig / Storage / Contract gas
  | vget (c : C) (κ : Option V → Prog K V C E α)
  | vset (c : C) (v : Option V) (κ : Prog K V C E α)
  | env  (κ : E → Prog K V C E α)

variable {K V C E α β : Type} [DecidableEq K] [DecidableEq V] [DecidableEq C]

/-- volatile memory: the in-memory fields of the singleton stores -/
abbrev Vol (C V : Type) := C → Option V

def Vol.set (m : Vol C V) (c : C) (v : Option V) : Vol C V := fun c' => if c' = c then v else m c'

/-- run a program against a store state, volatile memory and environment -/
def Prog.run (cfg : Cfg K V) : Prog K V C E α → St K V → Vol C V → E → Option α × St K V × Vol C V
  | .ret a, s, m, _ => (some a, s, m)
  | .fail, s, m, _ => (none, s, m)
  | .get k κ, s, m, e => let r := s.get cfg k; (κ r.2).run cfg r.1 m e
  | .has k κ, s, m, e => let r := s.has cfg k; (κ r.2).run cfg r.1 m e
  | .set k v κ, s, m, e => let r := s.set cfg k v; (κ (r.2 == .ok)).run cfg r.1 m e
  | .del k κ, s, m, e => κ.run cfg (s.del cfg k) m e
  | .iter lo hi asc κ, s, m, e => let r := s.iter cfg lo hi asc; (κ r.2).run cfg r.1 m e
  | .iterAll lo hi asc κ, s, m, e => let r := s.iterAll cfg lo hi asc; (κ r.2).run cfg r.1 m e
  | .getv ver k κ, s, m, e => (κ (s.tree.getVersioned ver k)).run cfg s m e
  | .gas κ, s, m, e => (κ s.gas.consumed).run cfg s m e
  | .burn a κ, s, m, e => κ.run cfg { s with gas := s.gas.consumeAlways a } m e
  | .vget c κ, s, m, e => (κ (m c)).run cfg s m e
  | .vset c v κ, s, m, e => κ.run cfg s (m.set c v) e
  | .env κ, s, m, e => (κ e).run cfg s m e

/-- the program never consults the environment -/
def Prog.EnvFree : Prog K V C E α → Prop
  | .ret _ | .fail => True
  | .get _ κ => ∀ x, (κ x).EnvFree
  | .has _ κ => ∀ x, (κ x).EnvFree
  | .set _ _ κ => ∀ x, (κ x).EnvFree
  | .del _ κ => κ.EnvFree
  | .iter _ _ _ κ => ∀ x, (κ x).EnvFree
  | .iterAll _ _ _ κ => ∀ x, (κ x).EnvFree
  | .getv _ _ κ => ∀ x, (κ x).EnvFree
  | .gas κ => ∀ x, (κ x).EnvFree
  | .burn _ κ => κ.EnvFree
  | .vget _ κ => ∀ x, (κ x).EnvFree
  | .vset _ _ κ => κ.EnvFree
  | .env _ => False

/-- the program never writes a volatile cell -/
def Prog.NoVset : Prog K V C E α → Prop
  | .ret _ | .fail => True
  | .get _ κ => ∀ x, (κ x).NoVset
  | .has _ κ => ∀ x, (κ x).NoVset
  | .set _ _ κ => ∀ x, (κ x).NoVset
  | .del _ κ => κ.NoVset
  | .iter _ _ _ κ => ∀ x, (κ x).NoVset
  | .iterAll _ _ _ κ => ∀ x, (κ x).NoVset
  | .getv _ _ κ => ∀ x, (κ x).NoVset
  | .gas κ => ∀ x, (κ x).NoVset
  | .burn _ κ => κ.NoVset
  | .vget _ κ => ∀ x, (κ x).NoVset
  | .vset _ _ _ => False
  | .env κ => ∀ x, (κ x).NoVset

/-! ### the application node -/

/-- the two overlays of a `storage.State` that are private to it (the tree is shared) -/
structure Ov (K V : Type) where
  sess    : Option (List (K × V))
  cache   : List (K × V)
  metered : Bool
  gas     : Gas

def Ov.fresh (limit : Int) : Ov K V := { sess := none, cache := [], metered := true, gas := ⟨limit, 0⟩ }
def Ov.toSt (o : Ov K V) (t : Tree K V) : St K V :=
  { sess := o.sess, cache := o.cache, metered := o.metered, gas := o.gas, tree := t }
def ovOf (s : St K V) : Ov K V := { sess := s.sess, cache := s.cache, metered := s.metered, gas := s.gas }

/-- the consensus-visible result of one transaction (`ResponseDeliverTx.Code/Data/GasUsed`) -/
structure TxRes (D : Type) where
  ok      : Bool
  data    : Option D
  gasUsed : Int
  deriving DecidableEq, Repr

/-- which `State` a singleton store reads through: every `Context.Action(..)` re-aims all of
    them at the state of the current CheckTx / DeliverTx; `WithState(deliver)` re-aims one -/
inductive Aim where | check | deliver
  deriving DecidableEq, Repr

/-- One node. `T` = transaction bytes, `H` = their hash, `D` = response data. -/
structure Node (K V C T H D : Type) where
  tree    : Tree K V
  dlv     : Ov K V
  chk     : Ov K V
  vol     : Vol C V
  idx     : List (H × TxRes D)    -- Tendermint's tx index (fed after each block)
  aim     : Aim                   -- where un-re-aimed singletons currently point
  height  : Nat                   -- last committed height
  closed  : Bool                  -- `handlePanic` closed the application

/-- The application code the shell is parametric in. -/
structure Handlers (K V C E T H D : Type) where
  hash      : T → H
  validate  : T → Prog K V C E Unit           -- `handler.Validate` (CheckTx only)
  check     : T → Prog K V C E D              -- `handler.ProcessCheck`
  deliver   : T → Prog K V C E D              -- `handler.ProcessDeliver`
  fee       : T → Int → Prog K V C E Int      -- `handler.ProcessFee(start gas)` ↦ gas used
  begin     : Nat → List (Bool × Prog K V C E Unit)  -- BeginBlock hooks; `true` = re-aimed at deliver
  endb      : Nat → List (Bool × Prog K V C E Unit)  -- EndBlock hooks
  gasLimit  : Int

variable {T H D : Type} [DecidableEq H]

def lookupIdx (idx : List (H × TxRes D)) (h : H) : Option (TxRes D) := alookup h idx

/-- `gasCalculator.IsEnough()`: the meter has reached its limit, every further strict consume is
    refused -/
def gasOut (g : Gas) : Bool := decide (g.consumed ≥ g.limit)

/-- `txDeliverer`: index lookup, session, `Validate` (since the fix "validate transactions in
    DeliverTx"; on failure the session is discarded and neither ProcessDeliver nor ProcessFee
    runs), `ProcessDeliver`, `ProcessFee` (always called), commit iff both succeeded and the
    block gas meter is not exhausted at the end (since the fix "a transaction that used up the
    block gas has failed") -/
def deliverTx (cfg : Cfg K V) (hs : Handlers K V C E T H D) (e : E) (n : Node K V C T H D) (tx : T) :
    Node K V C T H D × TxRes D :=
  match lookupIdx n.idx (hs.hash tx) with
  | some r => (n, r)                                   -- `GetTxFromCache`: cached response, nothing runs
  | none =>
    let s0 := (n.dlv.toSt n.tree).begin                -- BeginTxSession
    let g0 := s0.gas.consumed
    let rv := (hs.validate tx).run cfg s0 n.vol e       -- Validate
    match rv.1 with
    | none =>
      let s3 := rv.2.1.dsess
      ({ n with dlv := ovOf s3, tree := s3.tree, vol := rv.2.2, aim := .deliver },
       { ok := false, data := none, gasUsed := 0 })
    | some _ =>
      let r1 := (hs.deliver tx).run cfg rv.2.1 rv.2.2 e   -- ProcessDeliver
      let r2 := (hs.fee tx g0).run cfg r1.2.1 r1.2.2 e    -- ProcessFee, always called
      let s2 := r2.2.1
      let ok := r1.1.isSome && r2.1.isSome && !gasOut s2.gas
      let s3 := if ok then (match s2.csess with | some s => s | none => s2) else s2.dsess
      ({ n with dlv := ovOf s3, tree := s3.tree, vol := r2.2.2, aim := .deliver },
       { ok := ok, data := r1.1, gasUsed := r2.1.getD 0 })

/-- `txChecker` -/
def checkTx (cfg : Cfg K V) (hs : Handlers K V C E T H D) (e : E) (n : Node K V C T H D) (tx : T) :
    Node K V C T H D × Bool :=
  match lookupIdx n.idx (hs.hash tx) with
  | some _ => (n, false)                               -- `VerifyCache`: duplicate
  | none =>
    let s0 := (n.chk.toSt n.tree).begin
    let g0 := s0.gas.consumed
    let rv := (hs.validate tx).run cfg s0 n.vol e
    match rv.1 with
    | none =>                                          -- early return: the session stays open
      ({ n with chk := ovOf rv.2.1, vol := rv.2.2, aim := .check }, false)
    | some _ =>
      let r1 := (hs.check tx).run cfg rv.2.1 rv.2.2 e
      let r2 := (hs.fee tx g0).run cfg r1.2.1 r1.2.2 e
      let s2 := r2.2.1
      let ok := r1.1.isSome && r2.1.isSome
      let s3 := if ok then (match s2.csess with | some s => s | none => s2) else s2.dsess
      ({ n with chk := ovOf s3, vol := r2.2.2, aim := .check }, ok)

/-- `State.Unmetered()` (storage/state.go): a state over the SAME session and block cache whose
    `GasStore` has a private calculator with limit `MaxInt64` that is thrown away afterwards: no
    access is refused and nothing is charged to the block's meter.

    Representation: `metered := false` (the unmetered path of layer K) with a private counter that
    starts at 0, NOT a metered state with a huge private limit. `Int` has no maximum, and a finite
    private limit could be reached by some program (the hooks are arbitrary programs here). The two
    agree on every answer: the unmetered path of `get` / `has` / `set` / `del` / `iter` / `iterAll`
    in OLP/KV/Model.lean returns what the metered path returns when nothing is refused — the view
    (`get_exact`, `has_exact`, `set_exact`, `del_exact` of OLP/KV/Refine.lean state both paths at
    once; `has` on a pending delete, the `TOMBSTONE` refusal of `set`, the `deleted` filter of the
    iterators do not look at `metered`). The one observable difference: a hook that READ the level
    of its throw-away calculator (`.gas`) sees its own `.burn`s only, not the flat costs of its
    store accesses; no hook of /repo reads it, and the level is discarded with the calculator. -/
def Ov.unmetered (o : Ov K V) (t : Tree K V) : St K V :=
  { sess := o.sess, cache := o.cache, metered := false, gas := ⟨0, 0⟩, tree := t }

/-- run a block hook. When it re-aims its stores (`WithState(app.Context.deliver)`), or when the
    singletons were last aimed at the deliver state, it runs against the deliver state made
    UNMETERED (`app.Context.deliver = app.Context.deliver.Unmetered()` at the start of `blockEnder`
    since 359026c; `app.Context.deliver = metered.Unmetered()` with
    `defer func() { app.Context.deliver = metered }()` in `blockBeginner` since fc77c5a): the hook's
    accesses are never refused and consume nothing of the block's gas; its writes land in the same
    session / block cache; meter and meteredness of the deliver state are afterwards exactly what
    they were before the hook. Otherwise (no re-aim while the singletons point at the check state)
    it runs against the CHECK state, metered by the check state's own calculator, as before.

    (A hook that does not re-aim while the singletons point at the deliver state holds, in the Go
    code, the `State` object of the last DeliverTx: the same block cache behind the block's meter.
    The model runs it unmetered like the re-aimed ones; every hook of /repo re-aims — T3 table
    `hookReads` — and every theorem about hooks assumes `AllAimed`.) -/
def runHook (cfg : Cfg K V) (e : E) (n : Node K V C T H D) (hk : Bool × Prog K V C E Unit) :
    Node K V C T H D :=
  if hk.1 || n.aim = .deliver then
    let r := hk.2.run cfg (n.dlv.unmetered n.tree) n.vol e
    { n with dlv := { sess := r.2.1.sess, cache := r.2.1.cache,
                      metered := n.dlv.metered, gas := n.dlv.gas },
             vol := r.2.2 }
  else
    let r := hk.2.run cfg (n.chk.toSt n.tree) n.vol e
    { n with chk := ovOf r.2.1, vol := r.2.2 }

/-- `blockBeginner`: fresh deliver state with a fresh gas calculator, then the hooks — on the
    unmetered view of that state (fc77c5a): the transactions find the meter at 0 whatever the hooks
    read and wrote -/
def beginBlock (cfg : Cfg K V) (hs : Handlers K V C E T H D) (e : E) (n : Node K V C T H D) :
    Node K V C T H D :=
  (hs.begin (n.height + 1)).foldl (runHook cfg e) { n with dlv := Ov.fresh hs.gasLimit }

/-- `blockEnder`: the hooks, on the unmetered view of the deliver state (359026c): they run
    whatever the transactions have left of the block gas -/
def endBlock (cfg : Cfg K V) (hs : Handlers K V C E T H D) (e : E) (n : Node K V C T H D) :
    Node K V C T H D :=
  (hs.endb (n.height + 1)).foldl (runHook cfg e) n

/-- `commitor`: `deliver.Commit()`, then a fresh check state -/
def commit (cfg : Cfg K V) (hs : Handlers K V C E T H D) (n : Node K V C T H D) : Node K V C T H D :=
  let s := (n.dlv.toSt n.tree).commit cfg
  { n with tree := s.tree, dlv := ovOf s, chk := Ov.fresh hs.gasLimit, height := n.height + 1 }

def deliverAll (cfg : Cfg K V) (hs : Handlers K V C E T H D) (e : E) :
    Node K V C T H D → List T → Node K V C T H D × List (TxRes D)
  | n, [] => (n, [])
  | n, tx :: txs =>
    let r := deliverTx cfg hs e n tx
    let rs := deliverAll cfg hs e r.1 txs
    (rs.1, r.2 :: rs.2)

/-- the consensus transcript of a block: results of its transactions and the write log of the
    commit (the input of the application hash) -/
structure BlockOut (K V D : Type) where
  results : List (TxRes D)
  log     : List (TreeOp K V)

/-- one whole block; afterwards the harness (Tendermint) indexes its transactions -/
def execBlock (cfg : Cfg K V) (hs : Handlers K V C E T H D) (e : E) (n : Node K V C T H D) (txs : List T) :
    Node K V C T H D × BlockOut K V D :=
  let n1 := beginBlock cfg hs e n
  let r := deliverAll cfg hs e n1 txs
  let n2 := endBlock cfg hs e r.1
  let n3 := commit cfg hs n2
  let n4 := { n3 with idx := n3.idx ++ (txs.zip r.2).map (fun p => (hs.hash p.1, p.2)) }
  (n4, { results := r.2, log := n3.tree.log.drop n.tree.log.length })

def execBlocks (cfg : Cfg K V) (hs : Handlers K V C E T H D) (e : E) :
    Node K V C T H D → List (List T) → Node K V C T H D × List (BlockOut K V D)
  | n, [] => (n, [])
  | n, b :: bs =>
    let r := execBlock cfg hs e n b
    let rs := execBlocks cfg hs e r.1 bs
    (rs.1, r.2 :: rs.2)

/-- process death and restart: only the saved versions survive; overlays are empty, volatile
    memory is whatever the start-up code (`NewApp` + `Prepare`) computes from the persisted tree -/
def crash (boot : Tree K V → Vol C V) (hs : Handlers K V C E T H D) (n : Node K V C T H D) :
    Node K V C T H D :=
  let t := n.tree.reopen
  { n with tree := t, dlv := Ov.fresh hs.gasLimit, chk := Ov.fresh hs.gasLimit, vol := boot t,
           aim := .check, height := t.version }

/-- `infoServer`: height and the log prefix that determines the hash -/
def info (n : Node K V C T H D) : Nat × List (TreeOp K V) :=
  (n.tree.version, n.tree.log.take (savedPrefixLen n.tree.log))

end OLP.Shell

/-
  Layer D — helper lemmas for the reward split, the reward records and the withdrawal (C13).
-/
import OLP.Rewards.Model

namespace OLP.Rewards
open OLP

/-! ## floor shares -/


theorem sum_floor_mul_le (T P : Int) (ps : List Int) (hP : P ≠ 0) :
    (ps.map (fun p => T * p / P)).sum * P ≤ T * ps.sum := by
  induction ps with
  | nil => simp
  | cons a t ih =>
    simp only [List.map_cons, List.sum_cons, Int.add_mul, Int.mul_add]
    have := Int.ediv_mul_le (T * a) hP
    omega

theorem sum_floor_shares_le (T P : Int) (ps : List Int) (hT : 0 ≤ T) (hP : 0 < P) (hs : ps.sum ≤ P) :
    (ps.map (fun p => T * p / P)).sum ≤ T := by
  have h1 := sum_floor_mul_le T P ps (by omega)
  have h2 : T * ps.sum ≤ T * P := Int.mul_le_mul_of_nonneg_left hs hT
  exact Int.le_of_mul_le_mul_right (Int.le_trans h1 h2) hP

theorem sum_floor_zero (T : Int) (ps : List Int) : (ps.map (fun p => T * p / 0)).sum = 0 := by
  induction ps with
  | nil => rfl
  | cons a t ih => simp only [List.map_cons, List.sum_cons, Int.ediv_zero] at *; omega

/-- the same with a possibly zero divisor (`x / 0 = 0`) -/
theorem sum_floor_shares_le' (T P : Int) (ps : List Int) (hT : 0 ≤ T) (hP : 0 ≤ P) (hs : ps.sum ≤ P) :
    (ps.map (fun p => T * p / P)).sum ≤ T := by
  by_cases h0 : P = 0
  · subst h0
    rw [sum_floor_zero]; exact hT
  · exact sum_floor_shares_le T P ps hT (by omega) hs

/-! ## votes and the power map -/

theorem powerMap_cons (a : Vote) (l : List Vote) (x : Addr) :
    powerMap (a :: l) x = (powerMap l x).or (if a.addr = x then some a.pw else none) := by
  unfold powerMap
  rw [List.reverse_cons, List.find?_append]
  by_cases h : a.addr = x <;> cases List.find? (fun v => decide (v.addr = x)) l.reverse <;> simp [h]

theorem powerMap_none_of_not_mem (l : List Vote) (x : Addr) (h : x ∉ l.map (·.addr)) :
    powerMap l x = none := by
  induction l with
  | nil => rfl
  | cons a t ih =>
    simp only [List.map_cons, List.mem_cons, not_or] at h
    rw [powerMap_cons, ih h.2]
    have : ¬ a.addr = x := fun e => h.1 e.symm
    simp [this]

theorem powerMap_of_mem (l : List Vote) (v : Vote) (hn : (l.map (·.addr)).Nodup) (hv : v ∈ l) :
    powerMap l v.addr = some v.pw := by
  induction l with
  | nil => cases hv
  | cons a t ih =>
    simp only [List.map_cons, List.nodup_cons] at hn
    rw [powerMap_cons]
    rcases List.mem_cons.mp hv with rfl | hm
    · rw [powerMap_none_of_not_mem t _ hn.1]; simp
    · rw [ih hn.2 hm]; simp

theorem base18_pos : 0 < base18 := by decide

theorem pw_nonneg (v : Vote) (h : 0 ≤ v.power) : 0 ≤ v.pw :=
  Int.mul_nonneg h (Int.le_of_lt base18_pos)

theorem sumPower_cons (v : Vote) (t : List Vote) : sumPower (v :: t) = v.pw + sumPower t := by
  simp [sumPower]

theorem sumPower_nonneg (vs : List Vote) (h : ∀ v ∈ vs, 0 ≤ v.power) : 0 ≤ sumPower vs := by
  induction vs with
  | nil => simp [sumPower]
  | cons v t ih =>
    rw [sumPower_cons]
    have := pw_nonneg v (h v List.mem_cons_self)
    have := ih (fun w hw => h w (List.mem_cons_of_mem _ hw))
    omega

theorem delegSplit_ok (T D P : Int) (active : List (Addr × Int)) (hT : 0 ≤ T) (hD : 0 ≤ D)
    (hP : 0 ≤ P) :
    ∃ dr comm pr, dr = T * D / P ∧ 0 ≤ pr ∧ pr ≤ comm ∧ comm ≤ dr ∧
      delegSplit T D P active =
        ⟨dr - comm, pr, comm - pr, active.map (fun p => (p.1, (dr - comm) * p.2 / D)), true⟩ := by
  have h0 : 0 ≤ T * D / P := Int.ediv_nonneg (Int.mul_nonneg hT hD) hP
  refine ⟨T * D / P, 25 * (T * D / P) / 100, 20 * (25 * (T * D / P) / 100) / 100, rfl, ?_, ?_, ?_, ?_⟩
  · omega
  · omega
  · omega
  · unfold delegSplit
    simp only []
    rw [if_neg (by omega), if_neg (by omega)]

/-! ## the validator loop -/

def selPw (vs : List Vote) : List Int :=
  (vs.filter (fun v => v.known && v.signed)).map Vote.pw

theorem selPw_cons_pos (v : Vote) (t : List Vote) (h : v.known ∧ v.signed) :
    selPw (v :: t) = v.pw :: selPw t := by
  simp [selPw, h.1, h.2]

theorem selPw_cons_neg (v : Vote) (t : List Vote) (h : ¬ (v.known ∧ v.signed)) :
    selPw (v :: t) = selPw t := by
  have : (v.known && v.signed) = false := by
    cases hk : v.known <;> cases hs : v.signed <;> simp_all
  simp [selPw, this]

theorem valCredits_cons_pos (T D P Pc : Int) (resp : DelegResp) (proposer : Addr) (all : List Vote)
    (v : Vote) (t : List Vote) (h : v.known ∧ v.signed) :
    valCredits T D P Pc resp proposer all (v :: t) =
      (v.addr, T * (powerMap all v.addr).getD 0 / P +
        (if D > 0 then resp.commission * (powerMap all v.addr).getD 0 / Pc +
            (if v.addr = proposer then resp.proposerReward else 0) else 0)) ::
        valCredits T D P Pc resp proposer all t := by
  simp only [valCredits, h, and_self, if_true, rewardFor]

theorem valCredits_cons_neg (T D P Pc : Int) (resp : DelegResp) (proposer : Addr) (all : List Vote)
    (v : Vote) (t : List Vote) (h : ¬ (v.known ∧ v.signed)) :
    valCredits T D P Pc resp proposer all (v :: t) = valCredits T D P Pc resp proposer all t := by
  simp only [valCredits, h, if_false]

theorem sumSnd_cons (a : Addr) (x : Int) (t : List (Addr × Int)) :
    sumSnd ((a, x) :: t) = x + sumSnd t := by
  simp [sumSnd]

theorem valCredits_sum_le (T D P Pc : Int) (resp : DelegResp) (proposer : Addr) (all vs : List Vote)
    (hn : (vs.map (·.addr)).Nodup) (hp : ∀ v ∈ vs, powerMap all v.addr = some v.pw)
    (hpr : 0 ≤ resp.proposerReward) :
    sumSnd (valCredits T D P Pc resp proposer all vs) ≤
      ((selPw vs).map (fun p => T * p / P)).sum +
      (if D > 0 then ((selPw vs).map (fun p => resp.commission * p / Pc)).sum +
          (if proposer ∈ vs.map (·.addr) then resp.proposerReward else 0) else 0) := by
  induction vs with
  | nil => simp [valCredits, selPw, sumSnd]
  | cons v t ih =>
    simp only [List.map_cons, List.nodup_cons] at hn
    have ih' := ih hn.2 (fun w hw => hp w (List.mem_cons_of_mem _ hw))
    have hpv := hp v List.mem_cons_self
    by_cases hsel : v.known ∧ v.signed
    · rw [valCredits_cons_pos _ _ _ _ _ _ _ _ _ hsel, selPw_cons_pos _ _ hsel, sumSnd_cons, hpv]
      simp only [Option.getD_some, List.map_cons, List.sum_cons, List.mem_cons]
      by_cases hD : D > 0
      · simp only [hD, if_true] at ih' ⊢
        by_cases hpp : v.addr = proposer
        · have hnm : proposer ∉ t.map (·.addr) := hpp ▸ hn.1
          simp only [hnm, if_false] at ih'
          simp only [hpp, if_true, true_or]
          omega
        · have hpp' : ¬ proposer = v.addr := fun e => hpp e.symm
          simp only [hpp, hpp', if_false, false_or]
          omega
      · simp only [hD, if_false] at ih' ⊢
        omega
    · rw [valCredits_cons_neg _ _ _ _ _ _ _ _ _ hsel, selPw_cons_neg _ _ hsel]
      by_cases hD : D > 0
      · simp only [hD, if_true, List.map_cons, List.mem_cons] at ih' ⊢
        by_cases hm : proposer ∈ t.map (·.addr)
        · simp only [hm, or_true, if_true] at ih' ⊢
          exact ih'
        · simp only [hm, if_false] at ih'
          split <;> omega
      · simp only [hD, if_false] at ih' ⊢
        exact ih'

/-! ## the split -/

theorem selPw_sum_le (vs : List Vote) (h : ∀ v ∈ vs, 0 ≤ v.power) : (selPw vs).sum ≤ sumPower vs := by
  induction vs with
  | nil => simp [selPw, sumPower]
  | cons v t ih =>
    have ih' := ih (fun w hw => h w (List.mem_cons_of_mem _ hw))
    have hv := pw_nonneg v (h v List.mem_cons_self)
    rw [sumPower_cons]
    by_cases hsel : v.known ∧ v.signed
    · rw [selPw_cons_pos _ _ hsel, List.sum_cons]; omega
    · rw [selPw_cons_neg _ _ hsel]; omega

/-- `split` succeeded: its result, spelled out -/
theorem split_some (T D : Int) (votes : List Vote) (proposer : Addr) (active : List (Addr × Int))
    (sp : Split) (h : split T D votes proposer active = some sp) :
    sp = ⟨if D > 0 then delegSplit T D (sumPower votes + D) active else ⟨0, 0, 0, [], false⟩,
          valCredits T D (sumPower votes + D) (sumPower votes + D)
            (if D > 0 then delegSplit T D (sumPower votes + D) active else ⟨0, 0, 0, [], false⟩)
            proposer votes votes,
          (if D > 0 then (if D > 0 then delegSplit T D (sumPower votes + D) active
              else ⟨0, 0, 0, [], false⟩).delegRewards else 0) +
            sumSnd (valCredits T D (sumPower votes + D) (sumPower votes + D)
              (if D > 0 then delegSplit T D (sumPower votes + D) active else ⟨0, 0, 0, [], false⟩)
              proposer votes votes)⟩ := by
  unfold split at h
  simp only [] at h
  split at h
  · cases h
  · injection h with h; exact h.symm

theorem split_consumed_le (T D : Int) (votes : List Vote) (proposer : Addr)
    (active : List (Addr × Int)) (sp : Split)
    (hT : 0 ≤ T) (hD : 0 ≤ D) (hn : (votes.map (·.addr)).Nodup) (hpw : ∀ v ∈ votes, 0 ≤ v.power)
    (h : split T D votes proposer active = some sp) : sp.consumed ≤ T := by
  rw [split_some T D votes proposer active sp h]
  have hV := sumPower_nonneg votes hpw
  have hsel := selPw_sum_le votes hpw
  have hpm : ∀ v ∈ votes, powerMap votes v.addr = some v.pw := fun v hv => powerMap_of_mem votes v hn hv
  by_cases hD0 : D > 0
  · simp only [hD0, if_true]
    obtain ⟨dr, comm, pr, hdr, h1, h2, h3, heq⟩ :=
      delegSplit_ok T D (sumPower votes + D) active hT hD (by omega)
    rw [heq]
    have hb := valCredits_sum_le T D (sumPower votes + D) (sumPower votes + D)
      ⟨dr - comm, pr, comm - pr, active.map (fun p => (p.1, (dr - comm) * p.2 / D)), true⟩
      proposer votes votes hn hpm h1
    simp only [hD0, if_true] at hb
    have hA := sum_floor_shares_le T (sumPower votes + D) (D :: selPw votes) hT (by omega)
      (by rw [List.sum_cons]; omega)
    have hC := sum_floor_shares_le (comm - pr) (sumPower votes + D) (selPw votes) (by omega)
      (by omega) (by omega)
    simp only [List.map_cons, List.sum_cons] at hA
    simp only [] at hb ⊢
    subst hdr
    split at hb <;> omega
  · simp only [hD0, if_false]
    have hb := valCredits_sum_le T D (sumPower votes + D) (sumPower votes + D)
      ⟨0, 0, 0, [], false⟩ proposer votes votes hn hpm (Int.le_refl 0)
    simp only [hD0, if_false] at hb
    have hA := sum_floor_shares_le' T (sumPower votes + D) (selPw votes) hT (by omega) (by omega)
    omega

theorem sumSnd_map_floor (x D : Int) (active : List (Addr × Int)) :
    sumSnd (active.map (fun p => (p.1, x * p.2 / D))) =
      ((active.map (·.2)).map (fun a => x * a / D)).sum := by
  simp [sumSnd, List.map_map, Function.comp_def]

theorem split_credited_le (T D : Int) (votes : List Vote) (proposer : Addr)
    (active : List (Addr × Int)) (sp : Split)
    (hT : 0 ≤ T) (hD : 0 ≤ D) (hpw : ∀ v ∈ votes, 0 ≤ v.power) (ha : sumSnd active ≤ D)
    (h : split T D votes proposer active = some sp) :
    sumSnd sp.vals + sumSnd sp.resp.credits ≤ sp.consumed := by
  rw [split_some T D votes proposer active sp h]
  have hV := sumPower_nonneg votes hpw
  by_cases hD0 : D > 0
  · simp only [hD0, if_true]
    obtain ⟨dr, comm, pr, hdr, h1, h2, h3, heq⟩ :=
      delegSplit_ok T D (sumPower votes + D) active hT hD (by omega)
    rw [heq]
    simp only []
    rw [sumSnd_map_floor]
    have ha' : (active.map (fun p => p.2)).sum ≤ D := ha
    have := sum_floor_shares_le (dr - comm) D (active.map (fun p => p.2)) (by omega) hD0 ha'
    omega
  · simp only [hD0, if_false, sumSnd, List.map_nil, List.sum_nil]
    omega


theorem powerMap_getD_nonneg (l : List Vote) (x : Addr) (h : ∀ v ∈ l, 0 ≤ v.power) :
    0 ≤ (powerMap l x).getD 0 := by
  induction l with
  | nil => simp [powerMap]
  | cons a t ih =>
    have ih' := ih (fun w hw => h w (List.mem_cons_of_mem _ hw))
    have ha := pw_nonneg a (h a List.mem_cons_self)
    rw [powerMap_cons]
    cases hp : powerMap t x with
    | some y => rw [hp] at ih'; simpa using ih'
    | none =>
      by_cases hx : a.addr = x
      · simp [hx, ha]
      · simp [hx]

theorem valCredits_nonneg (T D P Pc : Int) (resp : DelegResp) (proposer : Addr) (all vs : List Vote)
    (hT : 0 ≤ T) (hP : 0 ≤ P) (hPc : 0 ≤ Pc) (hc : 0 ≤ resp.commission)
    (hpr : 0 ≤ resp.proposerReward) (hall : ∀ v ∈ all, 0 ≤ v.power) :
    ∀ p ∈ valCredits T D P Pc resp proposer all vs, 0 ≤ p.2 := by
  induction vs with
  | nil => intro p hp; cases hp
  | cons v t ih =>
    by_cases hsel : v.known ∧ v.signed
    · rw [valCredits_cons_pos _ _ _ _ _ _ _ _ _ hsel]
      intro p hp
      rcases List.mem_cons.mp hp with rfl | hp
      · have hw := powerMap_getD_nonneg all v.addr hall
        have h1 : 0 ≤ T * (powerMap all v.addr).getD 0 / P :=
          Int.ediv_nonneg (Int.mul_nonneg hT hw) hP
        have h2 : 0 ≤ resp.commission * (powerMap all v.addr).getD 0 / Pc :=
          Int.ediv_nonneg (Int.mul_nonneg hc hw) hPc
        simp only []
        split
        · split <;> omega
        · omega
      · exact ih p hp
    · rw [valCredits_cons_neg _ _ _ _ _ _ _ _ _ hsel]; exact ih

theorem valCredits_mem (T D P Pc : Int) (resp : DelegResp) (proposer : Addr) (all vs : List Vote) :
    ∀ p ∈ valCredits T D P Pc resp proposer all vs,
      ∃ v ∈ vs, v.addr = p.1 ∧ v.signed = true ∧ v.known = true := by
  induction vs with
  | nil => intro p hp; cases hp
  | cons v t ih =>
    by_cases hsel : v.known ∧ v.signed
    · rw [valCredits_cons_pos _ _ _ _ _ _ _ _ _ hsel]
      intro p hp
      rcases List.mem_cons.mp hp with rfl | hp
      · exact ⟨v, List.mem_cons_self, rfl, hsel.2, hsel.1⟩
      · obtain ⟨w, hw, h⟩ := ih p hp
        exact ⟨w, List.mem_cons_of_mem _ hw, h⟩
    · rw [valCredits_cons_neg _ _ _ _ _ _ _ _ _ hsel]
      intro p hp
      obtain ⟨w, hw, h⟩ := ih p hp
      exact ⟨w, List.mem_cons_of_mem _ hw, h⟩

theorem split_credits_nonneg (T D : Int) (votes : List Vote) (proposer : Addr)
    (active : List (Addr × Int)) (sp : Split)
    (hT : 0 ≤ T) (hD : 0 ≤ D) (hpw : ∀ v ∈ votes, 0 ≤ v.power) (ha : ∀ p ∈ active, 0 ≤ p.2)
    (h : split T D votes proposer active = some sp) :
    (∀ p ∈ sp.vals, 0 ≤ p.2) ∧ (∀ p ∈ sp.resp.credits, 0 ≤ p.2) := by
  rw [split_some T D votes proposer active sp h]
  have hV := sumPower_nonneg votes hpw
  by_cases hD0 : D > 0
  · simp only [hD0, if_true]
    obtain ⟨dr, comm, pr, hdr, h1, h2, h3, heq⟩ :=
      delegSplit_ok T D (sumPower votes + D) active hT hD (by omega)
    rw [heq]
    refine ⟨valCredits_nonneg _ _ _ _ _ _ _ _ hT (by omega) (by omega) (by simp only []; omega) h1 hpw, ?_⟩
    intro p hp
    simp only [List.mem_map] at hp
    obtain ⟨q, hq, rfl⟩ := hp
    exact Int.ediv_nonneg (Int.mul_nonneg (by omega) (ha q hq)) hD
  · simp only [hD0, if_false]
    refine ⟨valCredits_nonneg _ _ _ _ _ _ _ _ hT (by omega) (by omega) (Int.le_refl 0) (Int.le_refl 0) hpw, ?_⟩
    intro p hp; cases hp

theorem split_vals_mem (T D : Int) (votes : List Vote) (proposer : Addr)
    (active : List (Addr × Int)) (sp : Split)
    (h : split T D votes proposer active = some sp) :
    ∀ p ∈ sp.vals, ∃ v ∈ votes, v.addr = p.1 ∧ v.signed = true ∧ v.known = true := by
  rw [split_some T D votes proposer active sp h]
  exact valCredits_mem _ _ _ _ _ _ _ _

theorem split_isSome (T D : Int) (votes : List Vote) (proposer : Addr) (active : List (Addr × Int))
    (hP : sumPower votes + D ≠ 0) : (split T D votes proposer active).isSome = true := by
  unfold split
  simp only []
  rw [if_neg (fun h => hP h.1)]
  rfl

/-! ## the block step -/

theorem blockRewards_done (e : Env) (s s' : St) (b : BlockIn) (T : Int) (sp : Split)
    (h : blockRewards e s b = .done s' T sp) :
    ∃ c ys td, pullRewards e (getYears e s.ydist) s.cache b.h b.pool = .ok T c ∧
      split T b.D b.votes b.proposer b.active = some sp ∧
      consumeRewards e.o (getYears e s.ydist) s.tdist c b.h sp.consumed = some (ys, td) ∧
      s' = { s with
        ydist := some ys, tdist := td,
        chunks := creditVals e.o s.intervals b.h s.chunks sp.vals,
        newAddrs := sp.vals.foldl (fun acc p => addNew s.addrList acc p.1) s.newAddrs,
        matured := if b.h.tmod e.o.interval = 0
          then matureAll e.o s.intervals (creditVals e.o s.intervals b.h s.chunks sp.vals) b.h
            s.matured s.addrList else s.matured,
        delegBal := creditDeleg s.delegBal sp.resp.credits,
        delegTotal := s.delegTotal + sumSnd sp.resp.credits,
        cache := c } := by
  unfold blockRewards at h
  simp only [] at h
  split at h
  · cases h
  · cases h
  · rename_i T' c hpull
    split at h
    · cases h
    · rename_i sp' hsp
      split at h
      · cases h
      · split at h
        · cases h
        · rename_i ys td hcons
          injection h with h1 h2 h3
          subst h2 h3
          exact ⟨c, ys, td, hpull, hsp, hcons, h1.symm⟩

theorem consumeRewards_some (o : Opts) (years : List Year) (tdist : Int) (c : Cache) (h consumed : Int)
    (ys : List Year) (td : Int)
    (hc : consumeRewards o years tdist c h consumed = some (ys, td)) :
    td = tdist + consumed ∧ (c.burnedout = true → ys = years) ∧
    (c.burnedout = false → ∃ (y : Nat) (yr : Year), c.year = (y : Int) ∧ years[y]? = some yr ∧
      ys = years.set y ⟨yr.close, yr.dist + consumed,
        if lastInCycle o h then yr.dist + consumed else yr.till⟩) := by
  unfold consumeRewards at hc
  split at hc
  · rename_i hb
    injection hc with hc
    injection hc with h1 h2
    exact ⟨h2.symm, fun _ => h1.symm, fun hf => by rw [hb] at hf; cases hf⟩
  · rename_i hb
    split at hc
    · cases hc
    · rename_i hy
      injection hc with hc
      injection hc with h1 h2
      refine ⟨h2.symm, fun ht => absurd ht hb, fun _ => ?_⟩
      have hy1 : 0 ≤ c.year := by omega
      have hy2 : c.year.toNat < years.length := by omega
      refine ⟨c.year.toNat, years[c.year.toNat], by omega, List.getElem?_eq_getElem hy2, ?_⟩
      rw [← h1]
      unfold addYearDist
      rw [List.getElem?_eq_getElem hy2]
/-! ## non-negative records -/

theorem mem_upsert_gen {K : Type} [DecidableEq K] (l : List (K × Int)) (k : K) (v : Int)
    (p : K × Int) (h : p ∈ upsert l k v) : p ∈ l ∨ p = (k, v) := by
  induction l with
  | nil =>
    simp [upsert] at h
    exact Or.inr h
  | cons hd t ih =>
    obtain ⟨k', w⟩ := hd
    by_cases hk : k' = k
    · simp only [upsert, hk, if_true, List.mem_cons] at h
      rcases h with h | h
      · exact Or.inr h
      · exact Or.inl (List.mem_cons_of_mem _ h)
    · simp only [upsert, hk, if_false, List.mem_cons] at h
      rcases h with h | h
      · exact Or.inl (h ▸ List.mem_cons_self)
      · rcases ih h with h' | h'
        · exact Or.inl (List.mem_cons_of_mem _ h')
        · exact Or.inr h'

theorem alookup_getD_nonneg {K : Type} [DecidableEq K] (l : List (K × Int)) (k : K)
    (hn : ∀ p ∈ l, 0 ≤ p.2) : 0 ≤ (alookup k l).getD 0 := by
  induction l with
  | nil => simp
  | cons hd t ih =>
    obtain ⟨k', w⟩ := hd
    by_cases hk : k' = k
    · have := hn (k', w) List.mem_cons_self
      simpa [alookup, hk] using this
    · have := ih (fun p hp => hn p (List.mem_cons_of_mem _ hp))
      simpa [alookup, hk] using this

theorem upsert_nonneg {K : Type} [DecidableEq K] (l : List (K × Int)) (k : K) (v : Int)
    (hn : ∀ p ∈ l, 0 ≤ p.2) (hv : 0 ≤ v) : ∀ p ∈ upsert l k v, 0 ≤ p.2 := by
  intro p hp
  rcases mem_upsert_gen l k v p hp with h | h
  · exact hn p h
  · subst h; exact hv

theorem chunkAdd_nonneg (cs : Chunks) (a : Addr) (i amt : Int) (hn : ∀ p ∈ cs, 0 ≤ p.2)
    (ha : 0 ≤ amt) : ∀ p ∈ chunkAdd cs a i amt, 0 ≤ p.2 := by
  unfold chunkAdd
  have : 0 ≤ chunkGet cs a i := alookup_getD_nonneg cs (a, i) hn
  exact upsert_nonneg cs (a, i) _ hn (by omega)

theorem creditVals_nonneg (o : Opts) (ivs : Intervals) (h : Int) (cs : Chunks)
    (l : List (Addr × Int)) (hn : ∀ p ∈ cs, 0 ≤ p.2) (hl : ∀ p ∈ l, 0 ≤ p.2) :
    ∀ p ∈ creditVals o ivs h cs l, 0 ≤ p.2 := by
  induction l generalizing cs with
  | nil => exact hn
  | cons hd t ih =>
    obtain ⟨a, x⟩ := hd
    unfold creditVals
    exact ih _ (chunkAdd_nonneg cs a _ x hn (hl (a, x) List.mem_cons_self))
      (fun p hp => hl p (List.mem_cons_of_mem _ hp))

theorem maturedAmount_nonneg (o : Opts) (ivs : Intervals) (cs : Chunks) (a : Addr) (h : Int)
    (hn : ∀ p ∈ cs, 0 ≤ p.2) : 0 ≤ maturedAmount o ivs cs a h := by
  unfold maturedAmount
  simp only []
  split
  · exact alookup_getD_nonneg cs _ hn
  · exact Int.le_refl 0

theorem balAdd_nonneg (b : Bals) (a : Addr) (x : Int) (hn : ∀ p ∈ b, 0 ≤ p.2) (hx : 0 ≤ x) :
    ∀ p ∈ balAdd b a x, 0 ≤ p.2 := by
  unfold balAdd
  have : 0 ≤ balGet b a := alookup_getD_nonneg b a hn
  exact upsert_nonneg b a _ hn (by omega)

theorem matureAll_nonneg (o : Opts) (ivs : Intervals) (cs : Chunks) (h : Int) (b : Bals)
    (l : List Addr) (hc : ∀ p ∈ cs, 0 ≤ p.2) (hn : ∀ p ∈ b, 0 ≤ p.2) :
    ∀ p ∈ matureAll o ivs cs h b l, 0 ≤ p.2 := by
  induction l generalizing b with
  | nil => exact hn
  | cons a t ih =>
    unfold matureAll
    exact ih _ (balAdd_nonneg b a _ hn (maturedAmount_nonneg o ivs cs a h hc))

theorem blockRewards_keeps_nonneg (e : Env) (s s' : St) (b : BlockIn) (T : Int) (sp : Split)
    (hT : 0 ≤ T) (hD : 0 ≤ b.D) (hpw : ∀ v ∈ b.votes, 0 ≤ v.power) (ha : ∀ p ∈ b.active, 0 ≤ p.2)
    (hc : ∀ p ∈ s.chunks, 0 ≤ p.2) (hm : ∀ p ∈ s.matured, 0 ≤ p.2)
    (h : blockRewards e s b = .done s' T sp) :
    (∀ p ∈ s'.chunks, 0 ≤ p.2) ∧ (∀ p ∈ s'.matured, 0 ≤ p.2) := by
  obtain ⟨c, ys, td, _, hsp, _, rfl⟩ := blockRewards_done e s s' b T sp h
  have hcr := split_credits_nonneg T b.D b.votes b.proposer b.active sp hT hD hpw ha hsp
  have hch := creditVals_nonneg e.o s.intervals b.h s.chunks sp.vals hc hcr.1
  refine ⟨hch, ?_⟩
  simp only []
  split
  · exact matureAll_nonneg e.o s.intervals _ b.h s.matured s.addrList hch hm
  · exact hm
/-! ## chunks without interval records; the withdrawal -/

theorem chunkIndex_nil (o : Opts) (h : Int) (hh : 0 ≤ h) :
    chunkIndex o [] h = h / o.interval + 1 := by
  unfold chunkIndex
  have : getInterval [] h = (0, 0) := rfl
  rw [this]
  simp only [Int.sub_zero, Int.zero_add]
  rw [Int.tdiv_eq_ediv_of_nonneg hh]

theorem chunkIndex_nil_lt_of_multiples (o : Opts) (h1 h2 : Int) (hi : 0 < o.interval)
    (p1 : 0 ≤ h1) (hlt : h1 < h2)
    (m2 : h2.tmod o.interval = 0) :
    chunkIndex o [] h1 < chunkIndex o [] h2 := by
  rw [chunkIndex_nil o h1 p1, chunkIndex_nil o h2 (by omega)]
  rw [Int.tmod_eq_emod_of_nonneg (by omega)] at m2
  have := Int.ediv_lt_ediv_of_lt hlt (Int.dvd_of_emod_eq_zero m2) hi
  omega

theorem chunkIndex_nil_mono (o : Opts) (h h' : Int) (hi : 0 < o.interval) (p : 0 ≤ h)
    (hle : h ≤ h') : chunkIndex o [] h ≤ chunkIndex o [] h' := by
  rw [chunkIndex_nil o h p, chunkIndex_nil o h' (by omega)]
  have := Int.ediv_le_ediv hi hle
  omega

theorem runWithdraw_ok (w w' : WSt) (stake : Option Addr) (signer : Addr) (value : Int)
    (h : runWithdraw w stake signer value = .ok w') :
    0 ≤ w.matured - Ledger.toCoinWithBase value 18 ∧
    w' = ⟨w.matured - Ledger.toCoinWithBase value 18, w.withdrawn + Ledger.toCoinWithBase value 18,
          w.pool - Ledger.toCoinWithBase value 18, w.signer + Ledger.toCoinWithBase value 18⟩ := by
  unfold runWithdraw at h
  simp only [] at h
  split at h
  · cases h
  · rename_i h1
    split at h
    · cases h
    · split at h
      · cases h
      · injection h with h
        exact ⟨by omega, h.symm⟩

theorem withdrawTx_ok (w w' : WSt) (curOK : Bool) (stake : Option Addr) (signer : Addr)
    (value charge : Int) (h : withdrawTx w curOK stake signer value charge = .ok w') :
    (0 ≤ value ∧ value < 9223372036854775808) ∧ ∃ w1, runWithdraw w stake signer value = .ok w1 ∧
      w' = { w1 with signer := w1.signer - charge } := by
  unfold withdrawTx at h
  split at h
  · cases h
  · rename_i hv
    have hv' : 0 ≤ value ∧ value < 9223372036854775808 := by
      simp [validateWithdraw] at hv
      exact ⟨hv.1.2, hv.2.2⟩
    split at h
    · cases h
    · rename_i w1 hr
      split at h
      · cases h
      · injection h with h
        exact ⟨hv', w1, hr, h.symm⟩

theorem wrap64_of_range (x : Int) (h0 : 0 ≤ x) (h1 : x < 9223372036854775808) :
    Ledger.wrap64 x = x := by
  unfold Ledger.wrap64
  simp only []
  split <;> omega

theorem toCoinWithBase_nonneg (x : Int) (h0 : 0 ≤ x) (h1 : x < 9223372036854775808) :
    0 ≤ Ledger.toCoinWithBase x 18 := by
  unfold Ledger.toCoinWithBase
  rw [wrap64_of_range x h0 h1]
  exact Int.mul_nonneg h0 (by decide)

theorem withdrawTx_matured (w w' : WSt) (curOK : Bool) (stake : Option Addr) (signer : Addr)
    (value charge : Int) (h : withdrawTx w curOK stake signer value charge = .ok w') :
    0 ≤ w'.matured ∧ w'.matured + w'.withdrawn = w.matured + w.withdrawn := by
  obtain ⟨_, w1, hr, rfl⟩ := withdrawTx_ok w w' curOK stake signer value charge h
  obtain ⟨h0, rfl⟩ := runWithdraw_ok w w1 stake signer value hr
  simp only []
  omega

end OLP.Rewards

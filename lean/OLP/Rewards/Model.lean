/-
  Layer D — block rewards (C13): the reward calculator, the pull / consume bookkeeping, the split
  between validators, delegation pool, commission and proposer, the validator reward chunks with
  their maturity, and the reward withdrawal.

  Statement-by-statement port of
    data/rewards/calculator.go        RewardCalculator.{Calculate, secondsPerCycleLatest,
                                      numofMoreBlocksBeforeYearClose, getCycleNo, cacheResult}
    data/rewards/store_cumulative.go  PullRewards, ConsumeRewards, GetYearDistributedRewards,
                                      initRewardYears, addYearDistributedRewards,
                                      AddMaturedBalance, WithdrawRewards
    data/rewards/store.go             generateKey, generateMaturedKey, GetInterval, AddToAddress,
                                      GetMaturedAmount, IterateAddrList
    app/controller.go                 getRewardForValidator, handleDelegationRewards,
                                      handleBlockRewards, matureDelegationRewards
    action/rewards/withdraw.go        Validate (amount part), runWithdraw
  INCLUDING what looks wrong:
    * `totalPower := totValPower` aliases one *big.Int, so after `totalPower.Add(totalPower,
      delegationPower)` the validators' commission is divided by validator+delegation power;
    * the year records are only guarded by the per-block amount: nothing in the store checks
      `Distributed ≤ supply` (it is a theorem of the model since fix 2606b58, not a check);
    * the withdrawn coin is `Value.Int64() * 10^18` (`ToCoinWithBase`); `Validate` checks `Value`
      (sign, and since fix d8159a7 that it fits an int64).

  Amounts are unbounded integers (math/big; `big.Int.Div` is Euclidean division = Lean's `/` on
  `Int`).  int64 arithmetic (`/`, `%` on heights) is truncated division (`Int.tdiv/tmod`); int64
  overflow is out of scope.  Block times are whole seconds (unix), so `Duration.Seconds()`
  truncated to int64 is the exact difference.  The one float expression,
  `int64(float64(secsToClose*cycle) / float64(secsPerCycle))`, is the parameter `fq` of `Env`.
  Core-only.
-/
import OLP.Base.Assoc
import OLP.Ledger.Model

namespace OLP.Rewards
open OLP

abbrev Addr := String

/-- 10^18: `utils.PadZero` appends 18 zeros to the voting power; also the OLT base of
    `Currency.NewCoinFromInt` -/
def base18 : Int := 1000000000000000000

/-- `rewards.Options` (the fields the mechanism reads) -/
structure Opts where
  interval : Int        -- RewardInterval
  estSecs  : Int        -- EstimatedSecondsPerCycle
  cycle    : Int        -- BlockSpeedCalculateCycle
  window   : Int        -- YearCloseWindow
  shares   : List Int   -- YearBlockRewardShares
  burnout  : Int        -- BurnoutRate
  deriving Repr

/-- `RewardYear` (StartTime is never read) -/
structure Year where
  close : Int           -- CloseTime (unix seconds)
  dist  : Int           -- Distributed
  till  : Int           -- TillLastCycle
  deriving Repr, DecidableEq

/-- `RewardCached` -/
structure Cache where
  year      : Int
  cycleNo   : Int
  burnedout : Bool
  amount    : Int
  deriving Repr, DecidableEq

/-- `NewRewardCached()`: what a freshly started node holds -/
def Cache.fresh : Cache := ⟨-1, 0, false, 0⟩

/-- everything the calculator reads from outside the application state: the options (fixed: the
    governance validator rejects any change of the reward options), the block store
    (`tm h` = header time of block `h`), the calendar (`closeOf i` = block-1 time plus `i+1`
    calendar years, `Time.AddDate(1,0,0)` iterated) and the float quotient -/
structure Env where
  o       : Opts
  tm      : Int → Int
  closeOf : Nat → Int
  fq      : Int → Int → Int

/-! ## calculator.go -/

/-- `getCycleNo`: cycle number, firstInCycle, lastInCycle -/
def cycleNo (o : Opts) (h : Int) : Int := (h - 1).tdiv o.cycle + 1
def firstInCycle (o : Opts) (h : Int) : Bool := (h - 1).tmod o.cycle == 0
def lastInCycle (o : Opts) (h : Int) : Bool := h.tmod o.cycle == 0

/-- `secondsPerCycleLatest`: (secsPerCycle, tEnd) -/
def secondsPerCycleLatest (e : Env) (h : Int) : Int × Int :=
  if h > e.o.cycle then
    let cycleEnd := (h - 1).tdiv e.o.cycle * e.o.cycle + 1
    let cycleBegin := cycleEnd - e.o.cycle
    (e.tm cycleEnd - e.tm cycleBegin, e.tm cycleEnd)
  else (e.o.estSecs, e.tm 1)

/-- the loop of `numofMoreBlocksBeforeYearClose` from year index `i` on: first year whose close is
    at least `window` seconds after the end of the last complete cycle, with the forecast clamped
    to at least one cycle; `(0, -1)` when there is none -/
def selectYear (e : Env) (spc tEnd : Int) : List Year → Nat → Int × Int
  | [], _ => (0, -1)
  | y :: ys, i =>
    if y.close - tEnd ≥ e.o.window then
      let n := e.fq ((y.close - tEnd) * e.o.cycle) spc
      -- fix 2606b58: never forecast fewer blocks than one calculation cycle
      ((if n < e.o.cycle then e.o.cycle else n), (i : Int))
    else selectYear e spc tEnd ys (i + 1)

/-- `numofMoreBlocksBeforeYearClose` -/
def numMoreBlocks (e : Env) (years : List Year) (h : Int) : Int × Int :=
  let st := secondsPerCycleLatest e h
  selectYear e st.1 st.2 years 0

inductive CalcRes where
  | ok (amt : Int) (c : Cache)
  | err (c : Cache)          -- "Year rewards burned out unexpectedly": the error is returned, the cache kept
  | crash                    -- index out of range / integer division by zero
  deriving Repr, DecidableEq

/-- the recalculation branch of `Calculate` (what a node without a usable cache computes) -/
def recalc (e : Env) (years : List Year) (c : Cache) (h : Int) : CalcRes :=
  let ny := numMoreBlocks e years h
  let n := ny.1
  let y := ny.2
  if n = 0 then .ok e.o.burnout ⟨y, cycleNo e.o h, true, e.o.burnout⟩
  else
    match e.o.shares[y.toNat]?, years[y.toNat]? with
    | some supply, some yr =>
      let left := supply - yr.till
      if left < 0 then .err c
      else .ok (left / n) ⟨y, cycleNo e.o h, false, left / n⟩
    | _, _ => .crash

/-- `Calculate` (after `Reset(height, rewardYears)`) -/
def calculate (e : Env) (years : List Year) (c : Cache) (h : Int) : CalcRes :=
  if e.o.cycle = 0 then .crash
  -- fix 729d203: the cache is valid for the cycle it was calculated in only
  else if c.cycleNo > 0 ∧ c.cycleNo = cycleNo e.o h then .ok c.amount c
  else recalc e years c h

/-! ## store_cumulative.go -/

/-- `initRewardYears` -/
def initYears (e : Env) : List Year :=
  (List.range e.o.shares.length).map fun i => ⟨e.closeOf i, 0, 0⟩

/-- `GetYearDistributedRewards`: the stored record, created on first use -/
def getYears (e : Env) (ydist : Option (List Year)) : List Year :=
  match ydist with
  | some ys => ys
  | none => initYears e

inductive PullRes where
  | ok (amt : Int) (c : Cache)
  | err (c : Cache)
  | crash
  deriving Repr, DecidableEq

/-- `PullRewards` (the record initialisation is done by the caller through `getYears`) -/
def pullRewards (e : Env) (years : List Year) (c : Cache) (h pool : Int) : PullRes :=
  match calculate e years c h with
  | .crash => .crash
  | .err c' => .err c'
  | .ok amt c' => if c'.burnedout = true ∧ pool < amt then .ok pool c' else .ok amt c'

/-- `addYearDistributedRewards` -/
def addYearDist (years : List Year) (y : Nat) (consumed : Int) (last : Bool) : List Year :=
  match years[y]? with
  | none => years
  | some yr =>
    let d := yr.dist + consumed
    years.set y ⟨yr.close, d, if last then d else yr.till⟩

/-- `ConsumeRewards` on (ydist, tdist); `none` = index-out-of-range panic -/
def consumeRewards (o : Opts) (years : List Year) (tdist : Int) (c : Cache) (h consumed : Int) :
    Option (List Year × Int) :=
  if c.burnedout = true then some (years, tdist + consumed)
  else if c.year < 0 ∨ years.length ≤ c.year.toNat then none
  else some (addYearDist years c.year.toNat consumed (lastInCycle o h), tdist + consumed)

/-! ## app/controller.go: the split -/

/-- one entry of `LastCommitInfo.Votes` -/
structure Vote where
  addr   : Addr
  power  : Int      -- vote.Validator.Power
  signed : Bool     -- SignedLastBlock
  known  : Bool     -- the address is well formed and `validators.Get` returns a record
  deriving Repr, DecidableEq

def Vote.pw (v : Vote) : Int := v.power * base18

/-- `totValPower` after the first loop -/
def sumPower (vs : List Vote) : Int := (vs.map Vote.pw).sum

/-- `validatorPowerMap[addr]`: the last vote with that address wins -/
def powerMap (vs : List Vote) (a : Addr) : Option Int :=
  (vs.reverse.find? (fun v => v.addr = a)).map Vote.pw

/-- `getRewardForValidator` -/
def rewardFor (totalPower validatorPower totalRewards : Int) : Int :=
  totalRewards * validatorPower / totalPower

/-- what `handleDelegationRewards` hands back (and does) -/
structure DelegResp where
  delegRewards   : Int                  -- resp.DelegationRewards
  proposerReward : Int                  -- resp.ProposerReward
  commission     : Int                  -- resp.Commission
  credits        : List (Addr × Int)    -- AddRewardsBalance calls, in iteration order
  events         : Bool                 -- the proposer_ / pool attributes were written
  deriving Repr, DecidableEq

/-- `handleDelegationRewards` (T = TotalRewards, D = DelegationPower, P = TotalPower);
    COMMISSION_PERCENTAGE = 25, BLOCK_PROPOSER_COMMISSION = 20. `Amount.Minus` returns the negative
    difference together with the error, and the function returns at once. -/
def delegSplit (T D P : Int) (active : List (Addr × Int)) : DelegResp :=
  let dr0 := T * D / P
  let comm := 25 * dr0 / 100
  let pr := 20 * comm / 100
  if dr0 - comm < 0 then ⟨dr0 - comm, pr, 0, [], false⟩
  else if comm - pr < 0 then ⟨dr0 - comm, pr, comm - pr, [], false⟩
  else ⟨dr0 - comm, pr, comm - pr, active.map (fun p => (p.1, (dr0 - comm) * p.2 / D)), true⟩

/-- the validator loop of `handleBlockRewards`: credits in vote order.
    `P` is `totalPower`; `Pc` is the divisor of the commission share (`totValPower` in the source,
    which IS `totalPower` because of the aliasing — `split` passes the same value twice). -/
def valCredits (T D P Pc : Int) (resp : DelegResp) (proposer : Addr) (all : List Vote) :
    List Vote → List (Addr × Int)
  | [] => []
  | v :: vs =>
    if v.known ∧ v.signed then
      let pw := (powerMap all v.addr).getD 0
      let reward := rewardFor P pw T
      let comm := if D > 0 then
          rewardFor Pc pw resp.commission + (if v.addr = proposer then resp.proposerReward else 0)
        else 0
      (v.addr, reward + comm) :: valCredits T D P Pc resp proposer all vs
    else valCredits T D P Pc resp proposer all vs

structure Split where
  resp     : DelegResp
  vals     : List (Addr × Int)   -- AddToAddress(valAddress, height, amount) calls in vote order
  consumed : Int                 -- totalConsumed
  deriving Repr, DecidableEq

def sumSnd (l : List (Addr × Int)) : Int := (l.map (·.2)).sum

/-- the arithmetic of `handleBlockRewards` between `PullRewards` and `ConsumeRewards`;
    `none` = division by zero (`big.Int.Div` panics) -/
def split (T D : Int) (votes : List Vote) (proposer : Addr) (active : List (Addr × Int)) :
    Option Split :=
  let P := sumPower votes + D          -- totalPower AND totValPower (same *big.Int)
  let anyVal := votes.any (fun v => v.known && v.signed)
  if P = 0 ∧ (D > 0 ∨ anyVal) then none
  else
    let resp := if D > 0 then delegSplit T D P active else ⟨0, 0, 0, [], false⟩
    let vals := valCredits T D P P resp proposer votes votes
    some ⟨resp, vals, (if D > 0 then resp.delegRewards else 0) + sumSnd vals⟩

/-- the split a reader of the source expects (commission divided by the validators' own power):
    used only to state what the aliasing changes -/
def splitUnaliased (T D : Int) (votes : List Vote) (proposer : Addr) (active : List (Addr × Int)) :
    Option Split :=
  let V := sumPower votes
  let P := V + D
  let anyVal := votes.any (fun v => v.known && v.signed)
  if (P = 0 ∧ (D > 0 ∨ anyVal)) ∨ (V = 0 ∧ D > 0 ∧ anyVal) then none
  else
    let resp := if D > 0 then delegSplit T D P active else ⟨0, 0, 0, [], false⟩
    let vals := valCredits T D P V resp proposer votes votes
    some ⟨resp, vals, (if D > 0 then resp.delegRewards else 0) + sumSnd vals⟩

/-! ## store.go: chunks and maturity -/

/-- `Interval` records (`ri_<height>`): (LastIndex, LastHeight) -/
abbrev Intervals := List (Int × Int)

/-- `GetInterval`: the stored interval with the greatest LastHeight in (0, height], else (0,0) -/
def getInterval (ivs : Intervals) (height : Int) : Int × Int :=
  ivs.foldl (fun best iv => if iv.2 > best.2 ∧ iv.2 ≤ height then iv else best) (0, 0)

/-- `generateKey`: index of the chunk that collects the rewards of `height` -/
def chunkIndex (o : Opts) (ivs : Intervals) (height : Int) : Int :=
  let li := getInterval ivs height
  li.1 + (height - li.2).tdiv o.interval + 1

abbrev Chunks := List ((Addr × Int) × Int)

def chunkGet (cs : Chunks) (a : Addr) (i : Int) : Int := (alookup (a, i) cs).getD 0

/-- `AddToAddress` -/
def chunkAdd (cs : Chunks) (a : Addr) (i : Int) (amt : Int) : Chunks :=
  upsert cs (a, i) (chunkGet cs a i + amt)

/-- `GetMaturedAmount`: chunk index-2, or nothing while index < 2 -/
def maturedAmount (o : Opts) (ivs : Intervals) (cs : Chunks) (a : Addr) (height : Int) : Int :=
  let idx := chunkIndex o ivs height
  if idx ≥ 2 then chunkGet cs a (idx - 2) else 0

abbrev Bals := List (Addr × Int)

def balGet (b : Bals) (a : Addr) : Int := (alookup a b).getD 0
def balAdd (b : Bals) (a : Addr) (x : Int) : Bals := upsert b a (balGet b a + x)

/-! ## the reward part of BeginBlock as one step on decoded records -/

/-- the reward records of the application state (`rwz_`, `rwaddr_`, `ri_`, `rwcum_*`,
    `delegRwz_balance_`, `delegRwz_total_rewards`) and the calculator's volatile cache -/
structure St where
  ydist      : Option (List Year)
  tdist      : Int
  chunks     : Chunks
  addrList   : List Addr     -- committed `rwaddr_` keys (what `IterateAddrList` sees)
  newAddrs   : List Addr     -- `rwaddr_` keys written in this block (not yet iterable)
  intervals  : Intervals
  matured    : Bals          -- rwcum_balance_
  withdrawn  : Bals          -- rwcum_withdrawn_
  delegBal   : Bals          -- delegRwz_balance_
  delegTotal : Int           -- delegRwz_total_rewards
  cache      : Cache
  deriving Repr

/-- the consensus inputs of one BeginBlock -/
structure BlockIn where
  h        : Int
  votes    : List Vote
  proposer : Addr
  D        : Int                 -- balance of the delegation pool
  pool     : Int                 -- balance of the rewards pool
  active   : List (Addr × Int)   -- committed active delegations, in key order
  deriving Repr

inductive BlockOut where
  | done (s : St) (pulled : Int) (sp : Split)
  | skipped (s : St)        -- PullRewards returned an error: empty event, nothing else written
  | crash
  deriving Repr

def creditVals (o : Opts) (ivs : Intervals) (h : Int) : Chunks → List (Addr × Int) → Chunks
  | cs, [] => cs
  | cs, (a, x) :: t => creditVals o ivs h (chunkAdd cs a (chunkIndex o ivs h) x) t

def creditDeleg : Bals → List (Addr × Int) → Bals
  | b, [] => b
  | b, (a, x) :: t => creditDeleg (balAdd b a x) t

def addNew (committed new : List Addr) (a : Addr) : List Addr :=
  if a ∈ committed ∨ a ∈ new then new else new ++ [a]

/-- `IterateAddrList` + `GetMaturedAmount` + `AddMaturedBalance` at a maturity height -/
def matureAll (o : Opts) (ivs : Intervals) (cs : Chunks) (h : Int) : Bals → List Addr → Bals
  | b, [] => b
  | b, a :: t => matureAll o ivs cs h (balAdd b a (maturedAmount o ivs cs a h)) t

/-- `handleBlockRewards` -/
def blockRewards (e : Env) (s : St) (b : BlockIn) : BlockOut :=
  let years := getYears e s.ydist
  let s0 := { s with ydist := some years }
  match pullRewards e years s.cache b.h b.pool with
  | .crash => .crash
  | .err c => .skipped { s0 with cache := c }
  | .ok T c =>
    match split T b.D b.votes b.proposer b.active with
    | none => .crash
    | some sp =>
      if e.o.interval = 0 ∧ (sp.vals ≠ [] ∨ s.addrList ≠ []) then .crash else
      let chunks := creditVals e.o s.intervals b.h s.chunks sp.vals
      let newA := sp.vals.foldl (fun acc p => addNew s.addrList acc p.1) s.newAddrs
      let dbal := creditDeleg s.delegBal sp.resp.credits
      let dtot := s.delegTotal + sumSnd sp.resp.credits
      let mat := if b.h.tmod e.o.interval = 0
        then matureAll e.o s.intervals chunks b.h s.matured s.addrList else s.matured
      match consumeRewards e.o years s.tdist c b.h sp.consumed with
      | none => .crash
      | some (ys, td) =>
        .done { s with ydist := some ys, tdist := td, chunks := chunks, newAddrs := newA,
                       matured := mat, delegBal := dbal, delegTotal := dtot, cache := c } T sp

/-- `matureDelegationRewards`: every pending delegator reward of this height (committed
    `delegRwz_pending_<h>_` records) is added to the delegator's balance and zeroed -/
def matureDelegRewards (bals : Bals) : List (Addr × Int) → Bals
  | [] => bals
  | (a, x) :: t => matureDelegRewards (balAdd bals a x) t

/-! ## action/rewards/withdraw.go -/

inductive WErr where
  | invalid        -- Validate: currency / amount / address
  | unable         -- WithdrawRewards failed (matured balance too small)
  | mismatch       -- signer is not the validator's stake address
  | pool           -- rewards pool too small
  | fee            -- fee step failed
  deriving Repr, DecidableEq

/-- the records a WITHDRAW_REWARD touches -/
structure WSt where
  matured   : Int     -- rwcum_balance_<validator>
  withdrawn : Int     -- rwcum_withdrawn_<validator>
  pool      : Int     -- b_<rewardpool>_OLT
  signer    : Int     -- b_<signer>_OLT
  deriving Repr, DecidableEq

/-- `withdrawTx.Validate` (amount part; signatures and fee price are the shell's business, C04):
    known currency, `IsValid` (value ≥ 0) and — since fix d8159a7 — `Value.BigInt().IsInt64()`,
    because the handler withdraws `Value.Int64() * 10^18` -/
def validateWithdraw (curOK : Bool) (value : Int) : Bool :=
  curOK && decide (0 ≤ value) &&
    decide (-9223372036854775808 ≤ value ∧ value < 9223372036854775808)

/-- the amount check as it was before d8159a7 (sign only): kept to show the int64 guard is needed -/
def validateWithdrawNoInt64 (curOK : Bool) (value : Int) : Bool := curOK && decide (0 ≤ value)

/-- `runWithdraw`. `stake` = the validator record's stake address when the validator exists.
    The coin is `Value.Int64() * 10^18`. -/
def runWithdraw (w : WSt) (stake : Option Addr) (signerAddr : Addr) (value : Int) : Except WErr WSt :=
  let coin := Ledger.toCoinWithBase value 18
  if w.matured - coin < 0 then .error .unable
  else if stake.isSome ∧ stake ≠ some signerAddr then .error .mismatch
  else if w.pool - coin < 0 then .error .pool
  else .ok ⟨w.matured - coin, w.withdrawn + coin, w.pool - coin, w.signer + coin⟩

/-- the whole transaction as `txDeliverer` runs it: Validate, handler, fee step (charge = price ×
    gas used, debited from the signer), atomically -/
def withdrawTx (w : WSt) (curOK : Bool) (stake : Option Addr) (signerAddr : Addr) (value charge : Int) :
    Except WErr WSt :=
  if !validateWithdraw curOK value then .error .invalid
  else match runWithdraw w stake signerAddr value with
    | .error e => .error e
    | .ok w' => if w'.signer - charge < 0 then .error .fee else .ok { w' with signer := w'.signer - charge }

/-- the transaction without the int64 guard of d8159a7 (necessity example only) -/
def withdrawTxNoInt64 (w : WSt) (curOK : Bool) (stake : Option Addr) (signerAddr : Addr)
    (value charge : Int) : Except WErr WSt :=
  if !validateWithdrawNoInt64 curOK value then .error .invalid
  else match runWithdraw w stake signerAddr value with
    | .error e => .error e
    | .ok w' => if w'.signer - charge < 0 then .error .fee else .ok { w' with signer := w'.signer - charge }

/-! ## histories of the calculator (for the restart and schedule theorems) -/

/-- the persisted part of the calculator's world plus its cache -/
structure CS where
  years : List Year
  tdist : Int
  cache : Cache
  deriving Repr, DecidableEq

/-- what a block does to the calculator: optionally restart the node first (fresh cache), pull,
    then consume `use h pulled` (whatever the split consumed).  Returns the pulled amount
    (`none` when PullRewards failed or the node crashed; the state is then left as it is, apart
    from the cache the failing call returned). -/
def calcStep (e : Env) (use : Int → Int → Int) (pool : Int → Int) (s : CS) (h : Int) (restart : Bool) :
    CS × Option Int :=
  let c0 := if restart then Cache.fresh else s.cache
  match pullRewards e s.years c0 h (pool h) with
  | .crash => ({ s with cache := c0 }, none)
  | .err c => ({ s with cache := c }, none)
  | .ok amt c =>
    match consumeRewards e.o s.years s.tdist c h (use h amt) with
    | none => ({ s with cache := c }, none)
    | some (ys, td) => (⟨ys, td, c⟩, some amt)

/-- run blocks `h, h+1, …` with the given restart flags; the list of pulled amounts -/
def calcRun (e : Env) (use : Int → Int → Int) (pool : Int → Int) : CS → Int → List Bool → CS × List (Option Int)
  | s, _, [] => (s, [])
  | s, h, r :: rs =>
    let (s1, out) := calcStep e use pool s h r
    let (s2, outs) := calcRun e use pool s1 (h + 1) rs
    (s2, out :: outs)

end OLP.Rewards

/-
  Layer D — helper lemmas for the reward calculator and its histories (C13).
-/
import OLP.Rewards.Model

namespace OLP.Rewards
open OLP

/-! ## height arithmetic -/

theorem ediv_pred_of_emod_ne {k c : Int} (hc : 0 < c) (hm : k % c ≠ 0) : (k - 1) / c = k / c := by
  have h := (Int.ediv_emod_unique (a := k) hc).1 ⟨rfl, rfl⟩
  exact ((Int.ediv_emod_unique (a := k - 1) (r := k % c - 1) (q := k / c) hc).2
    ⟨by omega, by omega, by omega⟩).1

theorem ediv_pred_of_emod_eq {k c : Int} (hc : 0 < c) (hm : k % c = 0) : k / c = (k - 1) / c + 1 := by
  have h := (Int.ediv_emod_unique (a := k) hc).1 ⟨rfl, rfl⟩
  have h2 : c * (k / c - 1) = c * (k / c) - c := by rw [Int.mul_sub, Int.mul_one]
  have := ((Int.ediv_emod_unique (a := k - 1) (r := c - 1) (q := k / c - 1) hc).2
    ⟨by omega, by omega, by omega⟩).1
  omega

theorem firstInCycle_succ (o : Opts) (k : Int) : firstInCycle o (k + 1) = lastInCycle o k := by
  unfold firstInCycle lastInCycle
  rw [Int.add_sub_cancel]

theorem lastInCycle_false_iff {o : Opts} {k : Int} (hk : 1 ≤ k) :
    lastInCycle o k = false ↔ k % o.cycle ≠ 0 := by
  unfold lastInCycle
  rw [Int.tmod_eq_emod_of_nonneg (by omega)]
  simp

theorem lastInCycle_true_iff {o : Opts} {k : Int} (hk : 1 ≤ k) :
    lastInCycle o k = true ↔ k % o.cycle = 0 := by
  unfold lastInCycle
  rw [Int.tmod_eq_emod_of_nonneg (by omega)]
  simp

theorem cycleNo_eq {o : Opts} {k : Int} (hk : 1 ≤ k) : cycleNo o k = (k - 1) / o.cycle + 1 := by
  unfold cycleNo
  rw [Int.tdiv_eq_ediv_of_nonneg (by omega)]

theorem cycleNo_pos {o : Opts} {k : Int} (hk : 1 ≤ k) (hc : 0 < o.cycle) : 0 < cycleNo o k := by
  rw [cycleNo_eq hk]
  have := Int.ediv_nonneg (a := k - 1) (b := o.cycle) (by omega) (by omega)
  omega

theorem cycleNo_mono {o : Opts} {a b : Int} (ha : 1 ≤ a) (hab : a ≤ b) (hc : 0 < o.cycle) :
    cycleNo o a ≤ cycleNo o b := by
  rw [cycleNo_eq ha, cycleNo_eq (by omega)]
  have := Int.ediv_le_ediv (a := a - 1) (b := b - 1) hc (by omega)
  omega

theorem cycleNo_succ_of_not_last {o : Opts} {k : Int} (hk : 1 ≤ k) (hc : 0 < o.cycle)
    (hl : lastInCycle o k = false) : cycleNo o (k + 1) = cycleNo o k := by
  rw [cycleNo_eq hk, cycleNo_eq (by omega), Int.add_sub_cancel]
  rw [ediv_pred_of_emod_ne hc ((lastInCycle_false_iff hk).1 hl)]

theorem cycleNo_succ_of_last {o : Opts} {k : Int} (hk : 1 ≤ k) (hc : 0 < o.cycle)
    (hl : lastInCycle o k = true) : cycleNo o (k + 1) = cycleNo o k + 1 := by
  rw [cycleNo_eq hk, cycleNo_eq (by omega), Int.add_sub_cancel]
  rw [ediv_pred_of_emod_eq hc ((lastInCycle_true_iff hk).1 hl)]

theorem spc_succ_of_not_last {e : Env} {k : Int} (hk : 1 ≤ k) (hc : 0 < e.o.cycle)
    (hl : lastInCycle e.o k = false) :
    secondsPerCycleLatest e (k + 1) = secondsPerCycleLatest e k := by
  have hm := (lastInCycle_false_iff hk).1 hl
  have hne : k ≠ e.o.cycle := by
    intro h
    apply hm
    rw [h]
    exact Int.emod_self
  unfold secondsPerCycleLatest
  have hd : (k + 1 - 1).tdiv e.o.cycle = (k - 1).tdiv e.o.cycle := by
    rw [Int.add_sub_cancel, Int.tdiv_eq_ediv_of_nonneg (by omega), Int.tdiv_eq_ediv_of_nonneg (by omega),
      ediv_pred_of_emod_ne hc hm]
  rw [hd]
  by_cases h1 : k > e.o.cycle
  · have h2 : k + 1 > e.o.cycle := by omega
    simp only [h1, h2, if_true]
  · have h2 : ¬ (k + 1 > e.o.cycle) := by omega
    simp only [h1, h2, if_false]

/-- within one cycle no block before the last one is last-in-cycle -/
theorem not_last_of_same_cycle {o : Opts} {a m b : Int} (ha : 1 ≤ a) (ham : a ≤ m) (hmb : m < b)
    (hc : 0 < o.cycle) (hcy : cycleNo o a = cycleNo o b) : lastInCycle o m = false := by
  cases hl : lastInCycle o m with
  | false => rfl
  | true =>
    have h1 := cycleNo_succ_of_last (by omega) hc hl
    have h2 := cycleNo_mono (o := o) ha ham hc
    have h3 := cycleNo_mono (o := o) (a := m + 1) (b := b) (by omega) (by omega) hc
    omega

/-! ## the forecast -/

/-- `selectYear` reads the year records only through their close times -/
theorem selectYear_congr (e : Env) (spc tEnd : Int) :
    ∀ (ys ys' : List Year) (i : Nat), ys.map (·.close) = ys'.map (·.close) →
      selectYear e spc tEnd ys i = selectYear e spc tEnd ys' i
  | [], [], _, _ => rfl
  | [], _ :: _, _, h => by simp at h
  | _ :: _, [], _, h => by simp at h
  | y :: ys, y' :: ys', i, h => by
    simp only [List.map_cons, List.cons.injEq] at h
    unfold selectYear
    rw [h.1, selectYear_congr e spc tEnd ys ys' (i + 1) h.2]

theorem numMoreBlocks_congr (e : Env) (ys ys' : List Year) (h : Int)
    (hcl : ys.map (·.close) = ys'.map (·.close)) : numMoreBlocks e ys h = numMoreBlocks e ys' h := by
  unfold numMoreBlocks
  exact selectYear_congr e _ _ ys ys' 0 hcl

theorem numMoreBlocks_succ_of_not_last {e : Env} (ys : List Year) {k : Int} (hk : 1 ≤ k)
    (hc : 0 < e.o.cycle) (hl : lastInCycle e.o k = false) :
    numMoreBlocks e ys (k + 1) = numMoreBlocks e ys k := by
  unfold numMoreBlocks
  rw [spc_succ_of_not_last hk hc hl]

/-- what `selectYear` returns -/
theorem selectYear_spec (e : Env) (spc tEnd : Int) :
    ∀ (ys : List Year) (i : Nat),
      selectYear e spc tEnd ys i = (0, -1) ∨
      ∃ (j : Nat) (yr : Year), ys[j]? = some yr ∧
        selectYear e spc tEnd ys i = (e.fq ((yr.close - tEnd) * e.o.cycle) spc, ((i + j : Nat) : Int)) ∧
        e.fq ((yr.close - tEnd) * e.o.cycle) spc ≠ 0 ∧ e.o.window ≤ yr.close - tEnd
  | [], _ => Or.inl rfl
  | y :: ys, i => by
    unfold selectYear
    by_cases hw : y.close - tEnd ≥ e.o.window
    · by_cases hn : e.fq ((y.close - tEnd) * e.o.cycle) spc = 0
      · simp only [hw, hn, if_true]
        rcases selectYear_spec e spc tEnd ys (i + 1) with h | ⟨j, yr, h1, h2, h3, h4⟩
        · exact Or.inl h
        · refine Or.inr ⟨j + 1, yr, by simpa using h1, ?_, h3, h4⟩
          rw [h2]
          have : i + 1 + j = i + (j + 1) := by omega
          rw [this]
      · simp only [hw, hn, if_true, if_false]
        exact Or.inr ⟨0, y, rfl, rfl, hn, hw⟩
    · simp only [hw, if_false]
      rcases selectYear_spec e spc tEnd ys (i + 1) with h | ⟨j, yr, h1, h2, h3, h4⟩
      · exact Or.inl h
      · refine Or.inr ⟨j + 1, yr, by simpa using h1, ?_, h3, h4⟩
        rw [h2]
        have : i + 1 + j = i + (j + 1) := by omega
        rw [this]

theorem numMoreBlocks_spec (e : Env) (ys : List Year) (h : Int) :
    numMoreBlocks e ys h = (0, -1) ∨
    ∃ (j : Nat) (yr : Year), ys[j]? = some yr ∧
      (numMoreBlocks e ys h).1 =
        e.fq ((yr.close - (secondsPerCycleLatest e h).2) * e.o.cycle) (secondsPerCycleLatest e h).1 ∧
      (numMoreBlocks e ys h).2 = (j : Int) ∧ (numMoreBlocks e ys h).1 ≠ 0 ∧
      e.o.window ≤ yr.close - (secondsPerCycleLatest e h).2 := by
  unfold numMoreBlocks
  rcases selectYear_spec e (secondsPerCycleLatest e h).1 (secondsPerCycleLatest e h).2 ys 0 with
    h | ⟨j, yr, h1, h2, h3, h4⟩
  · exact Or.inl h
  · refine Or.inr ⟨j, yr, h1, ?_, ?_, ?_, h4⟩
    · simp only [h2]
    · simp only [h2, Nat.zero_add]
    · simp only [h2]; exact h3

theorem numMoreBlocks_snd_of_zero (e : Env) (ys : List Year) (h : Int)
    (hz : (numMoreBlocks e ys h).1 = 0) : (numMoreBlocks e ys h).2 = -1 := by
  rcases numMoreBlocks_spec e ys h with h0 | ⟨j, yr, _, _, _, h3, _⟩
  · rw [h0]
  · exact absurd hz h3

/-! ## one recalculation -/

/-- the cache argument of `recalc` only shows in the error result -/
theorem recalc_ok_cache_indep {e : Env} {ys : List Year} {c : Cache} (c2 : Cache) {h a : Int} {c' : Cache}
    (hr : recalc e ys c h = .ok a c') : recalc e ys c2 h = .ok a c' := by
  unfold recalc at hr ⊢
  simp only at hr ⊢
  split
  · rename_i hn
    simpa only [hn, if_true] using hr
  · rename_i hn
    simp only [hn, if_false] at hr
    split
    · rename_i supply yr hs hy
      simp only [hs, hy] at hr
      split
      · rename_i hl
        simp only [hl, if_true] at hr
        cases hr
      · rename_i hl
        simpa only [hl, if_false] using hr
    · rename_i hx
      split at hr
      · rename_i supply yr hs hy
        exact absurd hy (hx supply yr hs)
      · cases hr

/-- `recalc` reads the year records through their close times (the forecast) and
    `TillLastCycle` values only, and the height through the cycle -/
theorem recalc_congr {e : Env} {ys ys' : List Year} (c : Cache) {h h' : Int}
    (hn : numMoreBlocks e ys' h' = numMoreBlocks e ys h) (hcy : cycleNo e.o h' = cycleNo e.o h)
    (ht : ys'.map (·.till) = ys.map (·.till)) : recalc e ys' c h' = recalc e ys c h := by
  unfold recalc
  simp only [hn, hcy]
  have hi : (ys'[(numMoreBlocks e ys h).2.toNat]?).map (·.till) =
      (ys[(numMoreBlocks e ys h).2.toNat]?).map (·.till) := by
    rw [← List.getElem?_map, ← List.getElem?_map, ht]
  cases h1 : ys'[(numMoreBlocks e ys h).2.toNat]? with
  | none =>
    cases h2 : ys[(numMoreBlocks e ys h).2.toNat]? with
    | none => rfl
    | some yr => rw [h1, h2] at hi; simp at hi
  | some yr' =>
    cases h2 : ys[(numMoreBlocks e ys h).2.toNat]? with
    | none => rw [h1, h2] at hi; simp at hi
    | some yr =>
      rw [h1, h2] at hi
      simp only [Option.map_some, Option.some.injEq] at hi
      cases e.o.shares[(numMoreBlocks e ys h).2.toNat]? with
      | none => rfl
      | some sup => simp only [hi]

/-- a recalculation that is not burned out -/
theorem recalc_ok_not_burnedout {e : Env} {ys : List Year} {c c' : Cache} {h amt : Int}
    (hr : recalc e ys c h = .ok amt c') (hb : c'.burnedout = false) :
    (numMoreBlocks e ys h).1 ≠ 0 ∧
    ∃ (supply : Int) (yr : Year), e.o.shares[(numMoreBlocks e ys h).2.toNat]? = some supply ∧
      ys[(numMoreBlocks e ys h).2.toNat]? = some yr ∧ 0 ≤ supply - yr.till ∧
      amt = (supply - yr.till) / (numMoreBlocks e ys h).1 ∧
      c' = ⟨(numMoreBlocks e ys h).2, cycleNo e.o h, false, amt⟩ := by
  unfold recalc at hr
  simp only at hr
  split at hr
  · cases hr
    simp at hb
  · rename_i hn
    refine ⟨hn, ?_⟩
    split at hr
    · rename_i supply yr hs hy
      split at hr
      · cases hr
      · rename_i hl
        cases hr
        exact ⟨supply, yr, hs, hy, by omega, rfl, rfl⟩
    · cases hr

/-- a burned-out recalculation -/
theorem recalc_ok_burnedout {e : Env} {ys : List Year} {c c' : Cache} {h amt : Int}
    (hr : recalc e ys c h = .ok amt c') (hb : c'.burnedout = true) :
    (numMoreBlocks e ys h).1 = 0 ∧ amt = e.o.burnout ∧
      c' = ⟨(numMoreBlocks e ys h).2, cycleNo e.o h, true, e.o.burnout⟩ := by
  unfold recalc at hr
  simp only at hr
  split at hr
  · rename_i hn
    cases hr
    exact ⟨hn, rfl, rfl⟩
  · split at hr
    · split at hr
      · cases hr
      · cases hr
        simp at hb
    · cases hr

theorem recalc_of_zero {e : Env} {ys : List Year} {c : Cache} {h : Int}
    (hn : (numMoreBlocks e ys h).1 = 0) :
    recalc e ys c h = .ok e.o.burnout ⟨(numMoreBlocks e ys h).2, cycleNo e.o h, true, e.o.burnout⟩ := by
  unfold recalc
  simp only [hn, if_true]

/-- `pulled_le_year_left` with the hypotheses unfolded -/
theorem recalc_ok_spec (e : Env) (years : List Year) (c c' : Cache) (h amt : Int)
    (hfq : ∀ a b, 0 ≤ a → 0 < b → 0 ≤ e.fq a b)
    (hc : 0 < e.o.cycle) (hw : 0 ≤ e.o.window) (hs : 0 < (secondsPerCycleLatest e h).1)
    (hr : recalc e years c h = .ok amt c') (hb : c'.burnedout = false) :
    ∃ (y : Nat) (supply : Int) (yr : Year), c'.year = (y : Int) ∧ c'.amount = amt ∧
      (numMoreBlocks e years h).2 = (y : Int) ∧
      e.o.shares[y]? = some supply ∧ years[y]? = some yr ∧
      0 ≤ amt ∧ amt ≤ supply - yr.till ∧
      e.o.window ≤ yr.close - (secondsPerCycleLatest e h).2 := by
  obtain ⟨hn, supply, yr, hsup, hyr, hleft, hamt, hc'⟩ := recalc_ok_not_burnedout hr hb
  rcases numMoreBlocks_spec e years h with h0 | ⟨j, yr', h1, h2, h3, _, h5⟩
  · rw [h0] at hn
    exact absurd rfl hn
  · rw [h3, Int.toNat_natCast] at hsup hyr
    rw [h1] at hyr
    obtain rfl : yr' = yr := Option.some.inj hyr
    have hn0 : 0 ≤ (numMoreBlocks e years h).1 := by
      rw [h2]
      exact hfq _ _ (Int.mul_nonneg (by omega) (by omega)) hs
    refine ⟨j, supply, yr', ?_, ?_, h3, hsup, h1, ?_, ?_, h5⟩
    · rw [hc']; exact h3
    · rw [hc']
    · rw [hamt]; exact Int.ediv_nonneg hleft hn0
    · rw [hamt]; exact Int.ediv_le_self _ hleft

/-! ## `Calculate`, `PullRewards` -/

theorem calculate_fresh {e : Env} (ys : List Year) (h : Int) (hc : e.o.cycle ≠ 0) :
    calculate e ys Cache.fresh h = recalc e ys Cache.fresh h := by
  unfold calculate
  simp [hc, Cache.fresh]

/-- `calculate_keeps_cacheWF` with the hypotheses unfolded -/
theorem calculate_ok_spec (e : Env) (years : List Year) (c c' : Cache) (h amt : Int)
    (hw : c.burnedout = true → c.amount = e.o.burnout) (hr : calculate e years c h = .ok amt c') :
    (c'.burnedout = true → c'.amount = e.o.burnout) ∧ c'.amount = amt := by
  unfold calculate at hr
  split at hr
  · cases hr
  · split at hr
    · cases hr
      exact ⟨hw, rfl⟩
    · cases hb : c'.burnedout with
      | true =>
        obtain ⟨_, h2, h3⟩ := recalc_ok_burnedout hr hb
        rw [h3, h2]
        exact ⟨fun _ => rfl, rfl⟩
      | false =>
        obtain ⟨_, _, _, _, _, _, _, h3⟩ := recalc_ok_not_burnedout hr hb
        rw [h3]
        exact ⟨fun h => (by cases h), rfl⟩

/-- `burnout_capped_by_pool` with the hypotheses unfolded -/
theorem pullRewards_burnedout_spec (e : Env) (years : List Year) (c c' : Cache) (h pool amt : Int)
    (hw : c.burnedout = true → c.amount = e.o.burnout)
    (hp : pullRewards e years c h pool = .ok amt c') (hb : c'.burnedout = true) :
    amt ≤ pool ∧ amt ≤ e.o.burnout ∧ (amt = pool ∨ amt = e.o.burnout) := by
  unfold pullRewards at hp
  split at hp
  · cases hp
  · cases hp
  · rename_i a c'' hcalc
    obtain ⟨h1, h2⟩ := calculate_ok_spec e years c c'' h a hw hcalc
    split at hp
    · rename_i hlt
      injection hp with e1 e2
      subst e2
      have := h1 hb
      omega
    · rename_i hlt
      injection hp with e1 e2
      subst e2
      have := h1 hb
      have : ¬ pool < a := fun h => hlt ⟨hb, h⟩
      omega

/-! ## `ConsumeRewards` and the year records -/

theorem addYearDist_length (ys : List Year) (y : Nat) (x : Int) (l : Bool) :
    (addYearDist ys y x l).length = ys.length := by
  unfold addYearDist
  split
  · rfl
  · simp

theorem addYearDist_close (ys : List Year) (y : Nat) (x : Int) (l : Bool) :
    (addYearDist ys y x l).map (·.close) = ys.map (·.close) := by
  unfold addYearDist
  split
  · rfl
  · rename_i yr hy
    apply List.ext_getElem?
    intro i
    simp only [List.map_set, List.getElem?_set, List.getElem?_map, List.length_map]
    split
    · rename_i hi
      subst hi
      split
      · rw [hy]; rfl
      · rename_i hlt
        rw [List.getElem?_eq_none (by omega)]; rfl
    · rfl

theorem addYearDist_till (ys : List Year) (y : Nat) (x : Int) :
    (addYearDist ys y x false).map (·.till) = ys.map (·.till) := by
  unfold addYearDist
  split
  · rfl
  · rename_i yr hy
    apply List.ext_getElem?
    intro i
    simp only [List.map_set, List.getElem?_set, List.getElem?_map, List.length_map]
    split
    · rename_i hi
      subst hi
      split
      · rw [hy]; rfl
      · rename_i hlt
        rw [List.getElem?_eq_none (by omega)]; rfl
    · rfl

theorem addYearDist_getElem?_ne (ys : List Year) {y i : Nat} (x : Int) (l : Bool) (hne : y ≠ i) :
    (addYearDist ys y x l)[i]? = ys[i]? := by
  unfold addYearDist
  split
  · rfl
  · simp only [List.getElem?_set_ne hne]

theorem addYearDist_getElem?_self_last (ys : List Year) {y : Nat} (x : Int) (hy : y < ys.length) :
    ∃ yr, (addYearDist ys y x true)[y]? = some yr ∧ yr.till = yr.dist := by
  unfold addYearDist
  have : ys[y]? = some ys[y] := List.getElem?_eq_getElem hy
  rw [this]
  simp only [if_true]
  exact ⟨_, List.getElem?_set_self hy, rfl⟩

theorem consumeRewards_close {o : Opts} {ys ys' : List Year} {td td' : Int} {c : Cache} {h x : Int}
    (hcr : consumeRewards o ys td c h x = some (ys', td')) :
    ys'.map (·.close) = ys.map (·.close) := by
  unfold consumeRewards at hcr
  split at hcr
  · cases hcr; rfl
  · split at hcr
    · cases hcr
    · cases hcr
      exact addYearDist_close _ _ _ _

theorem consumeRewards_till {o : Opts} {ys ys' : List Year} {td td' : Int} {c : Cache} {h x : Int}
    (hcr : consumeRewards o ys td c h x = some (ys', td')) (hl : lastInCycle o h = false) :
    ys'.map (·.till) = ys.map (·.till) := by
  unfold consumeRewards at hcr
  split at hcr
  · cases hcr; rfl
  · split at hcr
    · cases hcr
    · cases hcr
      rw [hl]
      exact addYearDist_till _ _ _

/-! ## one block -/

/-- the three ways a block can end -/
theorem calcStep_cases (e : Env) (use : Int → Int → Int) (pool : Int → Int) (s : CS) (h : Int) (r : Bool) :
    ((calcStep e use pool s h r).2 = none ∧ (calcStep e use pool s h r).1.years = s.years ∧
      (calcStep e use pool s h r).1.tdist = s.tdist) ∨
    ∃ amt c ys td, pullRewards e s.years (if r then Cache.fresh else s.cache) h (pool h) = .ok amt c ∧
      consumeRewards e.o s.years s.tdist c h (use h amt) = some (ys, td) ∧
      calcStep e use pool s h r = (⟨ys, td, c⟩, some amt) := by
  unfold calcStep
  simp only
  split
  · exact Or.inl ⟨rfl, rfl, rfl⟩
  · exact Or.inl ⟨rfl, rfl, rfl⟩
  · rename_i amt c hp
    split
    · exact Or.inl ⟨rfl, rfl, rfl⟩
    · rename_i ys td hcr
      exact Or.inr ⟨amt, c, ys, td, hp, hcr, rfl⟩

/-- `till_changes_only_at_cycle_end` -/
theorem calcStep_till_close (e : Env) (use : Int → Int → Int) (pool : Int → Int)
    (s : CS) (h : Int) (r : Bool) (hl : lastInCycle e.o h = false) :
    (calcStep e use pool s h r).1.years.map (·.till) = s.years.map (·.till) ∧
    (calcStep e use pool s h r).1.years.map (·.close) = s.years.map (·.close) := by
  rcases calcStep_cases e use pool s h r with ⟨_, h2, _⟩ | ⟨amt, c, ys, td, _, hcr, hst⟩
  · rw [h2]; exact ⟨rfl, rfl⟩
  · rw [hst]
    exact ⟨consumeRewards_till hcr hl, consumeRewards_close hcr⟩

theorem calcStep_close (e : Env) (use : Int → Int → Int) (pool : Int → Int)
    (s : CS) (h : Int) (r : Bool) :
    (calcStep e use pool s h r).1.years.map (·.close) = s.years.map (·.close) := by
  rcases calcStep_cases e use pool s h r with ⟨_, h2, _⟩ | ⟨amt, c, ys, td, _, hcr, hst⟩
  · rw [h2]
  · rw [hst]
    exact consumeRewards_close hcr

/-- `till_eq_dist_at_cycle_end` -/
theorem calcStep_till_eq_dist (e : Env) (use : Int → Int → Int) (pool : Int → Int)
    (s : CS) (h amt : Int) (r : Bool) (hl : lastInCycle e.o h = true)
    (ho : (calcStep e use pool s h r).2 = some amt)
    (hb : (calcStep e use pool s h r).1.cache.burnedout = false) :
    ∃ (y : Nat) (yr : Year), (calcStep e use pool s h r).1.cache.year = (y : Int) ∧
      (calcStep e use pool s h r).1.years[y]? = some yr ∧ yr.till = yr.dist := by
  rcases calcStep_cases e use pool s h r with ⟨h1, _, _⟩ | ⟨a, c, ys, td, _, hcr, hst⟩
  · rw [h1] at ho; cases ho
  · rw [hst] at hb ⊢
    simp only at hb ⊢
    unfold consumeRewards at hcr
    rw [hb] at hcr
    simp only [Bool.false_eq_true, if_false] at hcr
    split at hcr
    · cases hcr
    · rename_i hy
      cases hcr
      have hy1 : 0 ≤ c.year := by omega
      have hy2 : c.year.toNat < s.years.length := by omega
      rw [hl]
      obtain ⟨yr, h1, h2⟩ := addYearDist_getElem?_self_last s.years (use h a) hy2
      exact ⟨c.year.toNat, yr, (Int.toNat_of_nonneg hy1).symm, h1, h2⟩

/-! ## restart independence: the simulation -/

theorem calculate_cached {e : Env} (ys : List Year) {c : Cache} {h : Int} (hc : e.o.cycle ≠ 0)
    (h1 : c.cycleNo > 0) (h2 : c.burnedout = true ∨ firstInCycle e.o h = false) :
    calculate e ys c h = .ok c.amount c := by
  unfold calculate
  rw [if_neg hc, if_pos ⟨h1, h2⟩]

theorem calculate_recalc {e : Env} (ys : List Year) {c : Cache} {h : Int} (hc : e.o.cycle ≠ 0)
    (h1 : ¬ (c.cycleNo > 0 ∧ (c.burnedout = true ∨ firstInCycle e.o h = false))) :
    calculate e ys c h = recalc e ys c h := by
  unfold calculate
  rw [if_neg hc, if_neg h1]

theorem pullRewards_ok_iff {e : Env} {ys : List Year} {c c' : Cache} {h pool amt : Int} :
    pullRewards e ys c h pool = .ok amt c' ↔
      ∃ a, calculate e ys c h = .ok a c' ∧ amt = if c'.burnedout = true ∧ pool < a then pool else a := by
  unfold pullRewards
  constructor
  · intro hp
    split at hp
    · cases hp
    · cases hp
    · rename_i a c'' hcalc
      split at hp
      · rename_i hlt
        injection hp with e1 e2
        subst e2
        exact ⟨a, hcalc, by rw [if_pos hlt]; exact e1.symm⟩
      · rename_i hlt
        injection hp with e1 e2
        subst e2
        exact ⟨a, hcalc, by rw [if_neg hlt]; exact e1.symm⟩
  · rintro ⟨a, hcalc, hamt⟩
    rw [hcalc]
    simp only
    split
    · rename_i hlt
      rw [if_pos hlt] at hamt
      rw [hamt]
    · rename_i hlt
      rw [if_neg hlt] at hamt
      rw [hamt]

theorem consumeRewards_cache_congr (o : Opts) (ys : List Year) (td : Int) {c c2 : Cache} (h x : Int)
    (hb : c.burnedout = c2.burnedout) (hy : c2.burnedout = false → c.year = c2.year) :
    consumeRewards o ys td c h x = consumeRewards o ys td c2 h x := by
  unfold consumeRewards
  rw [hb]
  cases hb2 : c2.burnedout with
  | true => rfl
  | false => rw [hy hb2]

theorem calcStep_of_ok {e : Env} {use : Int → Int → Int} {pool : Int → Int} {s : CS} {h : Int} {r : Bool}
    {amt : Int} {c : Cache} {ys : List Year} {td : Int}
    (hp : pullRewards e s.years (if r then Cache.fresh else s.cache) h (pool h) = .ok amt c)
    (hcr : consumeRewards e.o s.years s.tdist c h (use h amt) = some (ys, td)) :
    calcStep e use pool s h r = (⟨ys, td, c⟩, some amt) := by
  unfold calcStep
  simp only [hp, hcr]

/-- what the cache of a running node satisfies before block `k`: a burned-out cache holds the
    burnout rate and the forecast is 0 from `k` on; a live cache inside a cycle holds what a
    recalculation would give -/
def GoodCache (e : Env) (years : List Year) (k : Int) (c : Cache) (ys : List Year) : Prop :=
  c.cycleNo > 0 →
    (c.burnedout = true →
      c.amount = e.o.burnout ∧ ∀ k', k ≤ k' → (numMoreBlocks e years k').1 = 0) ∧
    (c.burnedout = false → firstInCycle e.o k = false →
      recalc e ys Cache.fresh k = .ok c.amount ⟨c.year, cycleNo e.o k, false, c.amount⟩)

theorem goodCache_fresh (e : Env) (years : List Year) (k : Int) (ys : List Year) :
    GoodCache e years k Cache.fresh ys := by
  intro h
  simp [Cache.fresh] at h

/-- inside a cycle the recalculation gives the same result in the next block -/
theorem recalc_next {e : Env} {ys ys' : List Year} {k a y : Int} (hk : 1 ≤ k) (hc : 0 < e.o.cycle)
    (hl : lastInCycle e.o k = false)
    (hcl : ys'.map (·.close) = ys.map (·.close)) (ht : ys'.map (·.till) = ys.map (·.till))
    (hr : recalc e ys Cache.fresh k = .ok a ⟨y, cycleNo e.o k, false, a⟩) :
    recalc e ys' Cache.fresh (k + 1) = .ok a ⟨y, cycleNo e.o (k + 1), false, a⟩ := by
  have hcy := cycleNo_succ_of_not_last hk hc hl
  have hn : numMoreBlocks e ys' (k + 1) = numMoreBlocks e ys k := by
    rw [numMoreBlocks_succ_of_not_last ys' hk hc hl]
    exact numMoreBlocks_congr e ys' ys k hcl
  rw [recalc_congr Cache.fresh hn hcy ht, hcy]
  exact hr

/-- `Calculate` on a running node against `Calculate` on a freshly started one -/
theorem calculate_sim (e : Env) (years : List Year) (h0 : Int)
    (hst : ∀ h1 h2, h0 ≤ h1 → h1 ≤ h2 → (numMoreBlocks e years h1).1 = 0 → (numMoreBlocks e years h2).1 = 0)
    (ys : List Year) (c : Cache) (k : Int) (r : Bool) (a : Int) (ci : Cache)
    (hk : 1 ≤ k) (hk0 : h0 ≤ k) (hc : 0 < e.o.cycle)
    (hcl : ys.map (·.close) = years.map (·.close))
    (hg : GoodCache e years k c ys)
    (hi : recalc e ys Cache.fresh k = .ok a ci) :
    ∃ c', calculate e ys (if r then Cache.fresh else c) k = .ok a c' ∧
      c'.burnedout = ci.burnedout ∧ (ci.burnedout = false → c'.year = ci.year) ∧
      ∀ ys' : List Year, ys'.map (·.close) = ys.map (·.close) →
        (lastInCycle e.o k = false → ys'.map (·.till) = ys.map (·.till)) →
        GoodCache e years (k + 1) c' ys' := by
  have hc0 : e.o.cycle ≠ 0 := by omega
  have hnum : ∀ k', numMoreBlocks e ys k' = numMoreBlocks e years k' :=
    fun k' => numMoreBlocks_congr e ys years k' hcl
  -- the recalculating case, common to `r = true`, an unusable cache and the first block of a cycle
  have hre : ∀ c0 : Cache, calculate e ys c0 k = recalc e ys c0 k →
      ∃ c', calculate e ys c0 k = .ok a c' ∧
        c'.burnedout = ci.burnedout ∧ (ci.burnedout = false → c'.year = ci.year) ∧
        ∀ ys' : List Year, ys'.map (·.close) = ys.map (·.close) →
          (lastInCycle e.o k = false → ys'.map (·.till) = ys.map (·.till)) →
          GoodCache e years (k + 1) c' ys' := by
    intro c0 hcalc
    refine ⟨ci, by rw [hcalc]; exact recalc_ok_cache_indep c0 hi, rfl, fun _ => rfl, ?_⟩
    intro ys' hcl' ht' _
    refine ⟨fun hb => ?_, fun hb hf => ?_⟩
    · obtain ⟨h1, h2, h3⟩ := recalc_ok_burnedout hi hb
      refine ⟨by rw [h3], fun k' hk' => ?_⟩
      rw [hnum] at h1
      exact hst k k' hk0 (by omega) h1
    · obtain ⟨_, _, _, _, _, _, _, h3⟩ := recalc_ok_not_burnedout hi hb
      rw [firstInCycle_succ] at hf
      rw [h3] at hi ⊢
      exact recalc_next hk hc hf hcl' (ht' hf) hi
  cases r with
  | true =>
    simp only [if_true]
    exact hre Cache.fresh (calculate_fresh ys k hc0)
  | false =>
    simp only [Bool.false_eq_true, if_false]
    by_cases hcond : c.cycleNo > 0 ∧ (c.burnedout = true ∨ firstInCycle e.o k = false)
    · obtain ⟨hpos, hor⟩ := hcond
      obtain ⟨hg1, hg2⟩ := hg hpos
      refine ⟨c, ?_, ?_, ?_, ?_⟩
      · rw [calculate_cached ys hc0 hpos hor]
        cases hb : c.burnedout with
        | true =>
          obtain ⟨h1, h2⟩ := hg1 hb
          have hz : (numMoreBlocks e ys k).1 = 0 := by rw [hnum]; exact h2 k (by omega)
          rw [recalc_of_zero hz] at hi
          injection hi with e1 e2
          rw [h1, e1]
        | false =>
          have hf : firstInCycle e.o k = false := by
            rcases hor with h | h
            · rw [hb] at h; cases h
            · exact h
          rw [hg2 hb hf] at hi
          injection hi with e1 e2
          rw [e1]
      · cases hb : c.burnedout with
        | true =>
          obtain ⟨h1, h2⟩ := hg1 hb
          have hz : (numMoreBlocks e ys k).1 = 0 := by rw [hnum]; exact h2 k (by omega)
          rw [recalc_of_zero hz] at hi
          injection hi with e1 e2
          rw [← e2]
        | false =>
          have hf : firstInCycle e.o k = false := by
            rcases hor with h | h
            · rw [hb] at h; cases h
            · exact h
          rw [hg2 hb hf] at hi
          injection hi with e1 e2
          rw [← e2]
      · intro hbi
        cases hb : c.burnedout with
        | true =>
          obtain ⟨h1, h2⟩ := hg1 hb
          have hz : (numMoreBlocks e ys k).1 = 0 := by rw [hnum]; exact h2 k (by omega)
          rw [recalc_of_zero hz] at hi
          injection hi with e1 e2
          rw [← e2] at hbi
          cases hbi
        | false =>
          have hf : firstInCycle e.o k = false := by
            rcases hor with h | h
            · rw [hb] at h; cases h
            · exact h
          rw [hg2 hb hf] at hi
          injection hi with e1 e2
          rw [← e2]
      · intro ys' hcl' ht' _
        refine ⟨fun hb => ?_, fun hb hf' => ?_⟩
        · obtain ⟨h1, h2⟩ := hg1 hb
          exact ⟨h1, fun k' hk' => h2 k' (by omega)⟩
        · have hf : firstInCycle e.o k = false := by
            rcases hor with h | h
            · rw [hb] at h; cases h
            · exact h
          rw [firstInCycle_succ] at hf'
          exact recalc_next hk hc hf' hcl' (ht' hf') (hg2 hb hf)
    · exact hre c (calculate_recalc ys hc0 hcond)

/-- one block of a running node against the same block of a node restarted before it -/
theorem calcStep_sim (e : Env) (use : Int → Int → Int) (pool : Int → Int) (years : List Year) (h0 : Int)
    (hst : ∀ h1 h2, h0 ≤ h1 → h1 ≤ h2 → (numMoreBlocks e years h1).1 = 0 → (numMoreBlocks e years h2).1 = 0)
    (s si : CS) (k : Int) (r : Bool) (hk : 1 ≤ k) (hk0 : h0 ≤ k) (hc : 0 < e.o.cycle)
    (hy : s.years = si.years) (ht : s.tdist = si.tdist)
    (hcl : s.years.map (·.close) = years.map (·.close))
    (hg : GoodCache e years k s.cache s.years)
    (hsome : (calcStep e use pool si k true).2.isSome = true) :
    (calcStep e use pool s k r).2 = (calcStep e use pool si k true).2 ∧
    (calcStep e use pool s k r).1.years = (calcStep e use pool si k true).1.years ∧
    (calcStep e use pool s k r).1.tdist = (calcStep e use pool si k true).1.tdist ∧
    GoodCache e years (k + 1) (calcStep e use pool s k r).1.cache (calcStep e use pool s k r).1.years := by
  rcases calcStep_cases e use pool si k true with ⟨h1, _, _⟩ | ⟨amt, ci, ys', td', hp, hcr, hstep⟩
  · rw [h1] at hsome; cases hsome
  · simp only [if_true] at hp
    obtain ⟨a, hcalc, hamt⟩ := pullRewards_ok_iff.1 hp
    rw [calculate_fresh _ _ (by omega), ← hy] at hcalc
    obtain ⟨c', hc1, hc2, hc3, hc4⟩ :=
      calculate_sim e years h0 hst s.years s.cache k r a ci hk hk0 hc hcl hg hcalc
    have hp' : pullRewards e s.years (if r then Cache.fresh else s.cache) k (pool k) = .ok amt c' :=
      pullRewards_ok_iff.2 ⟨a, hc1, by rw [hc2]; exact hamt⟩
    have hcr' : consumeRewards e.o s.years s.tdist c' k (use k amt) = some (ys', td') := by
      rw [consumeRewards_cache_congr e.o s.years s.tdist k (use k amt) hc2 hc3, hy, ht]
      exact hcr
    rw [calcStep_of_ok hp' hcr', hstep]
    refine ⟨rfl, rfl, rfl, ?_⟩
    exact hc4 ys' (consumeRewards_close hcr') (consumeRewards_till hcr')

theorem calcRun_cons (e : Env) (use : Int → Int → Int) (pool : Int → Int) (s : CS) (h : Int) (r : Bool)
    (rs : List Bool) :
    calcRun e use pool s h (r :: rs) =
      ((calcRun e use pool (calcStep e use pool s h r).1 (h + 1) rs).1,
        (calcStep e use pool s h r).2 :: (calcRun e use pool (calcStep e use pool s h r).1 (h + 1) rs).2) :=
  rfl

/-- the states before each block of a run (copy of `OLP.Props.C13.calcStates`) -/
def calcStatesL (e : Env) (use : Int → Int → Int) (pool : Int → Int) : CS → Int → List Bool → List CS
  | _, _, [] => []
  | s, h, r :: rs => s :: calcStatesL e use pool (calcStep e use pool s h r).1 (h + 1) rs

/-- a run with any restart pattern against the run restarted before every block -/
theorem calcRun_sim (e : Env) (use : Int → Int → Int) (pool : Int → Int) (years : List Year) (h0 : Int)
    (hst : ∀ h1 h2, h0 ≤ h1 → h1 ≤ h2 → (numMoreBlocks e years h1).1 = 0 → (numMoreBlocks e years h2).1 = 0)
    (hc : 0 < e.o.cycle) :
    ∀ (rs : List Bool) (s si : CS) (k : Int), 1 ≤ k → h0 ≤ k →
      s.years = si.years → s.tdist = si.tdist →
      s.years.map (·.close) = years.map (·.close) →
      GoodCache e years k s.cache s.years →
      (∀ x ∈ (calcRun e use pool si k (rs.map fun _ => true)).2, x.isSome = true) →
      (calcRun e use pool s k rs).2 = (calcRun e use pool si k (rs.map fun _ => true)).2 ∧
      (calcRun e use pool s k rs).1.years = (calcRun e use pool si k (rs.map fun _ => true)).1.years ∧
      (calcRun e use pool s k rs).1.tdist = (calcRun e use pool si k (rs.map fun _ => true)).1.tdist ∧
      (calcStatesL e use pool s k rs).map (·.years) =
        (calcStatesL e use pool si k (rs.map fun _ => true)).map (·.years)
  | [], s, si, k, _, _, hy, ht, _, _, _ => ⟨rfl, hy, ht, rfl⟩
  | r :: rs, s, si, k, hk, hk0, hy, ht, hcl, hg, hok => by
    simp only [List.map_cons, calcRun_cons] at hok ⊢
    have hsome : (calcStep e use pool si k true).2.isSome = true := hok _ (List.mem_cons_self ..)
    obtain ⟨h1, h2, h3, h4⟩ := calcStep_sim e use pool years h0 hst s si k r hk hk0 hc hy ht hcl hg hsome
    have hcl' : (calcStep e use pool s k r).1.years.map (·.close) = years.map (·.close) := by
      rw [calcStep_close]; exact hcl
    obtain ⟨i1, i2, i3, i4⟩ := calcRun_sim e use pool years h0 hst hc rs (calcStep e use pool s k r).1
      (calcStep e use pool si k true).1 (k + 1) (by omega) (by omega) h2 h3 hcl' h4
      (fun x hx => hok x (List.mem_cons_of_mem _ hx))
    refine ⟨by rw [h1, i1], i2, i3, ?_⟩
    simp only [calcStatesL, List.map_cons]
    rw [hy, i4]

/-! ## runs, block by block -/

theorem calcRun_out_getElem? (e : Env) (use : Int → Int → Int) (pool : Int → Int) :
    ∀ (rs : List Bool) (s : CS) (k : Int) (j : Nat) (out : Option Int),
      (calcRun e use pool s k rs).2[j]? = some out →
      ∃ sj r, (calcStatesL e use pool s k rs)[j]? = some sj ∧ rs[j]? = some r ∧
        out = (calcStep e use pool sj (k + (j : Int)) r).2
  | [], _, _, j, _, h => by simp [calcRun] at h
  | r :: rs, s, k, 0, out, h => by
    rw [calcRun_cons] at h
    simp only [List.getElem?_cons_zero, Option.some.injEq] at h
    refine ⟨s, r, rfl, rfl, ?_⟩
    rw [← h]
    simp
  | r :: rs, s, k, j + 1, out, h => by
    rw [calcRun_cons] at h
    simp only [List.getElem?_cons_succ] at h
    obtain ⟨sj, r', h1, h2, h3⟩ := calcRun_out_getElem? e use pool rs _ (k + 1) j out h
    have hk : k + 1 + (j : Int) = k + ((j + 1 : Nat) : Int) := by omega
    rw [hk] at h3
    exact ⟨sj, r', by simpa [calcStatesL] using h1, by simpa using h2, h3⟩

/-- an invariant of the steps that return an amount holds before every block of a run all of
    whose blocks return an amount -/
theorem calcRun_inv (e : Env) (use : Int → Int → Int) (pool : Int → Int) (P : Int → CS → Prop) :
    ∀ (rs : List Bool) (s : CS) (k : Int),
      (∀ k s r, r ∈ rs → P k s → (calcStep e use pool s k r).2.isSome = true →
        P (k + 1) (calcStep e use pool s k r).1) →
      P k s → (∀ x ∈ (calcRun e use pool s k rs).2, x.isSome = true) →
      ∀ (j : Nat) (sj : CS), (calcStatesL e use pool s k rs)[j]? = some sj → P (k + (j : Int)) sj
  | [], _, _, _, _, _, j, _, h => by simp [calcStatesL] at h
  | r :: rs, s, k, hstep, hp, hok, 0, sj, h => by
    simp only [calcStatesL, List.getElem?_cons_zero, Option.some.injEq] at h
    rw [← h]
    simpa using hp
  | r :: rs, s, k, hstep, hp, hok, j + 1, sj, h => by
    simp only [calcStatesL, List.getElem?_cons_succ] at h
    rw [calcRun_cons] at hok
    have hk : k + ((j + 1 : Nat) : Int) = k + 1 + (j : Int) := by omega
    rw [hk]
    exact calcRun_inv e use pool P rs _ (k + 1)
      (fun k s r' hr' => hstep k s r' (List.mem_cons_of_mem _ hr'))
      (hstep k s r (List.mem_cons_self ..) hp (hok _ (List.mem_cons_self ..)))
      (fun x hx => hok x (List.mem_cons_of_mem _ hx)) j sj h

theorem mem_map_true {rs : List Bool} {r : Bool} (h : r ∈ rs.map fun _ => true) : r = true := by
  obtain ⟨_, _, h2⟩ := List.mem_map.1 h
  exact h2.symm

/-- the close times never change -/
theorem calcStatesL_close (e : Env) (use : Int → Int → Int) (pool : Int → Int) (years : List Year) :
    ∀ (rs : List Bool) (s : CS) (k : Int), s.years.map (·.close) = years.map (·.close) →
      ∀ (j : Nat) (sj : CS), (calcStatesL e use pool s k rs)[j]? = some sj →
        sj.years.map (·.close) = years.map (·.close)
  | [], _, _, _, j, _, h => by simp [calcStatesL] at h
  | r :: rs, s, k, hcl, 0, sj, h => by
    simp only [calcStatesL, List.getElem?_cons_zero, Option.some.injEq] at h
    rw [← h]; exact hcl
  | r :: rs, s, k, hcl, j + 1, sj, h => by
    simp only [calcStatesL, List.getElem?_cons_succ] at h
    exact calcStatesL_close e use pool years rs _ (k + 1) (by rw [calcStep_close]; exact hcl) j sj h

/-- `TillLastCycle` does not move while no block is the last of its cycle -/
theorem calcStatesL_till_const0 (e : Env) (use : Int → Int → Int) (pool : Int → Int) :
    ∀ (rs : List Bool) (s : CS) (k : Int) (j : Nat) (sj : CS),
      (calcStatesL e use pool s k rs)[j]? = some sj →
      (∀ m : Nat, m < j → lastInCycle e.o (k + (m : Int)) = false) →
      sj.years.map (·.till) = s.years.map (·.till)
  | [], _, _, j, _, h, _ => by simp [calcStatesL] at h
  | r :: rs, s, k, 0, sj, h, _ => by
    simp only [calcStatesL, List.getElem?_cons_zero, Option.some.injEq] at h
    rw [← h]
  | r :: rs, s, k, j + 1, sj, h, hl => by
    simp only [calcStatesL, List.getElem?_cons_succ] at h
    rw [calcStatesL_till_const0 e use pool rs _ (k + 1) j sj h (fun m hm => by
      have := hl (m + 1) (by omega)
      have hk : k + ((m + 1 : Nat) : Int) = k + 1 + (m : Int) := by omega
      rw [hk] at this
      exact this)]
    have h0 := hl 0 (by omega)
    simp only [Int.natCast_zero, Int.add_zero] at h0
    exact (calcStep_till_close e use pool s k r h0).1

theorem calcStatesL_till_const (e : Env) (use : Int → Int → Int) (pool : Int → Int) :
    ∀ (rs : List Bool) (s : CS) (k : Int) (i j : Nat) (si sj : CS), i ≤ j →
      (calcStatesL e use pool s k rs)[i]? = some si →
      (calcStatesL e use pool s k rs)[j]? = some sj →
      (∀ m : Nat, i ≤ m → m < j → lastInCycle e.o (k + (m : Int)) = false) →
      sj.years.map (·.till) = si.years.map (·.till)
  | [], _, _, i, _, _, _, _, h, _, _ => by simp [calcStatesL] at h
  | r :: rs, s, k, 0, j, si, sj, _, hi, hj, hl => by
    simp only [calcStatesL, List.getElem?_cons_zero, Option.some.injEq] at hi
    rw [← hi]
    exact calcStatesL_till_const0 e use pool (r :: rs) s k j sj hj (fun m hm => hl m (by omega) hm)
  | r :: rs, s, k, i + 1, 0, _, _, hij, _, _, _ => by omega
  | r :: rs, s, k, i + 1, j + 1, si, sj, hij, hi, hj, hl => by
    simp only [calcStatesL, List.getElem?_cons_succ] at hi hj
    exact calcStatesL_till_const e use pool rs _ (k + 1) i j si sj (by omega) hi hj (fun m h1 h2 => by
      have := hl (m + 1) (by omega) (by omega)
      have hk : k + ((m + 1 : Nat) : Int) = k + 1 + (m : Int) := by omega
      rw [hk] at this
      exact this)

/-! ## the block of a node restarted before it -/

theorem calcStep_true_cases {e : Env} {use : Int → Int → Int} {pool : Int → Int} {s : CS} {k amt : Int}
    (hc : e.o.cycle ≠ 0) (ho : (calcStep e use pool s k true).2 = some amt) :
    ∃ a c ys' td', recalc e s.years Cache.fresh k = .ok a c ∧
      amt = (if c.burnedout = true ∧ pool k < a then pool k else a) ∧
      consumeRewards e.o s.years s.tdist c k (use k amt) = some (ys', td') ∧
      (calcStep e use pool s k true).1 = ⟨ys', td', c⟩ := by
  rcases calcStep_cases e use pool s k true with ⟨h1, _, _⟩ | ⟨amt', c, ys', td', hp, hcr, hstep⟩
  · rw [h1] at ho; cases ho
  · rw [hstep] at ho ⊢
    simp only [Option.some.injEq] at ho
    subst ho
    simp only [if_true] at hp
    obtain ⟨a, hcalc, hamt⟩ := pullRewards_ok_iff.1 hp
    rw [calculate_fresh _ _ hc] at hcalc
    exact ⟨a, c, ys', td', hcalc, hamt, hcr, rfl⟩

theorem calcStep_true_out_spec (e : Env) (use : Int → Int → Int) (pool : Int → Int) (years : List Year)
    (s : CS) (k amt : Int) (hfq : ∀ a b, 0 ≤ a → 0 < b → 0 ≤ e.fq a b)
    (hc : 0 < e.o.cycle) (hw : 0 ≤ e.o.window) (hs : 0 < (secondsPerCycleLatest e k).1)
    (hcl : s.years.map (·.close) = years.map (·.close))
    (ho : (calcStep e use pool s k true).2 = some amt)
    (hn : (numMoreBlocks e years k).1 ≠ 0) :
    ∃ (y : Nat) (supply : Int) (yr : Year), (numMoreBlocks e years k).2 = (y : Int) ∧
      e.o.shares[y]? = some supply ∧ s.years[y]? = some yr ∧ 0 ≤ amt ∧ amt ≤ supply - yr.till := by
  obtain ⟨a, c, ys', td', hr, hamt, _, _⟩ := calcStep_true_cases (by omega) ho
  have hnum := numMoreBlocks_congr e s.years years k hcl
  cases hb : c.burnedout with
  | true =>
    obtain ⟨h1, _, _⟩ := recalc_ok_burnedout hr hb
    rw [hnum] at h1
    exact absurd h1 hn
  | false =>
    have hamt' : amt = a := by
      rw [hamt, hb]
      simp
    obtain ⟨y, supply, yr, _, _, h3, h4, h5, h6, h7, _⟩ :=
      recalc_ok_spec e s.years Cache.fresh c k a hfq hc hw hs hr hb
    rw [hnum] at h3
    exact ⟨y, supply, yr, h3, h4, h5, by omega, by omega⟩

/-- every year record except the one the current cycle draws on has
    `TillLastCycle = Distributed`; in the first block of a cycle all have -/
def TillInv (e : Env) (years : List Year) (k : Int) (ys : List Year) : Prop :=
  ∀ (y : Nat) (yr : Year), ys[y]? = some yr →
    ((y : Int) ≠ (numMoreBlocks e years k).2 ∨ firstInCycle e.o k = true) → yr.till = yr.dist

theorem tillInv_step (e : Env) (use : Int → Int → Int) (pool : Int → Int) (years : List Year)
    (s : CS) (k : Int) (hk : 1 ≤ k) (hc : 0 < e.o.cycle)
    (hcl : s.years.map (·.close) = years.map (·.close)) (hinv : TillInv e years k s.years)
    (ho : (calcStep e use pool s k true).2.isSome = true) :
    TillInv e years (k + 1) (calcStep e use pool s k true).1.years := by
  obtain ⟨amt, ho'⟩ := Option.isSome_iff_exists.1 ho
  obtain ⟨a, c, ys', td', hr, _, hcr, hstep⟩ := calcStep_true_cases (by omega) ho'
  have hnum := numMoreBlocks_congr e s.years years k hcl
  rw [hstep]
  simp only
  unfold consumeRewards at hcr
  cases hb : c.burnedout with
  | true =>
    obtain ⟨h1, _, _⟩ := recalc_ok_burnedout hr hb
    rw [hnum] at h1
    have hsel := numMoreBlocks_snd_of_zero e years k h1
    simp only [hb, if_true, Option.some.injEq, Prod.mk.injEq] at hcr
    rw [← hcr.1]
    intro y yr hy _
    exact hinv y yr hy (Or.inl (by rw [hsel]; omega))
  | false =>
    obtain ⟨hn, _, _, _, _, _, _, hceq⟩ := recalc_ok_not_burnedout hr hb
    rcases numMoreBlocks_spec e s.years k with h0 | ⟨j, yrj, hj1, _, hj3, _, _⟩
    · rw [h0] at hn; exact absurd rfl hn
    · have hyear : c.year = (j : Int) := by rw [hceq]; exact hj3
      have hjlt : j < s.years.length := by
        rcases List.getElem?_eq_some_iff.1 hj1 with ⟨h, _⟩
        exact h
      rw [hnum] at hj3
      simp only [hb, Bool.false_eq_true, if_false, hyear, Int.toNat_natCast] at hcr
      split at hcr
      · cases hcr
      · simp only [Option.some.injEq, Prod.mk.injEq] at hcr
        rw [← hcr.1]
        intro y yr hy hor
        by_cases hyj : j = y
        · subst hyj
          cases hl : lastInCycle e.o k with
          | false =>
            rw [firstInCycle_succ, hl, numMoreBlocks_succ_of_not_last years hk hc hl, hj3] at hor
            rcases hor with h | h
            · exact absurd rfl h
            · cases h
          | true =>
            rw [hl] at hy
            obtain ⟨yr', h1, h2⟩ := addYearDist_getElem?_self_last s.years (use k amt) hjlt
            rw [h1] at hy
            cases hy
            exact h2
        · rw [addYearDist_getElem?_ne _ _ _ hyj] at hy
          refine hinv y yr hy (Or.inl ?_)
          rw [hj3]
          omega

/-! ## the schedule over whole runs -/

/-- block `j` of a run with any restart pattern, seen from the run restarted before every block -/
theorem calcRun_block_ideal (e : Env) (use : Int → Int → Int) (pool : Int → Int)
    (years : List Year) (tdist h : Int) (rs : List Bool) (hh : 1 ≤ h) (hc : 0 < e.o.cycle)
    (hst : ∀ h1 h2, h ≤ h1 → h1 ≤ h2 → (numMoreBlocks e years h1).1 = 0 → (numMoreBlocks e years h2).1 = 0)
    (hok : ∀ x ∈ (calcRun e use pool ⟨years, tdist, Cache.fresh⟩ h (rs.map fun _ => true)).2, x.isSome = true)
    (j : Nat) (amt : Int)
    (hj : (calcRun e use pool ⟨years, tdist, Cache.fresh⟩ h rs).2[j]? = some (some amt)) :
    ∃ sij, (calcStatesL e use pool ⟨years, tdist, Cache.fresh⟩ h (rs.map fun _ => true))[j]? = some sij ∧
      (calcStep e use pool sij (h + (j : Int)) true).2 = some amt ∧
      sij.years.map (·.close) = years.map (·.close) := by
  obtain ⟨h1, _, _, _⟩ := calcRun_sim e use pool years h hst hc rs ⟨years, tdist, Cache.fresh⟩
    ⟨years, tdist, Cache.fresh⟩ h hh (Int.le_refl h) rfl rfl rfl (goodCache_fresh e years h years) hok
  rw [h1] at hj
  obtain ⟨sij, r, hs1, hr1, hout⟩ := calcRun_out_getElem? e use pool _ _ _ _ _ hj
  have hr : r = true := mem_map_true (List.mem_of_getElem? hr1)
  subst hr
  exact ⟨sij, hs1, hout.symm, calcStatesL_close e use pool years _ _ h rfl j sij hs1⟩

/-- state `i` of a run with any restart pattern has the year records of state `i` of the run
    restarted before every block -/
theorem calcRun_state_ideal (e : Env) (use : Int → Int → Int) (pool : Int → Int)
    (years : List Year) (tdist h : Int) (rs : List Bool) (hh : 1 ≤ h) (hc : 0 < e.o.cycle)
    (hst : ∀ h1 h2, h ≤ h1 → h1 ≤ h2 → (numMoreBlocks e years h1).1 = 0 → (numMoreBlocks e years h2).1 = 0)
    (hok : ∀ x ∈ (calcRun e use pool ⟨years, tdist, Cache.fresh⟩ h (rs.map fun _ => true)).2, x.isSome = true)
    (i : Nat) (si : CS)
    (hs : (calcStatesL e use pool ⟨years, tdist, Cache.fresh⟩ h rs)[i]? = some si) :
    ∃ sii, (calcStatesL e use pool ⟨years, tdist, Cache.fresh⟩ h (rs.map fun _ => true))[i]? = some sii ∧
      sii.years = si.years := by
  obtain ⟨_, _, _, h4⟩ := calcRun_sim e use pool years h hst hc rs ⟨years, tdist, Cache.fresh⟩
    ⟨years, tdist, Cache.fresh⟩ h hh (Int.le_refl h) rfl rfl rfl (goodCache_fresh e years h years) hok
  have h5 := congrArg (fun l => l[i]?) h4
  simp only [List.getElem?_map, hs, Option.map_some] at h5
  cases hx : (calcStatesL e use pool ⟨years, tdist, Cache.fresh⟩ h (rs.map fun _ => true))[i]? with
  | none => rw [hx] at h5; simp at h5
  | some sii =>
    rw [hx] at h5
    simp only [Option.map_some, Option.some.injEq] at h5
    exact ⟨sii, rfl, h5.symm⟩

/-- `pulled_le_year_left_by_till_partial` with the hypotheses unfolded -/
theorem pulled_le_year_left_by_till_aux (e : Env) (use : Int → Int → Int) (pool : Int → Int)
    (years : List Year) (tdist h : Int) (rs : List Bool) (hh : 1 ≤ h)
    (hfq : ∀ a b, 0 ≤ a → 0 < b → 0 ≤ e.fq a b)
    (he : ∀ k, h ≤ k → 0 < e.o.cycle ∧ 0 ≤ e.o.window ∧ 0 < (secondsPerCycleLatest e k).1)
    (hst : ∀ h1 h2, h ≤ h1 → h1 ≤ h2 → (numMoreBlocks e years h1).1 = 0 → (numMoreBlocks e years h2).1 = 0)
    (hok : ∀ x ∈ (calcRun e use pool ⟨years, tdist, Cache.fresh⟩ h (rs.map fun _ => true)).2, x.isSome = true)
    (j : Nat) (amt : Int) (sj : CS)
    (hj : (calcRun e use pool ⟨years, tdist, Cache.fresh⟩ h rs).2[j]? = some (some amt))
    (hs : (calcStatesL e use pool ⟨years, tdist, Cache.fresh⟩ h rs)[j]? = some sj)
    (hn : (numMoreBlocks e years (h + (j : Int))).1 ≠ 0) :
    ∃ (y : Nat) (supply : Int) (yr : Year), (numMoreBlocks e years (h + (j : Int))).2 = (y : Int) ∧
      e.o.shares[y]? = some supply ∧ sj.years[y]? = some yr ∧ 0 ≤ amt ∧ amt ≤ supply - yr.till := by
  have hc := (he h (Int.le_refl h)).1
  obtain ⟨sij, hs1, hout, hcl⟩ := calcRun_block_ideal e use pool years tdist h rs hh hc hst hok j amt hj
  obtain ⟨sij', hs2, hy⟩ := calcRun_state_ideal e use pool years tdist h rs hh hc hst hok j sj hs
  rw [hs1] at hs2
  cases hs2
  obtain ⟨_, hw, hspc⟩ := he (h + (j : Int)) (by omega)
  rw [← hy]
  exact calcStep_true_out_spec e use pool years sij (h + (j : Int)) amt hfq hc hw hspc hcl hout hn

/-- `pulled_le_year_left_at_cycle_start_partial` with the hypotheses unfolded -/
theorem pulled_le_year_left_at_cycle_start_aux (e : Env) (use : Int → Int → Int) (pool : Int → Int)
    (years : List Year) (tdist h : Int) (rs : List Bool) (hh : 1 ≤ h)
    (hfq : ∀ a b, 0 ≤ a → 0 < b → 0 ≤ e.fq a b)
    (he : ∀ k, h ≤ k → 0 < e.o.cycle ∧ 0 ≤ e.o.window ∧ 0 < (secondsPerCycleLatest e k).1)
    (hst : ∀ h1 h2, h ≤ h1 → h1 ≤ h2 → (numMoreBlocks e years h1).1 = 0 → (numMoreBlocks e years h2).1 = 0)
    (hok : ∀ x ∈ (calcRun e use pool ⟨years, tdist, Cache.fresh⟩ h (rs.map fun _ => true)).2, x.isSome = true)
    (hclean : ∀ yr ∈ years, yr.till = yr.dist)
    (i j : Nat) (hij : i ≤ j) (amt : Int) (si : CS)
    (hi : firstInCycle e.o (h + (i : Int)) = true)
    (hcyc : cycleNo e.o (h + (i : Int)) = cycleNo e.o (h + (j : Int)))
    (hj : (calcRun e use pool ⟨years, tdist, Cache.fresh⟩ h rs).2[j]? = some (some amt))
    (hs : (calcStatesL e use pool ⟨years, tdist, Cache.fresh⟩ h rs)[i]? = some si)
    (hn : (numMoreBlocks e years (h + (j : Int))).1 ≠ 0) :
    ∃ (y : Nat) (supply : Int) (yr : Year), (numMoreBlocks e years (h + (j : Int))).2 = (y : Int) ∧
      e.o.shares[y]? = some supply ∧ si.years[y]? = some yr ∧ amt ≤ supply - yr.dist := by
  have hc := (he h (Int.le_refl h)).1
  obtain ⟨sij, hs1, hout, hcl⟩ := calcRun_block_ideal e use pool years tdist h rs hh hc hst hok j amt hj
  obtain ⟨sii, hs2, hy⟩ := calcRun_state_ideal e use pool years tdist h rs hh hc hst hok i si hs
  obtain ⟨_, hw, hspc⟩ := he (h + (j : Int)) (by omega)
  obtain ⟨y, supply, yr, h1, h2, h3, _, h5⟩ :=
    calcStep_true_out_spec e use pool years sij (h + (j : Int)) amt hfq hc hw hspc hcl hout hn
  -- `TillLastCycle` of every year is the same in states `i` and `j`
  have htill := calcStatesL_till_const e use pool _ _ h i j sii sij hij hs2 hs1 (fun m h1 h2 =>
    not_last_of_same_cycle (a := h + (i : Int)) (b := h + (j : Int)) (by omega) (by omega) (by omega)
      hc hcyc)
  -- in state `i` (first block of a cycle) every year has `TillLastCycle = Distributed`
  have hinv : 1 ≤ h + (i : Int) ∧ sii.years.map (·.close) = years.map (·.close) ∧
      TillInv e years (h + (i : Int)) sii.years :=
    calcRun_inv e use pool
      (fun k s => 1 ≤ k ∧ s.years.map (·.close) = years.map (·.close) ∧ TillInv e years k s.years)
      _ _ h
      (fun k s r hr hp ho => by
        have hr' : r = true := mem_map_true hr
        subst hr'
        exact ⟨by omega, by rw [calcStep_close]; exact hp.2.1,
          tillInv_step e use pool years s k hp.1 hc hp.2.1 hp.2.2 ho⟩)
      ⟨hh, rfl, fun y yr hy _ => hclean yr (List.mem_of_getElem? hy)⟩ hok i sii hs2
  have h6 := congrArg (fun l => l[y]?) htill
  simp only [List.getElem?_map, h3, Option.map_some] at h6
  cases hx : sii.years[y]? with
  | none => rw [hx] at h6; simp at h6
  | some yr2 =>
    rw [hx] at h6
    simp only [Option.map_some, Option.some.injEq] at h6
    have h7 := hinv.2.2 y yr2 hx (Or.inr hi)
    refine ⟨y, supply, yr2, h1, h2, by rw [← hy]; exact hx, ?_⟩
    omega

end OLP.Rewards

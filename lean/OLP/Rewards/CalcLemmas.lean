/-
  Layer D — helper lemmas for the reward calculator and its histories (C13).
-/
import OLP.Rewards.Model

namespace OLP.Rewards
open OLP

/-! ## height arithmetic -/

theorem ediv_pred_of_emod_ne {k c : Int} (hc : 0 < c) (hm : k % c ≠ 0) : (k - 1) / c = k / c := by
  have h := (Int.ediv_emod_unique (a := k) hc).1 ⟨rfl, rfl⟩
  exact ((Int.ediv_emod_unique (a := k - 1) (r := k % c - 1) (q := k / c) hc).2
    ⟨by omega, by omega, by omega⟩).1

theorem ediv_pred_of_emod_eq {k c : Int} (hc : 0 < c) (hm : k % c = 0) : k / c = (k - 1) / c + 1 := by
  have h := (Int.ediv_emod_unique (a := k) hc).1 ⟨rfl, rfl⟩
  have h2 : c * (k / c - 1) = c * (k / c) - c := by rw [Int.mul_sub, Int.mul_one]
  have := ((Int.ediv_emod_unique (a := k - 1) (r := c - 1) (q := k / c - 1) hc).2
    ⟨by omega, by omega, by omega⟩).1
  omega

theorem firstInCycle_succ (o : Opts) (k : Int) : firstInCycle o (k + 1) = lastInCycle o k := by
  unfold firstInCycle lastInCycle
  rw [Int.add_sub_cancel]

theorem lastInCycle_false_iff {o : Opts} {k : Int} (hk : 1 ≤ k) :
    lastInCycle o k = false ↔ k % o.cycle ≠ 0 := by
  unfold lastInCycle
  rw [Int.tmod_eq_emod_of_nonneg (by omega)]
  simp

theorem lastInCycle_true_iff {o : Opts} {k : Int} (hk : 1 ≤ k) :
    lastInCycle o k = true ↔ k % o.cycle = 0 := by
  unfold lastInCycle
  rw [Int.tmod_eq_emod_of_nonneg (by omega)]
  simp

theorem cycleNo_eq {o : Opts} {k : Int} (hk : 1 ≤ k) : cycleNo o k = (k - 1) / o.cycle + 1 := by
  unfold cycleNo
  rw [Int.tdiv_eq_ediv_of_nonneg (by omega)]

theorem cycleNo_pos {o : Opts} {k : Int} (hk : 1 ≤ k) (hc : 0 < o.cycle) : 0 < cycleNo o k := by
  rw [cycleNo_eq hk]
  have := Int.ediv_nonneg (a := k - 1) (b := o.cycle) (by omega) (by omega)
  omega

theorem cycleNo_mono {o : Opts} {a b : Int} (ha : 1 ≤ a) (hab : a ≤ b) (hc : 0 < o.cycle) :
    cycleNo o a ≤ cycleNo o b := by
  rw [cycleNo_eq ha, cycleNo_eq (by omega)]
  have := Int.ediv_le_ediv (a := a - 1) (b := b - 1) hc (by omega)
  omega

theorem cycleNo_succ_of_not_last {o : Opts} {k : Int} (hk : 1 ≤ k) (hc : 0 < o.cycle)
    (hl : lastInCycle o k = false) : cycleNo o (k + 1) = cycleNo o k := by
  rw [cycleNo_eq hk, cycleNo_eq (by omega), Int.add_sub_cancel]
  rw [ediv_pred_of_emod_ne hc ((lastInCycle_false_iff hk).1 hl)]

theorem cycleNo_succ_of_last {o : Opts} {k : Int} (hk : 1 ≤ k) (hc : 0 < o.cycle)
    (hl : lastInCycle o k = true) : cycleNo o (k + 1) = cycleNo o k + 1 := by
  rw [cycleNo_eq hk, cycleNo_eq (by omega), Int.add_sub_cancel]
  rw [ediv_pred_of_emod_eq hc ((lastInCycle_true_iff hk).1 hl)]

theorem spc_succ_of_not_last {e : Env} {k : Int} (hk : 1 ≤ k) (hc : 0 < e.o.cycle)
    (hl : lastInCycle e.o k = false) :
    secondsPerCycleLatest e (k + 1) = secondsPerCycleLatest e k := by
  have hm := (lastInCycle_false_iff hk).1 hl
  have hne : k ≠ e.o.cycle := by
    intro h
    apply hm
    rw [h]
    exact Int.emod_self
  unfold secondsPerCycleLatest
  have hd : (k + 1 - 1).tdiv e.o.cycle = (k - 1).tdiv e.o.cycle := by
    rw [Int.add_sub_cancel, Int.tdiv_eq_ediv_of_nonneg (by omega), Int.tdiv_eq_ediv_of_nonneg (by omega),
      ediv_pred_of_emod_ne hc hm]
  rw [hd]
  by_cases h1 : k > e.o.cycle
  · have h2 : k + 1 > e.o.cycle := by omega
    simp only [h1, h2, if_true]
  · have h2 : ¬ (k + 1 > e.o.cycle) := by omega
    simp only [h1, h2, if_false]

/-- within one cycle no block before the last one is last-in-cycle -/
theorem not_last_of_same_cycle {o : Opts} {a m b : Int} (ha : 1 ≤ a) (ham : a ≤ m) (hmb : m < b)
    (hc : 0 < o.cycle) (hcy : cycleNo o a = cycleNo o b) : lastInCycle o m = false := by
  cases hl : lastInCycle o m with
  | false => rfl
  | true =>
    have h1 := cycleNo_succ_of_last (by omega) hc hl
    have h2 := cycleNo_mono (o := o) ha ham hc
    have h3 := cycleNo_mono (o := o) (a := m + 1) (b := b) (by omega) (by omega) hc
    omega

/-! ## the forecast -/

/-- `selectYear` reads the year records only through their close times -/
theorem selectYear_congr (e : Env) (spc tEnd : Int) :
    ∀ (ys ys' : List Year) (i : Nat), ys.map (·.close) = ys'.map (·.close) →
      selectYear e spc tEnd ys i = selectYear e spc tEnd ys' i
  | [], [], _, _ => rfl
  | [], _ :: _, _, h => by simp at h
  | _ :: _, [], _, h => by simp at h
  | y :: ys, y' :: ys', i, h => by
    simp only [List.map_cons, List.cons.injEq] at h
    unfold selectYear
    rw [h.1, selectYear_congr e spc tEnd ys ys' (i + 1) h.2]

theorem numMoreBlocks_congr (e : Env) (ys ys' : List Year) (h : Int)
    (hcl : ys.map (·.close) = ys'.map (·.close)) : numMoreBlocks e ys h = numMoreBlocks e ys' h := by
  unfold numMoreBlocks
  exact selectYear_congr e _ _ ys ys' 0 hcl

theorem numMoreBlocks_succ_of_not_last {e : Env} (ys : List Year) {k : Int} (hk : 1 ≤ k)
    (hc : 0 < e.o.cycle) (hl : lastInCycle e.o k = false) :
    numMoreBlocks e ys (k + 1) = numMoreBlocks e ys k := by
  unfold numMoreBlocks
  rw [spc_succ_of_not_last hk hc hl]

/-- what `selectYear` returns: nothing when no year is open, else the first open year with a
    forecast of at least one cycle -/
theorem selectYear_spec (e : Env) (spc tEnd : Int) :
    ∀ (ys : List Year) (i : Nat),
      (selectYear e spc tEnd ys i = (0, -1) ∧ ∀ yr ∈ ys, yr.close - tEnd < e.o.window) ∨
      ∃ (j : Nat) (yr : Year), ys[j]? = some yr ∧
        (selectYear e spc tEnd ys i).2 = ((i + j : Nat) : Int) ∧
        e.o.cycle ≤ (selectYear e spc tEnd ys i).1 ∧ e.o.window ≤ yr.close - tEnd
  | [], _ => Or.inl ⟨rfl, fun _ h => by cases h⟩
  | y :: ys, i => by
    unfold selectYear
    by_cases hw : y.close - tEnd ≥ e.o.window
    · simp only [hw, if_true]
      refine Or.inr ⟨0, y, rfl, rfl, ?_, hw⟩
      split <;> omega
    · simp only [hw, if_false]
      rcases selectYear_spec e spc tEnd ys (i + 1) with ⟨h, hall⟩ | ⟨j, yr, h1, h2, h3, h4⟩
      · refine Or.inl ⟨h, fun yr hyr => ?_⟩
        rcases List.mem_cons.1 hyr with rfl | hm
        · omega
        · exact hall yr hm
      · refine Or.inr ⟨j + 1, yr, by simpa using h1, ?_, h3, h4⟩
        rw [h2]
        have : i + 1 + j = i + (j + 1) := by omega
        rw [this]

theorem numMoreBlocks_spec (e : Env) (ys : List Year) (h : Int) :
    (numMoreBlocks e ys h = (0, -1) ∧
      ∀ yr ∈ ys, yr.close - (secondsPerCycleLatest e h).2 < e.o.window) ∨
    ∃ (j : Nat) (yr : Year), ys[j]? = some yr ∧
      (numMoreBlocks e ys h).2 = (j : Int) ∧ e.o.cycle ≤ (numMoreBlocks e ys h).1 ∧
      e.o.window ≤ yr.close - (secondsPerCycleLatest e h).2 := by
  unfold numMoreBlocks
  rcases selectYear_spec e (secondsPerCycleLatest e h).1 (secondsPerCycleLatest e h).2 ys 0 with
    h | ⟨j, yr, h1, h2, h3, h4⟩
  · exact Or.inl h
  · refine Or.inr ⟨j, yr, h1, ?_, h3, h4⟩
    simp only [h2, Nat.zero_add]

theorem numMoreBlocks_snd_of_zero (e : Env) (ys : List Year) (h : Int) (hc : 0 < e.o.cycle)
    (hz : (numMoreBlocks e ys h).1 = 0) : (numMoreBlocks e ys h).2 = -1 := by
  rcases numMoreBlocks_spec e ys h with ⟨h0, _⟩ | ⟨j, yr, _, _, h3, _⟩
  · rw [h0]
  · omega

/-- `forecast_zero_iff_schedule_over` -/
theorem numMoreBlocks_zero_iff (e : Env) (years : List Year) (h : Int) (hc : 0 < e.o.cycle) :
    ((numMoreBlocks e years h).1 = 0 ↔
        ∀ yr ∈ years, yr.close - (secondsPerCycleLatest e h).2 < e.o.window) ∧
    ((numMoreBlocks e years h).1 ≠ 0 → e.o.cycle ≤ (numMoreBlocks e years h).1) := by
  rcases numMoreBlocks_spec e years h with ⟨h0, hall⟩ | ⟨j, yr, h1, _, h3, h4⟩
  · rw [h0]
    exact ⟨⟨fun _ => hall, fun _ => rfl⟩, fun h => absurd rfl h⟩
  · refine ⟨⟨fun hz => by omega, fun hall => ?_⟩, fun _ => h3⟩
    have := hall yr (List.mem_of_getElem? h1)
    omega

/-- the Euclidean quotient by a forecast of at least one cycle -/
theorem ediv_forecast_bounds {L n c : Int} (hc : 0 < c) (hn : c ≤ n) (hL : 0 ≤ L) :
    0 ≤ L / n ∧ L / n ≤ L ∧ c * (L / n) ≤ L := by
  have h0 : 0 ≤ L / n := Int.ediv_nonneg hL (by omega)
  refine ⟨h0, Int.ediv_le_self _ hL, ?_⟩
  have h1 : c * (L / n) ≤ n * (L / n) := Int.mul_le_mul_of_nonneg_right hn h0
  have h2 : n * (L / n) ≤ L := Int.mul_ediv_self_le (by omega)
  omega

/-! ## one recalculation -/

/-- the cache argument of `recalc` only shows in the error result -/
theorem recalc_ok_cache_indep {e : Env} {ys : List Year} {c : Cache} (c2 : Cache) {h a : Int} {c' : Cache}
    (hr : recalc e ys c h = .ok a c') : recalc e ys c2 h = .ok a c' := by
  unfold recalc at hr ⊢
  simp only at hr ⊢
  split
  · rename_i hn
    simpa only [hn, if_true] using hr
  · rename_i hn
    simp only [hn, if_false] at hr
    split
    · rename_i supply yr hs hy
      simp only [hs, hy] at hr
      split
      · rename_i hl
        simp only [hl, if_true] at hr
        cases hr
      · rename_i hl
        simpa only [hl, if_false] using hr
    · rename_i hx
      split at hr
      · rename_i supply yr hs hy
        exact absurd hy (hx supply yr hs)
      · cases hr

/-- `recalc` reads the year records through their close times (the forecast) and
    `TillLastCycle` values only, and the height through the cycle -/
theorem recalc_congr {e : Env} {ys ys' : List Year} (c : Cache) {h h' : Int}
    (hn : numMoreBlocks e ys' h' = numMoreBlocks e ys h) (hcy : cycleNo e.o h' = cycleNo e.o h)
    (ht : ys'.map (·.till) = ys.map (·.till)) : recalc e ys' c h' = recalc e ys c h := by
  unfold recalc
  simp only [hn, hcy]
  have hi : (ys'[(numMoreBlocks e ys h).2.toNat]?).map (·.till) =
      (ys[(numMoreBlocks e ys h).2.toNat]?).map (·.till) := by
    rw [← List.getElem?_map, ← List.getElem?_map, ht]
  cases h1 : ys'[(numMoreBlocks e ys h).2.toNat]? with
  | none =>
    cases h2 : ys[(numMoreBlocks e ys h).2.toNat]? with
    | none => rfl
    | some yr => rw [h1, h2] at hi; simp at hi
  | some yr' =>
    cases h2 : ys[(numMoreBlocks e ys h).2.toNat]? with
    | none => rw [h1, h2] at hi; simp at hi
    | some yr =>
      rw [h1, h2] at hi
      simp only [Option.map_some, Option.some.injEq] at hi
      cases e.o.shares[(numMoreBlocks e ys h).2.toNat]? with
      | none => rfl
      | some sup => simp only [hi]

/-- a recalculation that is not burned out -/
theorem recalc_ok_not_burnedout {e : Env} {ys : List Year} {c c' : Cache} {h amt : Int}
    (hr : recalc e ys c h = .ok amt c') (hb : c'.burnedout = false) :
    (numMoreBlocks e ys h).1 ≠ 0 ∧
    ∃ (supply : Int) (yr : Year), e.o.shares[(numMoreBlocks e ys h).2.toNat]? = some supply ∧
      ys[(numMoreBlocks e ys h).2.toNat]? = some yr ∧ 0 ≤ supply - yr.till ∧
      amt = (supply - yr.till) / (numMoreBlocks e ys h).1 ∧
      c' = ⟨(numMoreBlocks e ys h).2, cycleNo e.o h, false, amt⟩ := by
  unfold recalc at hr
  simp only at hr
  split at hr
  · cases hr
    simp at hb
  · rename_i hn
    refine ⟨hn, ?_⟩
    split at hr
    · rename_i supply yr hs hy
      split at hr
      · cases hr
      · rename_i hl
        cases hr
        exact ⟨supply, yr, hs, hy, by omega, rfl, rfl⟩
    · cases hr

/-- a burned-out recalculation -/
theorem recalc_ok_burnedout {e : Env} {ys : List Year} {c c' : Cache} {h amt : Int}
    (hr : recalc e ys c h = .ok amt c') (hb : c'.burnedout = true) :
    (numMoreBlocks e ys h).1 = 0 ∧ amt = e.o.burnout ∧
      c' = ⟨(numMoreBlocks e ys h).2, cycleNo e.o h, true, e.o.burnout⟩ := by
  unfold recalc at hr
  simp only at hr
  split at hr
  · rename_i hn
    cases hr
    exact ⟨hn, rfl, rfl⟩
  · split at hr
    · split at hr
      · cases hr
      · cases hr
        simp at hb
    · cases hr

theorem recalc_of_zero {e : Env} {ys : List Year} {c : Cache} {h : Int}
    (hn : (numMoreBlocks e ys h).1 = 0) :
    recalc e ys c h = .ok e.o.burnout ⟨(numMoreBlocks e ys h).2, cycleNo e.o h, true, e.o.burnout⟩ := by
  unfold recalc
  simp only [hn, if_true]

/-- `pulled_le_year_left` with the hypotheses unfolded -/
theorem recalc_ok_spec (e : Env) (years : List Year) (c c' : Cache) (h amt : Int)
    (hc : 0 < e.o.cycle)
    (hr : recalc e years c h = .ok amt c') (hb : c'.burnedout = false) :
    ∃ (y : Nat) (supply : Int) (yr : Year), c'.year = (y : Int) ∧ c'.amount = amt ∧
      (numMoreBlocks e years h).2 = (y : Int) ∧
      e.o.shares[y]? = some supply ∧ years[y]? = some yr ∧
      0 ≤ amt ∧ amt ≤ supply - yr.till ∧ e.o.cycle * amt ≤ supply - yr.till ∧
      e.o.window ≤ yr.close - (secondsPerCycleLatest e h).2 := by
  obtain ⟨hn, supply, yr, hsup, hyr, hleft, hamt, hc'⟩ := recalc_ok_not_burnedout hr hb
  rcases numMoreBlocks_spec e years h with ⟨h0, _⟩ | ⟨j, yr', h1, h3, h2, h5⟩
  · rw [h0] at hn
    exact absurd rfl hn
  · rw [h3, Int.toNat_natCast] at hsup hyr
    rw [h1] at hyr
    obtain rfl : yr' = yr := Option.some.inj hyr
    obtain ⟨b1, b2, b3⟩ := ediv_forecast_bounds hc h2 hleft
    refine ⟨j, supply, yr', ?_, ?_, h3, hsup, h1, ?_, ?_, ?_, h5⟩
    · rw [hc']; exact h3
    · rw [hc']
    · rw [hamt]; exact b1
    · rw [hamt]; exact b2
    · rw [hamt]; exact b3

/-- the `.ok` cache of a recalculation is the one of the current cycle and holds the amount -/
theorem recalc_ok_cache {e : Env} {ys : List Year} {c c' : Cache} {h amt : Int}
    (hr : recalc e ys c h = .ok amt c') : c'.cycleNo = cycleNo e.o h ∧ c'.amount = amt := by
  cases hb : c'.burnedout with
  | true =>
    obtain ⟨_, h2, h3⟩ := recalc_ok_burnedout hr hb
    rw [h3, h2]
    exact ⟨rfl, rfl⟩
  | false =>
    obtain ⟨_, _, _, _, _, _, _, h3⟩ := recalc_ok_not_burnedout hr hb
    rw [h3]
    exact ⟨rfl, rfl⟩

/-- the cache argument of `recalc` only shows in the error result -/
theorem recalc_cache_indep (e : Env) (ys : List Year) (c c2 : Cache) (h : Int) :
    (∀ a c', recalc e ys c h = .ok a c' → recalc e ys c2 h = .ok a c') ∧
    (recalc e ys c h = .crash → recalc e ys c2 h = .crash) ∧
    (∀ c', recalc e ys c h = .err c' → recalc e ys c2 h = .err c2) := by
  unfold recalc
  simp only
  by_cases hn : (numMoreBlocks e ys h).1 = 0
  · simp only [hn, if_true]
    exact ⟨fun a c' h => h, fun h => (by cases h), fun c' h => (by cases h)⟩
  · simp only [hn, if_false]
    cases e.o.shares[(numMoreBlocks e ys h).2.toNat]? with
    | none => exact ⟨fun a c' h => (by cases h), fun _ => rfl, fun c' h => (by cases h)⟩
    | some supply =>
      cases ys[(numMoreBlocks e ys h).2.toNat]? with
      | none => exact ⟨fun a c' h => (by cases h), fun _ => rfl, fun c' h => (by cases h)⟩
      | some yr =>
        simp only
        by_cases hl : supply - yr.till < 0
        · simp only [hl, if_true]
          exact ⟨fun a c' h => (by cases h), fun h => (by cases h), (by intros; trivial)⟩
        · simp only [hl, if_false]
          exact ⟨fun a c' h => h, fun h => (by cases h), fun c' h => (by cases h)⟩

/-! ## `Calculate`, `PullRewards` -/

theorem calculate_fresh {e : Env} (ys : List Year) (h : Int) (hc : e.o.cycle ≠ 0) :
    calculate e ys Cache.fresh h = recalc e ys Cache.fresh h := by
  unfold calculate
  simp [hc, Cache.fresh]

/-- `calculate_keeps_cacheWF` with the hypotheses unfolded -/
theorem calculate_ok_spec (e : Env) (years : List Year) (c c' : Cache) (h amt : Int)
    (hw : c.burnedout = true → c.amount = e.o.burnout) (hr : calculate e years c h = .ok amt c') :
    (c'.burnedout = true → c'.amount = e.o.burnout) ∧ c'.amount = amt := by
  unfold calculate at hr
  split at hr
  · cases hr
  · split at hr
    · cases hr
      exact ⟨hw, rfl⟩
    · cases hb : c'.burnedout with
      | true =>
        obtain ⟨_, h2, h3⟩ := recalc_ok_burnedout hr hb
        rw [h3, h2]
        exact ⟨fun _ => rfl, rfl⟩
      | false =>
        obtain ⟨_, _, _, _, _, _, _, h3⟩ := recalc_ok_not_burnedout hr hb
        rw [h3]
        exact ⟨fun h => (by cases h), rfl⟩

/-- `burnout_capped_by_pool` with the hypotheses unfolded -/
theorem pullRewards_burnedout_spec (e : Env) (years : List Year) (c c' : Cache) (h pool amt : Int)
    (hw : c.burnedout = true → c.amount = e.o.burnout)
    (hp : pullRewards e years c h pool = .ok amt c') (hb : c'.burnedout = true) :
    amt ≤ pool ∧ amt ≤ e.o.burnout ∧ (amt = pool ∨ amt = e.o.burnout) := by
  unfold pullRewards at hp
  split at hp
  · cases hp
  · cases hp
  · rename_i a c'' hcalc
    obtain ⟨h1, h2⟩ := calculate_ok_spec e years c c'' h a hw hcalc
    split at hp
    · rename_i hlt
      injection hp with e1 e2
      subst e2
      have := h1 hb
      omega
    · rename_i hlt
      injection hp with e1 e2
      subst e2
      have := h1 hb
      have : ¬ pool < a := fun h => hlt ⟨hb, h⟩
      omega

/-! ## `ConsumeRewards` and the year records -/

theorem addYearDist_length (ys : List Year) (y : Nat) (x : Int) (l : Bool) :
    (addYearDist ys y x l).length = ys.length := by
  unfold addYearDist
  split
  · rfl
  · simp

theorem addYearDist_close (ys : List Year) (y : Nat) (x : Int) (l : Bool) :
    (addYearDist ys y x l).map (·.close) = ys.map (·.close) := by
  unfold addYearDist
  split
  · rfl
  · rename_i yr hy
    apply List.ext_getElem?
    intro i
    simp only [List.map_set, List.getElem?_set, List.getElem?_map, List.length_map]
    split
    · rename_i hi
      subst hi
      split
      · rw [hy]; rfl
      · rename_i hlt
        rw [List.getElem?_eq_none (by omega)]; rfl
    · rfl

theorem addYearDist_till (ys : List Year) (y : Nat) (x : Int) :
    (addYearDist ys y x false).map (·.till) = ys.map (·.till) := by
  unfold addYearDist
  split
  · rfl
  · rename_i yr hy
    apply List.ext_getElem?
    intro i
    simp only [List.map_set, List.getElem?_set, List.getElem?_map, List.length_map]
    split
    · rename_i hi
      subst hi
      split
      · rw [hy]; rfl
      · rename_i hlt
        rw [List.getElem?_eq_none (by omega)]; rfl
    · rfl

theorem addYearDist_getElem?_ne (ys : List Year) {y i : Nat} (x : Int) (l : Bool) (hne : y ≠ i) :
    (addYearDist ys y x l)[i]? = ys[i]? := by
  unfold addYearDist
  split
  · rfl
  · simp only [List.getElem?_set_ne hne]

theorem addYearDist_getElem?_self_last (ys : List Year) {y : Nat} (x : Int) (hy : y < ys.length) :
    ∃ yr, (addYearDist ys y x true)[y]? = some yr ∧ yr.till = yr.dist := by
  unfold addYearDist
  have : ys[y]? = some ys[y] := List.getElem?_eq_getElem hy
  rw [this]
  simp only [if_true]
  exact ⟨_, List.getElem?_set_self hy, rfl⟩

theorem consumeRewards_close {o : Opts} {ys ys' : List Year} {td td' : Int} {c : Cache} {h x : Int}
    (hcr : consumeRewards o ys td c h x = some (ys', td')) :
    ys'.map (·.close) = ys.map (·.close) := by
  unfold consumeRewards at hcr
  split at hcr
  · cases hcr; rfl
  · split at hcr
    · cases hcr
    · cases hcr
      exact addYearDist_close _ _ _ _

theorem consumeRewards_till {o : Opts} {ys ys' : List Year} {td td' : Int} {c : Cache} {h x : Int}
    (hcr : consumeRewards o ys td c h x = some (ys', td')) (hl : lastInCycle o h = false) :
    ys'.map (·.till) = ys.map (·.till) := by
  unfold consumeRewards at hcr
  split at hcr
  · cases hcr; rfl
  · split at hcr
    · cases hcr
    · cases hcr
      rw [hl]
      exact addYearDist_till _ _ _

/-! ## one block -/

/-- the three ways a block can end -/
theorem calcStep_cases (e : Env) (use : Int → Int → Int) (pool : Int → Int) (s : CS) (h : Int) (r : Bool) :
    ((calcStep e use pool s h r).2 = none ∧ (calcStep e use pool s h r).1.years = s.years ∧
      (calcStep e use pool s h r).1.tdist = s.tdist) ∨
    ∃ amt c ys td, pullRewards e s.years (if r then Cache.fresh else s.cache) h (pool h) = .ok amt c ∧
      consumeRewards e.o s.years s.tdist c h (use h amt) = some (ys, td) ∧
      calcStep e use pool s h r = (⟨ys, td, c⟩, some amt) := by
  unfold calcStep
  simp only
  split
  · exact Or.inl ⟨rfl, rfl, rfl⟩
  · exact Or.inl ⟨rfl, rfl, rfl⟩
  · rename_i amt c hp
    split
    · exact Or.inl ⟨rfl, rfl, rfl⟩
    · rename_i ys td hcr
      exact Or.inr ⟨amt, c, ys, td, hp, hcr, rfl⟩

/-- `till_changes_only_at_cycle_end` -/
theorem calcStep_till_close (e : Env) (use : Int → Int → Int) (pool : Int → Int)
    (s : CS) (h : Int) (r : Bool) (hl : lastInCycle e.o h = false) :
    (calcStep e use pool s h r).1.years.map (·.till) = s.years.map (·.till) ∧
    (calcStep e use pool s h r).1.years.map (·.close) = s.years.map (·.close) := by
  rcases calcStep_cases e use pool s h r with ⟨_, h2, _⟩ | ⟨amt, c, ys, td, _, hcr, hst⟩
  · rw [h2]; exact ⟨rfl, rfl⟩
  · rw [hst]
    exact ⟨consumeRewards_till hcr hl, consumeRewards_close hcr⟩

theorem calcStep_close (e : Env) (use : Int → Int → Int) (pool : Int → Int)
    (s : CS) (h : Int) (r : Bool) :
    (calcStep e use pool s h r).1.years.map (·.close) = s.years.map (·.close) := by
  rcases calcStep_cases e use pool s h r with ⟨_, h2, _⟩ | ⟨amt, c, ys, td, _, hcr, hst⟩
  · rw [h2]
  · rw [hst]
    exact consumeRewards_close hcr

/-- `till_eq_dist_at_cycle_end` -/
theorem calcStep_till_eq_dist (e : Env) (use : Int → Int → Int) (pool : Int → Int)
    (s : CS) (h amt : Int) (r : Bool) (hl : lastInCycle e.o h = true)
    (ho : (calcStep e use pool s h r).2 = some amt)
    (hb : (calcStep e use pool s h r).1.cache.burnedout = false) :
    ∃ (y : Nat) (yr : Year), (calcStep e use pool s h r).1.cache.year = (y : Int) ∧
      (calcStep e use pool s h r).1.years[y]? = some yr ∧ yr.till = yr.dist := by
  rcases calcStep_cases e use pool s h r with ⟨h1, _, _⟩ | ⟨a, c, ys, td, _, hcr, hst⟩
  · rw [h1] at ho; cases ho
  · rw [hst] at hb ⊢
    simp only at hb ⊢
    unfold consumeRewards at hcr
    rw [hb] at hcr
    simp only [Bool.false_eq_true, if_false] at hcr
    split at hcr
    · cases hcr
    · rename_i hy
      cases hcr
      have hy1 : 0 ≤ c.year := by omega
      have hy2 : c.year.toNat < s.years.length := by omega
      rw [hl]
      obtain ⟨yr, h1, h2⟩ := addYearDist_getElem?_self_last s.years (use h a) hy2
      exact ⟨c.year.toNat, yr, (Int.toNat_of_nonneg hy1).symm, h1, h2⟩

/-! ## restart independence: the simulation -/

theorem calculate_cached {e : Env} (ys : List Year) {c : Cache} {h : Int} (hc : e.o.cycle ≠ 0)
    (h1 : c.cycleNo > 0) (h2 : c.cycleNo = cycleNo e.o h) :
    calculate e ys c h = .ok c.amount c := by
  unfold calculate
  rw [if_neg hc, if_pos ⟨h1, h2⟩]

theorem calculate_recalc {e : Env} (ys : List Year) {c : Cache} {h : Int} (hc : e.o.cycle ≠ 0)
    (h1 : ¬ (c.cycleNo > 0 ∧ c.cycleNo = cycleNo e.o h)) :
    calculate e ys c h = recalc e ys c h := by
  unfold calculate
  rw [if_neg hc, if_neg h1]

/-- a block in terms of the result of `Calculate` -/
theorem calcStep_of_calc_ok {e : Env} {use : Int → Int → Int} {pool : Int → Int} {s : CS} {h : Int}
    {r : Bool} {a : Int} {c : Cache}
    (hcalc : calculate e s.years (if r then Cache.fresh else s.cache) h = .ok a c) :
    calcStep e use pool s h r =
      match consumeRewards e.o s.years s.tdist c h
          (use h (if c.burnedout = true ∧ pool h < a then pool h else a)) with
      | none => ({ s with cache := c }, none)
      | some (ys, td) => (⟨ys, td, c⟩, some (if c.burnedout = true ∧ pool h < a then pool h else a)) := by
  unfold calcStep pullRewards
  simp only [hcalc]
  by_cases hlt : c.burnedout = true ∧ pool h < a
  · simp only [if_pos hlt]
    rfl
  · simp only [if_neg hlt]
    rfl

theorem calcStep_of_calc_err {e : Env} {use : Int → Int → Int} {pool : Int → Int} {s : CS} {h : Int}
    {r : Bool} {c : Cache}
    (hcalc : calculate e s.years (if r then Cache.fresh else s.cache) h = .err c) :
    calcStep e use pool s h r = ({ s with cache := c }, none) := by
  unfold calcStep pullRewards
  simp only [hcalc]

theorem calcStep_of_calc_crash {e : Env} {use : Int → Int → Int} {pool : Int → Int} {s : CS} {h : Int}
    {r : Bool}
    (hcalc : calculate e s.years (if r then Cache.fresh else s.cache) h = .crash) :
    calcStep e use pool s h r = ({ s with cache := if r then Cache.fresh else s.cache }, none) := by
  unfold calcStep pullRewards
  simp only [hcalc]

/-- what the cache of a running node satisfies before block `k`: it is not from a later cycle,
    and when it is from the current cycle it is what a recalculation would give -/
def GoodCache (e : Env) (k : Int) (c : Cache) (ys : List Year) : Prop :=
  c.cycleNo ≤ cycleNo e.o k ∧
    (c.cycleNo > 0 → c.cycleNo = cycleNo e.o k → recalc e ys Cache.fresh k = .ok c.amount c)

theorem goodCache_fresh (e : Env) (k : Int) (ys : List Year) (hk : 1 ≤ k) (hc : 0 < e.o.cycle) :
    GoodCache e k Cache.fresh ys := by
  have := cycleNo_pos (o := e.o) hk hc
  refine ⟨?_, fun h => ?_⟩
  · simp only [Cache.fresh]; omega
  · simp [Cache.fresh] at h

/-- inside a cycle the recalculation gives the same result in the next block -/
theorem recalc_next {e : Env} {ys ys' : List Year} {k : Int} (hk : 1 ≤ k) (hc : 0 < e.o.cycle)
    (hl : lastInCycle e.o k = false)
    (hcl : ys'.map (·.close) = ys.map (·.close)) (ht : ys'.map (·.till) = ys.map (·.till)) :
    recalc e ys' Cache.fresh (k + 1) = recalc e ys Cache.fresh k := by
  have hcy := cycleNo_succ_of_not_last hk hc hl
  have hn : numMoreBlocks e ys' (k + 1) = numMoreBlocks e ys k := by
    rw [numMoreBlocks_succ_of_not_last ys' hk hc hl]
    exact numMoreBlocks_congr e ys' ys k hcl
  exact recalc_congr Cache.fresh hn hcy ht

/-- the cache of a successful calculation in block `k` is good for block `k + 1` -/
theorem goodCache_next {e : Env} {ys ys' : List Year} {k : Int} {c : Cache} (hk : 1 ≤ k)
    (hc : 0 < e.o.cycle) (hcy : c.cycleNo = cycleNo e.o k)
    (hr : recalc e ys Cache.fresh k = .ok c.amount c)
    (hcl : ys'.map (·.close) = ys.map (·.close))
    (ht : lastInCycle e.o k = false → ys'.map (·.till) = ys.map (·.till)) :
    GoodCache e (k + 1) c ys' := by
  have hm := cycleNo_mono (o := e.o) hk (by omega : k ≤ k + 1) hc
  refine ⟨by omega, fun _ heq => ?_⟩
  cases hl : lastInCycle e.o k with
  | true =>
    have := cycleNo_succ_of_last hk hc hl
    omega
  | false =>
    rw [recalc_next hk hc hl hcl (ht hl)]
    exact hr

/-- a cache that `Calculate` did not use in block `k` is not from the cycle of block `k + 1` -/
theorem goodCache_stale {e : Env} {ys ys' : List Year} {k : Int} {c : Cache} (hk : 1 ≤ k)
    (hc : 0 < e.o.cycle) (hg : GoodCache e k c ys)
    (hno : ¬ (c.cycleNo > 0 ∧ c.cycleNo = cycleNo e.o k)) : GoodCache e (k + 1) c ys' := by
  have hm := cycleNo_mono (o := e.o) hk (by omega : k ≤ k + 1) hc
  have h1 := hg.1
  refine ⟨by omega, fun hpos heq => ?_⟩
  exact absurd ⟨hpos, by omega⟩ hno

/-- `Calculate` on a running node against the recalculation of a freshly started one -/
theorem calculate_sim (e : Env) (ys : List Year) (c : Cache) (k : Int) (hc : 0 < e.o.cycle)
    (hg : GoodCache e k c ys) :
    (∀ a ci, recalc e ys Cache.fresh k = .ok a ci → calculate e ys c k = .ok a ci) ∧
    (recalc e ys Cache.fresh k = .crash →
      calculate e ys c k = .crash ∧ ¬ (c.cycleNo > 0 ∧ c.cycleNo = cycleNo e.o k)) ∧
    (∀ ci, recalc e ys Cache.fresh k = .err ci →
      calculate e ys c k = .err c ∧ ¬ (c.cycleNo > 0 ∧ c.cycleNo = cycleNo e.o k)) := by
  have hc0 : e.o.cycle ≠ 0 := by omega
  by_cases hcond : c.cycleNo > 0 ∧ c.cycleNo = cycleNo e.o k
  · have hr := hg.2 hcond.1 hcond.2
    rw [calculate_cached ys hc0 hcond.1 hcond.2, hr]
    refine ⟨fun a ci h => h, fun h => (by cases h), fun ci h => (by cases h)⟩
  · rw [calculate_recalc ys hc0 hcond]
    obtain ⟨h1, h2, h3⟩ := recalc_cache_indep e ys Cache.fresh c k
    exact ⟨h1, fun h => ⟨h2 h, hcond⟩, fun ci h => ⟨h3 ci h, hcond⟩⟩

theorem calcRun_cons (e : Env) (use : Int → Int → Int) (pool : Int → Int) (s : CS) (h : Int) (r : Bool)
    (rs : List Bool) :
    calcRun e use pool s h (r :: rs) =
      ((calcRun e use pool (calcStep e use pool s h r).1 (h + 1) rs).1,
        (calcStep e use pool s h r).2 :: (calcRun e use pool (calcStep e use pool s h r).1 (h + 1) rs).2) :=
  rfl

/-- one block of a running node against the same block of a node restarted before it -/
theorem calcStep_sim (e : Env) (use : Int → Int → Int) (pool : Int → Int)
    (s si : CS) (k : Int) (r : Bool) (hk : 1 ≤ k) (hc : 0 < e.o.cycle)
    (hy : s.years = si.years) (ht : s.tdist = si.tdist)
    (hg : GoodCache e k s.cache s.years) :
    (calcStep e use pool s k r).2 = (calcStep e use pool si k true).2 ∧
    (calcStep e use pool s k r).1.years = (calcStep e use pool si k true).1.years ∧
    (calcStep e use pool s k r).1.tdist = (calcStep e use pool si k true).1.tdist ∧
    GoodCache e (k + 1) (calcStep e use pool s k r).1.cache (calcStep e use pool s k r).1.years := by
  have hc0 : e.o.cycle ≠ 0 := by omega
  have hg0 : GoodCache e k (if r then Cache.fresh else s.cache) s.years := by
    cases r with
    | true => exact goodCache_fresh e k s.years hk hc
    | false => exact hg
  obtain ⟨s1, s2, s3⟩ := calculate_sim e s.years _ k hc hg0
  have hideal : calculate e si.years (if true then Cache.fresh else si.cache) k =
      recalc e s.years Cache.fresh k := by
    rw [if_pos rfl, calculate_fresh _ _ hc0, hy]
  have hcl := calcStep_close e use pool s k r
  have htl := fun hl => (calcStep_till_close e use pool s k r hl).1
  cases hrec : recalc e s.years Cache.fresh k with
  | ok a ci =>
    rw [hrec] at hideal
    have hreal := s1 a ci hrec
    obtain ⟨g1, g2⟩ := recalc_ok_cache hrec
    have hgood : GoodCache e (k + 1) ci (calcStep e use pool s k r).1.years :=
      goodCache_next hk hc g1 (by rw [g2]; exact hrec) hcl htl
    rw [calcStep_of_calc_ok hreal] at hgood ⊢
    rw [calcStep_of_calc_ok hideal, ← hy, ← ht]
    generalize consumeRewards e.o s.years s.tdist ci k
        (use k (if ci.burnedout = true ∧ pool k < a then pool k else a)) = cr at hgood ⊢
    cases cr with
    | none => exact ⟨rfl, rfl, rfl, hgood⟩
    | some p => exact ⟨rfl, rfl, rfl, hgood⟩
  | err ci =>
    rw [hrec] at hideal
    obtain ⟨hreal, hno⟩ := s3 ci hrec
    rw [calcStep_of_calc_err hreal, calcStep_of_calc_err hideal]
    exact ⟨rfl, hy, ht, goodCache_stale hk hc hg0 hno⟩
  | crash =>
    rw [hrec] at hideal
    obtain ⟨hreal, hno⟩ := s2 hrec
    rw [calcStep_of_calc_crash hreal, calcStep_of_calc_crash hideal]
    exact ⟨rfl, hy, ht, goodCache_stale hk hc hg0 hno⟩

/-- the states before each block of a run (copy of `OLP.Props.C13Defs.calcStates`) -/
def calcStatesL (e : Env) (use : Int → Int → Int) (pool : Int → Int) : CS → Int → List Bool → List CS
  | _, _, [] => []
  | s, h, r :: rs => s :: calcStatesL e use pool (calcStep e use pool s h r).1 (h + 1) rs

/-- a run with any restart pattern against the run restarted before every block -/
theorem calcRun_sim (e : Env) (use : Int → Int → Int) (pool : Int → Int) (hc : 0 < e.o.cycle) :
    ∀ (rs : List Bool) (s si : CS) (k : Int), 1 ≤ k →
      s.years = si.years → s.tdist = si.tdist →
      GoodCache e k s.cache s.years →
      (calcRun e use pool s k rs).2 = (calcRun e use pool si k (rs.map fun _ => true)).2 ∧
      (calcRun e use pool s k rs).1.years = (calcRun e use pool si k (rs.map fun _ => true)).1.years ∧
      (calcRun e use pool s k rs).1.tdist = (calcRun e use pool si k (rs.map fun _ => true)).1.tdist ∧
      (calcStatesL e use pool s k rs).map (·.years) =
        (calcStatesL e use pool si k (rs.map fun _ => true)).map (·.years)
  | [], s, si, k, _, hy, ht, _ => ⟨rfl, hy, ht, rfl⟩
  | r :: rs, s, si, k, hk, hy, ht, hg => by
    simp only [List.map_cons, calcRun_cons]
    obtain ⟨h1, h2, h3, h4⟩ := calcStep_sim e use pool s si k r hk hc hy ht hg
    obtain ⟨i1, i2, i3, i4⟩ := calcRun_sim e use pool hc rs (calcStep e use pool s k r).1
      (calcStep e use pool si k true).1 (k + 1) (by omega) h2 h3 h4
    refine ⟨by rw [h1, i1], i2, i3, ?_⟩
    simp only [calcStatesL, List.map_cons]
    rw [hy, i4]

/-! ## runs, block by block -/

theorem calcRun_out_getElem? (e : Env) (use : Int → Int → Int) (pool : Int → Int) :
    ∀ (rs : List Bool) (s : CS) (k : Int) (j : Nat) (out : Option Int),
      (calcRun e use pool s k rs).2[j]? = some out →
      ∃ sj r, (calcStatesL e use pool s k rs)[j]? = some sj ∧ rs[j]? = some r ∧
        out = (calcStep e use pool sj (k + (j : Int)) r).2
  | [], _, _, j, _, h => by simp [calcRun] at h
  | r :: rs, s, k, 0, out, h => by
    rw [calcRun_cons] at h
    simp only [List.getElem?_cons_zero, Option.some.injEq] at h
    refine ⟨s, r, rfl, rfl, ?_⟩
    rw [← h]
    simp
  | r :: rs, s, k, j + 1, out, h => by
    rw [calcRun_cons] at h
    simp only [List.getElem?_cons_succ] at h
    obtain ⟨sj, r', h1, h2, h3⟩ := calcRun_out_getElem? e use pool rs _ (k + 1) j out h
    have hk : k + 1 + (j : Int) = k + ((j + 1 : Nat) : Int) := by omega
    rw [hk] at h3
    exact ⟨sj, r', by simpa [calcStatesL] using h1, by simpa using h2, h3⟩

/-- an invariant of the steps holds before every block of a run … -/
theorem calcRun_inv (e : Env) (use : Int → Int → Int) (pool : Int → Int) (P : Int → CS → Prop) :
    ∀ (rs : List Bool) (s : CS) (k : Int),
      (∀ k s r, r ∈ rs → P k s → P (k + 1) (calcStep e use pool s k r).1) →
      P k s →
      ∀ (j : Nat) (sj : CS), (calcStatesL e use pool s k rs)[j]? = some sj → P (k + (j : Int)) sj
  | [], _, _, _, _, j, _, h => by simp [calcStatesL] at h
  | r :: rs, s, k, hstep, hp, 0, sj, h => by
    simp only [calcStatesL, List.getElem?_cons_zero, Option.some.injEq] at h
    rw [← h]
    simpa using hp
  | r :: rs, s, k, hstep, hp, j + 1, sj, h => by
    simp only [calcStatesL, List.getElem?_cons_succ] at h
    have hk : k + ((j + 1 : Nat) : Int) = k + 1 + (j : Int) := by omega
    rw [hk]
    exact calcRun_inv e use pool P rs _ (k + 1)
      (fun k s r' hr' => hstep k s r' (List.mem_cons_of_mem _ hr'))
      (hstep k s r (List.mem_cons_self ..) hp) j sj h

/-- … and after its last block -/
theorem calcRun_inv_final (e : Env) (use : Int → Int → Int) (pool : Int → Int) (P : Int → CS → Prop) :
    ∀ (rs : List Bool) (s : CS) (k : Int),
      (∀ k s r, r ∈ rs → P k s → P (k + 1) (calcStep e use pool s k r).1) →
      P k s → P (k + (rs.length : Int)) (calcRun e use pool s k rs).1
  | [], s, k, _, hp => by simpa [calcRun] using hp
  | r :: rs, s, k, hstep, hp => by
    rw [calcRun_cons]
    have hk : k + (((r :: rs).length : Nat) : Int) = k + 1 + (rs.length : Int) := by
      simp only [List.length_cons]; omega
    rw [hk]
    exact calcRun_inv_final e use pool P rs _ (k + 1)
      (fun k s r' hr' => hstep k s r' (List.mem_cons_of_mem _ hr'))
      (hstep k s r (List.mem_cons_self ..) hp)

theorem mem_map_true {rs : List Bool} {r : Bool} (h : r ∈ rs.map fun _ => true) : r = true := by
  obtain ⟨_, _, h2⟩ := List.mem_map.1 h
  exact h2.symm

/-- the close times never change -/
theorem calcStatesL_close (e : Env) (use : Int → Int → Int) (pool : Int → Int) (years : List Year) :
    ∀ (rs : List Bool) (s : CS) (k : Int), s.years.map (·.close) = years.map (·.close) →
      ∀ (j : Nat) (sj : CS), (calcStatesL e use pool s k rs)[j]? = some sj →
        sj.years.map (·.close) = years.map (·.close)
  | [], _, _, _, j, _, h => by simp [calcStatesL] at h
  | r :: rs, s, k, hcl, 0, sj, h => by
    simp only [calcStatesL, List.getElem?_cons_zero, Option.some.injEq] at h
    rw [← h]; exact hcl
  | r :: rs, s, k, hcl, j + 1, sj, h => by
    simp only [calcStatesL, List.getElem?_cons_succ] at h
    exact calcStatesL_close e use pool years rs _ (k + 1) (by rw [calcStep_close]; exact hcl) j sj h

/-- `TillLastCycle` does not move while no block is the last of its cycle -/
theorem calcStatesL_till_const0 (e : Env) (use : Int → Int → Int) (pool : Int → Int) :
    ∀ (rs : List Bool) (s : CS) (k : Int) (j : Nat) (sj : CS),
      (calcStatesL e use pool s k rs)[j]? = some sj →
      (∀ m : Nat, m < j → lastInCycle e.o (k + (m : Int)) = false) →
      sj.years.map (·.till) = s.years.map (·.till)
  | [], _, _, j, _, h, _ => by simp [calcStatesL] at h
  | r :: rs, s, k, 0, sj, h, _ => by
    simp only [calcStatesL, List.getElem?_cons_zero, Option.some.injEq] at h
    rw [← h]
  | r :: rs, s, k, j + 1, sj, h, hl => by
    simp only [calcStatesL, List.getElem?_cons_succ] at h
    rw [calcStatesL_till_const0 e use pool rs _ (k + 1) j sj h (fun m hm => by
      have := hl (m + 1) (by omega)
      have hk : k + ((m + 1 : Nat) : Int) = k + 1 + (m : Int) := by omega
      rw [hk] at this
      exact this)]
    have h0 := hl 0 (by omega)
    simp only [Int.natCast_zero, Int.add_zero] at h0
    exact (calcStep_till_close e use pool s k r h0).1

theorem calcStatesL_till_const (e : Env) (use : Int → Int → Int) (pool : Int → Int) :
    ∀ (rs : List Bool) (s : CS) (k : Int) (i j : Nat) (si sj : CS), i ≤ j →
      (calcStatesL e use pool s k rs)[i]? = some si →
      (calcStatesL e use pool s k rs)[j]? = some sj →
      (∀ m : Nat, i ≤ m → m < j → lastInCycle e.o (k + (m : Int)) = false) →
      sj.years.map (·.till) = si.years.map (·.till)
  | [], _, _, i, _, _, _, _, h, _, _ => by simp [calcStatesL] at h
  | r :: rs, s, k, 0, j, si, sj, _, hi, hj, hl => by
    simp only [calcStatesL, List.getElem?_cons_zero, Option.some.injEq] at hi
    rw [← hi]
    exact calcStatesL_till_const0 e use pool (r :: rs) s k j sj hj (fun m hm => hl m (by omega) hm)
  | r :: rs, s, k, i + 1, 0, _, _, hij, _, _, _ => by omega
  | r :: rs, s, k, i + 1, j + 1, si, sj, hij, hi, hj, hl => by
    simp only [calcStatesL, List.getElem?_cons_succ] at hi hj
    exact calcStatesL_till_const e use pool rs _ (k + 1) i j si sj (by omega) hi hj (fun m h1 h2 => by
      have := hl (m + 1) (by omega) (by omega)
      have hk : k + ((m + 1 : Nat) : Int) = k + 1 + (m : Int) := by omega
      rw [hk] at this
      exact this)

/-! ## the block of a node restarted before it -/

/-- what a block of the always-restarted node does to the year records: a recalculation that is
    not burned out adds the consumed amount to its year; every other block leaves them alone -/
theorem calcStep_true_years (e : Env) (use : Int → Int → Int) (pool : Int → Int) (s : CS) (k : Int)
    (hc : 0 < e.o.cycle) :
    (∃ (a : Int) (c : Cache) (y : Nat) (supply : Int) (yr : Year),
      recalc e s.years Cache.fresh k = .ok a c ∧ c.burnedout = false ∧ c.year = (y : Int) ∧
      (numMoreBlocks e s.years k).2 = (y : Int) ∧
      e.o.shares[y]? = some supply ∧ s.years[y]? = some yr ∧
      0 ≤ a ∧ a ≤ supply - yr.till ∧ e.o.cycle * a ≤ supply - yr.till ∧
      (calcStep e use pool s k true).2 = some a ∧
      (calcStep e use pool s k true).1.years =
        addYearDist s.years y (use k a) (lastInCycle e.o k)) ∨
    ((calcStep e use pool s k true).1.years = s.years ∧
      ∀ a c, recalc e s.years Cache.fresh k = .ok a c →
        c.burnedout = true ∧ (calcStep e use pool s k true).2.isSome = true) := by
  have hc0 : e.o.cycle ≠ 0 := by omega
  have hcalc : calculate e s.years (if true then Cache.fresh else s.cache) k =
      recalc e s.years Cache.fresh k := by
    rw [if_pos rfl, calculate_fresh _ _ hc0]
  cases hrec : recalc e s.years Cache.fresh k with
  | ok a c =>
    rw [hrec] at hcalc
    rw [calcStep_of_calc_ok hcalc]
    cases hb : c.burnedout with
    | true =>
      refine Or.inr ?_
      unfold consumeRewards
      simp only [hb, if_true]
      refine ⟨trivial, fun a' c' h => ?_⟩
      injection h with _ h2
      rw [← h2]
      exact ⟨hb, rfl⟩
    | false =>
      refine Or.inl ?_
      obtain ⟨y, supply, yr, h1, _, h3, h4, h5, h6, h7, h8, _⟩ :=
        recalc_ok_spec e s.years Cache.fresh c k a hc hrec hb
      have hlt : y < s.years.length := (List.getElem?_eq_some_iff.1 h5).1
      have hno : ¬ ((y : Int) < 0 ∨ s.years.length ≤ y) := by omega
      refine ⟨a, c, y, supply, yr, rfl, hb, h1, h3, h4, h5, h6, h7, h8, ?_⟩
      unfold consumeRewards
      simp only [hb, Bool.false_eq_true, false_and, if_false, h1, Int.toNat_natCast, hno]
      exact ⟨trivial, trivial⟩
  | err c =>
    rw [hrec] at hcalc
    rw [calcStep_of_calc_err hcalc]
    exact Or.inr ⟨rfl, fun a c h => by cases h⟩
  | crash =>
    rw [hrec] at hcalc
    rw [calcStep_of_calc_crash hcalc]
    exact Or.inr ⟨rfl, fun a c h => by cases h⟩

/-- the amount pulled by a block of the always-restarted node whose forecast is not 0 -/
theorem calcStep_true_out_spec (e : Env) (use : Int → Int → Int) (pool : Int → Int) (years : List Year)
    (s : CS) (k amt : Int) (hc : 0 < e.o.cycle)
    (hcl : s.years.map (·.close) = years.map (·.close))
    (ho : (calcStep e use pool s k true).2 = some amt)
    (hn : (numMoreBlocks e years k).1 ≠ 0) :
    ∃ (y : Nat) (supply : Int) (yr : Year), (numMoreBlocks e years k).2 = (y : Int) ∧
      e.o.shares[y]? = some supply ∧ s.years[y]? = some yr ∧ 0 ≤ amt ∧ amt ≤ supply - yr.till := by
  have hnum := numMoreBlocks_congr e s.years years k hcl
  rcases calcStep_true_years e use pool s k hc with
    ⟨a, c, y, supply, yr, _, _, _, h3, h4, h5, h6, h7, _, h9, _⟩ | ⟨_, hbo⟩
  · rw [h9] at ho
    injection ho with ho
    subst ho
    rw [hnum] at h3
    exact ⟨y, supply, yr, h3, h4, h5, h6, h7⟩
  · exfalso
    cases hrec : recalc e s.years Cache.fresh k with
    | ok a c =>
      obtain ⟨h1, _, _⟩ := recalc_ok_burnedout hrec (hbo a c hrec).1
      rw [hnum] at h1
      exact hn h1
    | err c =>
      have hcalc : calculate e s.years (if true then Cache.fresh else s.cache) k = .err c := by
        rw [if_pos rfl, calculate_fresh _ _ (by omega), hrec]
      rw [calcStep_of_calc_err hcalc] at ho
      cases ho
    | crash =>
      have hcalc : calculate e s.years (if true then Cache.fresh else s.cache) k = .crash := by
        rw [if_pos rfl, calculate_fresh _ _ (by omega), hrec]
      rw [calcStep_of_calc_crash hcalc] at ho
      cases ho

/-- every year record has `TillLastCycle = Distributed`, except — after the first block of a
    cycle — the year the current cycle successfully draws on -/
def TillInv (e : Env) (k : Int) (ys : List Year) : Prop :=
  ∀ (y : Nat) (yr : Year), ys[y]? = some yr →
    yr.till = yr.dist ∨
    (firstInCycle e.o k = false ∧
      ∃ a c, recalc e ys Cache.fresh k = .ok a c ∧ c.burnedout = false ∧ c.year = (y : Int))

theorem tillInv_step (e : Env) (use : Int → Int → Int) (pool : Int → Int)
    (s : CS) (k : Int) (hk : 1 ≤ k) (hc : 0 < e.o.cycle) (hinv : TillInv e k s.years) :
    TillInv e (k + 1) (calcStep e use pool s k true).1.years := by
  have hcl := calcStep_close e use pool s k true
  have htl := fun hl => (calcStep_till_close e use pool s k true hl).1
  rcases calcStep_true_years e use pool s k hc with
    ⟨a, c, y0, supply, yr0, hrec, hb, hcy, _, _, hy0, _, _, _, _, hys⟩ | ⟨hys, hbo⟩
  · have hlt : y0 < s.years.length := (List.getElem?_eq_some_iff.1 hy0).1
    intro y yr hy
    by_cases hyy : y0 = y
    · subst hyy
      cases hl : lastInCycle e.o k with
      | true =>
        rw [hys, hl] at hy
        obtain ⟨yr', h1, h2⟩ := addYearDist_getElem?_self_last s.years (use k a) hlt
        rw [h1] at hy
        cases hy
        exact Or.inl h2
      | false =>
        refine Or.inr ⟨by rw [firstInCycle_succ]; exact hl, a, c, ?_, hb, hcy⟩
        rw [recalc_next hk hc hl hcl (htl hl)]
        exact hrec
    · rw [hys, addYearDist_getElem?_ne _ _ _ hyy] at hy
      rcases hinv y yr hy with h | ⟨_, a', c', h1, _, h3⟩
      · exact Or.inl h
      · rw [hrec] at h1
        injection h1 with _ h1
        rw [← h1, hcy] at h3
        omega
  · intro y yr hy
    rw [hys] at hy
    rcases hinv y yr hy with h | ⟨_, a', c', h1, h2, _⟩
    · exact Or.inl h
    · have := (hbo a' c' h1).1
      rw [h2] at this
      cases this

/-! ## the schedule over whole runs -/

/-- block `j` of a run with any restart pattern, seen from the run restarted before every block -/
theorem calcRun_block_ideal (e : Env) (use : Int → Int → Int) (pool : Int → Int)
    (years : List Year) (tdist h : Int) (rs : List Bool) (hh : 1 ≤ h) (hc : 0 < e.o.cycle)
    (j : Nat) (out : Option Int)
    (hj : (calcRun e use pool ⟨years, tdist, Cache.fresh⟩ h rs).2[j]? = some out) :
    ∃ sij, (calcStatesL e use pool ⟨years, tdist, Cache.fresh⟩ h (rs.map fun _ => true))[j]? = some sij ∧
      (calcStep e use pool sij (h + (j : Int)) true).2 = out ∧
      sij.years.map (·.close) = years.map (·.close) := by
  obtain ⟨h1, _, _, _⟩ := calcRun_sim e use pool hc rs ⟨years, tdist, Cache.fresh⟩
    ⟨years, tdist, Cache.fresh⟩ h hh rfl rfl (goodCache_fresh e h years hh hc)
  rw [h1] at hj
  obtain ⟨sij, r, hs1, hr1, hout⟩ := calcRun_out_getElem? e use pool _ _ _ _ _ hj
  have hr : r = true := mem_map_true (List.mem_of_getElem? hr1)
  subst hr
  exact ⟨sij, hs1, hout.symm, calcStatesL_close e use pool years _ _ h rfl j sij hs1⟩

/-- state `i` of a run with any restart pattern has the year records of state `i` of the run
    restarted before every block -/
theorem calcRun_state_ideal (e : Env) (use : Int → Int → Int) (pool : Int → Int)
    (years : List Year) (tdist h : Int) (rs : List Bool) (hh : 1 ≤ h) (hc : 0 < e.o.cycle)
    (i : Nat) (si : CS)
    (hs : (calcStatesL e use pool ⟨years, tdist, Cache.fresh⟩ h rs)[i]? = some si) :
    ∃ sii, (calcStatesL e use pool ⟨years, tdist, Cache.fresh⟩ h (rs.map fun _ => true))[i]? = some sii ∧
      sii.years = si.years := by
  obtain ⟨_, _, _, h4⟩ := calcRun_sim e use pool hc rs ⟨years, tdist, Cache.fresh⟩
    ⟨years, tdist, Cache.fresh⟩ h hh rfl rfl (goodCache_fresh e h years hh hc)
  have h5 := congrArg (fun l => l[i]?) h4
  simp only [List.getElem?_map, hs, Option.map_some] at h5
  cases hx : (calcStatesL e use pool ⟨years, tdist, Cache.fresh⟩ h (rs.map fun _ => true))[i]? with
  | none => rw [hx] at h5; simp at h5
  | some sii =>
    rw [hx] at h5
    simp only [Option.map_some, Option.some.injEq] at h5
    exact ⟨sii, rfl, h5.symm⟩

/-- `pulled_le_year_left_by_till` with the hypotheses unfolded -/
theorem pulled_le_year_left_by_till_aux (e : Env) (use : Int → Int → Int) (pool : Int → Int)
    (years : List Year) (tdist h : Int) (rs : List Bool) (hh : 1 ≤ h) (hc : 0 < e.o.cycle)
    (j : Nat) (amt : Int) (sj : CS)
    (hj : (calcRun e use pool ⟨years, tdist, Cache.fresh⟩ h rs).2[j]? = some (some amt))
    (hs : (calcStatesL e use pool ⟨years, tdist, Cache.fresh⟩ h rs)[j]? = some sj)
    (hn : (numMoreBlocks e years (h + (j : Int))).1 ≠ 0) :
    ∃ (y : Nat) (supply : Int) (yr : Year), (numMoreBlocks e years (h + (j : Int))).2 = (y : Int) ∧
      e.o.shares[y]? = some supply ∧ sj.years[y]? = some yr ∧ 0 ≤ amt ∧ amt ≤ supply - yr.till := by
  obtain ⟨sij, hs1, hout, hcl⟩ := calcRun_block_ideal e use pool years tdist h rs hh hc j _ hj
  obtain ⟨sij', hs2, hy⟩ := calcRun_state_ideal e use pool years tdist h rs hh hc j sj hs
  rw [hs1] at hs2
  cases hs2
  rw [← hy]
  exact calcStep_true_out_spec e use pool years sij (h + (j : Int)) amt hc hcl hout hn

/-- `pulled_le_year_left_at_cycle_start` with the hypotheses unfolded -/
theorem pulled_le_year_left_at_cycle_start_aux (e : Env) (use : Int → Int → Int) (pool : Int → Int)
    (years : List Year) (tdist h : Int) (rs : List Bool) (hh : 1 ≤ h) (hc : 0 < e.o.cycle)
    (hclean : ∀ yr ∈ years, yr.till = yr.dist)
    (i j : Nat) (hij : i ≤ j) (amt : Int) (si : CS)
    (hi : firstInCycle e.o (h + (i : Int)) = true)
    (hcyc : cycleNo e.o (h + (i : Int)) = cycleNo e.o (h + (j : Int)))
    (hj : (calcRun e use pool ⟨years, tdist, Cache.fresh⟩ h rs).2[j]? = some (some amt))
    (hs : (calcStatesL e use pool ⟨years, tdist, Cache.fresh⟩ h rs)[i]? = some si)
    (hn : (numMoreBlocks e years (h + (j : Int))).1 ≠ 0) :
    ∃ (y : Nat) (supply : Int) (yr : Year), (numMoreBlocks e years (h + (j : Int))).2 = (y : Int) ∧
      e.o.shares[y]? = some supply ∧ si.years[y]? = some yr ∧ amt ≤ supply - yr.dist := by
  obtain ⟨sij, hs1, hout, hcl⟩ := calcRun_block_ideal e use pool years tdist h rs hh hc j _ hj
  obtain ⟨sii, hs2, hy⟩ := calcRun_state_ideal e use pool years tdist h rs hh hc i si hs
  obtain ⟨y, supply, yr, h1, h2, h3, _, h5⟩ :=
    calcStep_true_out_spec e use pool years sij (h + (j : Int)) amt hc hcl hout hn
  -- `TillLastCycle` of every year is the same in states `i` and `j`
  have htill := calcStatesL_till_const e use pool _ _ h i j sii sij hij hs2 hs1 (fun m h1 h2 =>
    not_last_of_same_cycle (a := h + (i : Int)) (b := h + (j : Int)) (by omega) (by omega) (by omega)
      hc hcyc)
  -- in state `i` (first block of a cycle) every year has `TillLastCycle = Distributed`
  have hinv : 1 ≤ h + (i : Int) ∧ TillInv e (h + (i : Int)) sii.years :=
    calcRun_inv e use pool (fun k s => 1 ≤ k ∧ TillInv e k s.years) _ _ h
      (fun k s r hr hp => by
        have hr' : r = true := mem_map_true hr
        subst hr'
        exact ⟨by omega, tillInv_step e use pool s k hp.1 hc hp.2⟩)
      ⟨hh, fun y yr hy => Or.inl (hclean yr (List.mem_of_getElem? hy))⟩ i sii hs2
  have h6 := congrArg (fun l => l[y]?) htill
  simp only [List.getElem?_map, h3, Option.map_some] at h6
  cases hx : sii.years[y]? with
  | none => rw [hx] at h6; simp at h6
  | some yr2 =>
    rw [hx] at h6
    simp only [Option.map_some, Option.some.injEq] at h6
    have h7 : yr2.till = yr2.dist := by
      rcases hinv.2 y yr2 hx with h | ⟨h, _⟩
      · exact h
      · rw [hi] at h; cases h
    refine ⟨y, supply, yr2, h1, h2, by rw [← hy]; exact hx, ?_⟩
    omega

/-! ## no reward year is over-distributed -/

/-- number of blocks of the cycle of `k` that come before `k` -/
def cyclePos (o : Opts) (k : Int) : Int := (k - 1) % o.cycle

theorem cyclePos_nonneg {o : Opts} (k : Int) (hc : 0 < o.cycle) : 0 ≤ cyclePos o k :=
  Int.emod_nonneg _ (by omega)

theorem cyclePos_lt {o : Opts} (k : Int) (hc : 0 < o.cycle) : cyclePos o k < o.cycle :=
  Int.emod_lt_of_pos _ hc

theorem cyclePos_succ_of_not_last {o : Opts} {k : Int} (hk : 1 ≤ k) (hc : 0 < o.cycle)
    (hl : lastInCycle o k = false) : cyclePos o (k + 1) = cyclePos o k + 1 := by
  have hm := (lastInCycle_false_iff hk).1 hl
  have hd := ediv_pred_of_emod_ne hc hm
  unfold cyclePos
  rw [Int.add_sub_cancel]
  have h1 := Int.emod_def k o.cycle
  have h2 := Int.emod_def (k - 1) o.cycle
  rw [hd] at h2
  omega

theorem cyclePos_of_last {o : Opts} {k : Int} (hk : 1 ≤ k) (hc : 0 < o.cycle)
    (hl : lastInCycle o k = true) : cyclePos o k = o.cycle - 1 := by
  have hm := (lastInCycle_true_iff hk).1 hl
  have hd := ediv_pred_of_emod_eq hc hm
  unfold cyclePos
  have h1 := Int.emod_def k o.cycle
  have h2 := Int.emod_def (k - 1) o.cycle
  rw [hd, Int.mul_add, Int.mul_one] at h1
  omega

theorem addYearDist_getElem?_self (ys : List Year) {y : Nat} {yr : Year} (x : Int) (l : Bool)
    (hy : ys[y]? = some yr) :
    (addYearDist ys y x l)[y]? =
      some ⟨yr.close, yr.dist + x, if l then yr.dist + x else yr.till⟩ := by
  have hlt : y < ys.length := (List.getElem?_eq_some_iff.1 hy).1
  unfold addYearDist
  rw [hy]
  exact List.getElem?_set_self hlt

/-- a recalculation on a year that is within its supply succeeds -/
theorem recalc_ok_of {e : Env} {ys : List Year} (c0 : Cache) {k : Int} {j : Nat} {supply : Int}
    {yr : Year} (hn : (numMoreBlocks e ys k).1 ≠ 0) (h2 : (numMoreBlocks e ys k).2 = (j : Int))
    (hs : e.o.shares[j]? = some supply) (hy : ys[j]? = some yr) (hle : yr.till ≤ supply) :
    ∃ a c, recalc e ys c0 k = .ok a c ∧ c.burnedout = false := by
  have hl : ¬ supply - yr.till < 0 := by omega
  unfold recalc
  simp only [hn, if_false, h2, Int.toNat_natCast, hs, hy, hl]
  exact ⟨_, _, rfl, rfl⟩

/-- every year with a share is either settled within its supply (`TillLastCycle = Distributed ≤
    supply`) or is the year the current cycle draws on, and has received at most the cycle's
    per-block amount for each block of the cycle so far -/
def SupInv (e : Env) (k : Int) (ys : List Year) : Prop :=
  ∀ (y : Nat) (yr : Year) (supply : Int), ys[y]? = some yr → e.o.shares[y]? = some supply →
    (yr.till = yr.dist ∧ yr.dist ≤ supply) ∨
    (∃ a c, recalc e ys Cache.fresh k = .ok a c ∧ c.burnedout = false ∧ c.year = (y : Int) ∧
      yr.dist - yr.till ≤ cyclePos e.o k * a)

theorem supInv_within {e : Env} {k : Int} {ys : List Year} (hc : 0 < e.o.cycle)
    (hinv : SupInv e k ys) (y : Nat) (yr : Year) (supply : Int)
    (hy : ys[y]? = some yr) (hs : e.o.shares[y]? = some supply) :
    yr.dist ≤ supply ∧ yr.till ≤ supply := by
  rcases hinv y yr supply hy hs with ⟨h1, h2⟩ | ⟨a, c, hrec, hb, hcy, hd⟩
  · omega
  · obtain ⟨y', supply', yr', g1, _, _, g4, g5, g6, _, g8, _⟩ :=
      recalc_ok_spec e ys Cache.fresh c k a hc hrec hb
    have hyy : y' = y := by omega
    subst hyy
    rw [hs] at g4
    rw [hy] at g5
    cases g4
    cases g5
    have h1 : cyclePos e.o k * a ≤ e.o.cycle * a :=
      Int.mul_le_mul_of_nonneg_right (Int.le_of_lt (cyclePos_lt k hc)) g6
    have h2 : 0 ≤ e.o.cycle * a := Int.mul_nonneg (by omega) g6
    omega

theorem supInv_step (e : Env) (use : Int → Int → Int) (pool : Int → Int)
    (huse : ∀ k a, 0 ≤ a → 0 ≤ use k a ∧ use k a ≤ a)
    (s : CS) (k : Int) (hk : 1 ≤ k) (hc : 0 < e.o.cycle) (hinv : SupInv e k s.years) :
    SupInv e (k + 1) (calcStep e use pool s k true).1.years := by
  have hcl := calcStep_close e use pool s k true
  have htl := fun hl => (calcStep_till_close e use pool s k true hl).1
  rcases calcStep_true_years e use pool s k hc with
    ⟨a, c, y0, supply0, yr0, hrec, hb, hcy, _, hsh0, hy0, ha0, _, hca, _, hys⟩ | ⟨hys, hbo⟩
  · intro y yr supply hy hsh
    by_cases hyy : y0 = y
    · subst hyy
      rw [hsh0] at hsh
      cases hsh
      obtain ⟨u0, u1⟩ := huse k a ha0
      have hpos := cyclePos_nonneg (o := e.o) k hc
      have hD : yr0.dist - yr0.till ≤ cyclePos e.o k * a := by
        rcases hinv y0 yr0 supply0 hy0 hsh0 with ⟨h1, _⟩ | ⟨a', c', h1, _, _, h4⟩
        · have := Int.mul_nonneg hpos ha0
          omega
        · rw [hrec] at h1
          injection h1 with h1 _
          rw [← h1] at h4
          exact h4
      have hle := (supInv_within hc hinv y0 yr0 supply0 hy0 hsh0).2
      rw [hys, addYearDist_getElem?_self _ _ _ hy0] at hy
      cases hy
      cases hl : lastInCycle e.o k with
      | true =>
        refine Or.inl ⟨by simp, ?_⟩
        have hp := cyclePos_of_last hk hc hl
        rw [hp, Int.sub_mul, Int.one_mul] at hD
        simp only
        omega
      | false =>
        refine Or.inr ⟨a, c, ?_, hb, hcy, ?_⟩
        · rw [recalc_next hk hc hl hcl (htl hl)]
          exact hrec
        · rw [cyclePos_succ_of_not_last hk hc hl, Int.add_mul, Int.one_mul]
          simp only [Bool.false_eq_true, if_false]
          omega
    · rw [hys, addYearDist_getElem?_ne _ _ _ hyy] at hy
      rcases hinv y yr supply hy hsh with h | ⟨a', c', h1, _, h3, _⟩
      · exact Or.inl h
      · rw [hrec] at h1
        injection h1 with _ h1
        rw [← h1, hcy] at h3
        omega
  · intro y yr supply hy hsh
    rw [hys] at hy
    rcases hinv y yr supply hy hsh with h | ⟨a', c', h1, h2, _⟩
    · exact Or.inl h
    · have := (hbo a' c' h1).1
      rw [h2] at this
      cases this

/-- with a share for every year a block of the always-restarted node cannot fail -/
theorem supInv_step_isSome (e : Env) (use : Int → Int → Int) (pool : Int → Int)
    (s : CS) (k : Int) (hc : 0 < e.o.cycle) (hlen : e.o.shares.length = s.years.length)
    (hinv : SupInv e k s.years) : (calcStep e use pool s k true).2.isSome = true := by
  rcases calcStep_true_years e use pool s k hc with
    ⟨a, c, y0, supply0, yr0, _, _, _, _, _, _, _, _, _, ho, _⟩ | ⟨_, hbo⟩
  · rw [ho]; rfl
  · by_cases hn : (numMoreBlocks e s.years k).1 = 0
    · exact (hbo _ _ (recalc_of_zero hn)).2
    · exfalso
      rcases numMoreBlocks_spec e s.years k with ⟨h0, _⟩ | ⟨j, yr, h1, h2, _, _⟩
      · rw [h0] at hn; exact hn rfl
      · have hlt : j < s.years.length := (List.getElem?_eq_some_iff.1 h1).1
        have hsh : e.o.shares[j]? = some (e.o.shares[j]'(by omega)) :=
          List.getElem?_eq_getElem (by omega)
        have hle := (supInv_within hc hinv j yr _ h1 hsh).2
        obtain ⟨a, c, hrec, hb⟩ := recalc_ok_of Cache.fresh hn h2 hsh h1 hle
        have := (hbo a c hrec).1
        rw [hb] at this
        cases this

/-- `year_never_overdistributed` with the hypotheses unfolded -/
theorem year_never_overdistributed_aux (e : Env) (use : Int → Int → Int) (pool : Int → Int)
    (years : List Year) (tdist h : Int) (rs : List Bool) (hh : 1 ≤ h) (hc : 0 < e.o.cycle)
    (huse : ∀ k a, 0 ≤ a → 0 ≤ use k a ∧ use k a ≤ a)
    (hclean : ∀ yr ∈ years, yr.till = yr.dist)
    (hsup : ∀ (y : Nat) (yr : Year) (supply : Int), years[y]? = some yr →
      e.o.shares[y]? = some supply → yr.dist ≤ supply) :
    (∀ s ∈ calcStatesL e use pool ⟨years, tdist, Cache.fresh⟩ h rs,
      ∀ (y : Nat) (yr : Year) (supply : Int), s.years[y]? = some yr →
        e.o.shares[y]? = some supply → yr.dist ≤ supply) ∧
    (∀ (y : Nat) (yr : Year) (supply : Int),
      (calcRun e use pool ⟨years, tdist, Cache.fresh⟩ h rs).1.years[y]? = some yr →
        e.o.shares[y]? = some supply → yr.dist ≤ supply) := by
  have hstep : ∀ (k : Int) (s : CS) (r : Bool), r ∈ rs.map (fun _ => true) →
      (1 ≤ k ∧ SupInv e k s.years) →
      (1 ≤ k + 1 ∧ SupInv e (k + 1) (calcStep e use pool s k r).1.years) := by
    intro k s r hr hp
    have hr' : r = true := mem_map_true hr
    subst hr'
    exact ⟨by omega, supInv_step e use pool huse s k hp.1 hc hp.2⟩
  have h0 : 1 ≤ h ∧ SupInv e h (CS.mk years tdist Cache.fresh).years :=
    ⟨hh, fun y yr supply hy hs =>
      Or.inl ⟨hclean yr (List.mem_of_getElem? hy), hsup y yr supply hy hs⟩⟩
  constructor
  · intro s hs y yr supply hy hsh
    obtain ⟨j, hj⟩ := List.getElem?_of_mem hs
    obtain ⟨sii, hs2, hyy⟩ := calcRun_state_ideal e use pool years tdist h rs hh hc j s hj
    have hinv := calcRun_inv e use pool (fun k s => 1 ≤ k ∧ SupInv e k s.years) _ _ h hstep h0 j sii hs2
    rw [← hyy] at hy
    exact (supInv_within hc hinv.2 y yr supply hy hsh).1
  · intro y yr supply hy hsh
    obtain ⟨_, h2, _, _⟩ := calcRun_sim e use pool hc rs ⟨years, tdist, Cache.fresh⟩
      ⟨years, tdist, Cache.fresh⟩ h hh rfl rfl (goodCache_fresh e h years hh hc)
    have hinv := calcRun_inv_final e use pool (fun k s => 1 ≤ k ∧ SupInv e k s.years) _ _ h hstep h0
    rw [h2] at hy
    exact (supInv_within hc hinv.2 y yr supply hy hsh).1

/-- `pull_never_fails` with the hypotheses unfolded -/
theorem pull_never_fails_aux (e : Env) (use : Int → Int → Int) (pool : Int → Int)
    (years : List Year) (tdist h : Int) (rs : List Bool) (hh : 1 ≤ h) (hc : 0 < e.o.cycle)
    (huse : ∀ k a, 0 ≤ a → 0 ≤ use k a ∧ use k a ≤ a)
    (hclean : ∀ yr ∈ years, yr.till = yr.dist)
    (hsup : ∀ (y : Nat) (yr : Year) (supply : Int), years[y]? = some yr →
      e.o.shares[y]? = some supply → yr.dist ≤ supply)
    (hlen : e.o.shares.length = years.length) :
    ∀ x ∈ (calcRun e use pool ⟨years, tdist, Cache.fresh⟩ h rs).2, x.isSome = true := by
  intro x hx
  obtain ⟨j, hj⟩ := List.getElem?_of_mem hx
  obtain ⟨sij, hs1, hout, hcl⟩ := calcRun_block_ideal e use pool years tdist h rs hh hc j x hj
  have hinv := calcRun_inv e use pool (fun k s => 1 ≤ k ∧ SupInv e k s.years) _ _ h
    (fun k s r hr hp => by
      have hr' : r = true := mem_map_true hr
      subst hr'
      exact ⟨by omega, supInv_step e use pool huse s k hp.1 hc hp.2⟩)
    ⟨hh, fun y yr supply hy hs =>
      Or.inl ⟨hclean yr (List.mem_of_getElem? hy), hsup y yr supply hy hs⟩⟩ j sij hs1
  have hl : sij.years.length = years.length := by
    have := congrArg List.length hcl
    simpa using this
  rw [← hout]
  exact supInv_step_isSome e use pool sij _ hc (by omega) hinv.2

end OLP.Rewards

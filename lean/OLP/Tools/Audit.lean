/-
  `#audit_ns Some.Namespace` — for every theorem declared under the namespace prints one line
     AUDIT <name> | <axioms it depends on, comma separated>
  so the `check` script can count proof obligations and reject anything beyond
  propext / Classical.choice / Quot.sound (in particular `sorryAx` and `Lean.ofReduceBool`).
-/
import Lean
open Lean Elab Command

elab "#audit_ns " ns:ident : command => do
  let env ← getEnv
  let nsName := ns.getId
  let mut names : Array Name := #[]
  for (n, ci) in env.constants.toList do
    if nsName.isPrefixOf n && !n.isInternal then
      match ci with
      | .thmInfo _ => names := names.push n
      | _ => pure ()
  let sorted := names.qsort (fun a b => a.toString < b.toString)
  for n in sorted do
    let axs ← collectAxioms n
    let axStr := ", ".intercalate (axs.toList.map (·.toString))
    logInfo m!"AUDIT {n} | {axStr}"

/-
  Helper lemmas for the C15 theorems (OLP/Props/C15.lean) about the model OLP/Eth/Model.lean.
-/
import OLP.Eth.Model

namespace OLP.Eth
open OLP

/-! ## firstIdx -/

theorem firstIdx_some_getElem {ws : List Addr} {a : Addr} {i : Nat} (h : firstIdx ws a = some i) :
    ws[i]? = some a := by
  induction ws generalizing i with
  | nil => simp [firstIdx] at h
  | cons w ws ih =>
    unfold firstIdx at h
    split at h
    · rename_i hw; cases h; simp [hw]
    · cases hf : firstIdx ws a with
      | none => simp [hf] at h
      | some j =>
        simp [hf] at h; subst h
        simpa using ih hf

theorem firstIdx_none_iff {ws : List Addr} {a : Addr} : firstIdx ws a = none ↔ a ∉ ws := by
  induction ws with
  | nil => simp [firstIdx]
  | cons w ws ih =>
    unfold firstIdx
    by_cases hw : w = a
    · simp [hw]
    · simp only [hw, if_false, Option.map_eq_none_iff, ih, List.mem_cons]
      constructor
      · intro h hm; cases hm with
        | inl e => exact hw e.symm
        | inr m => exact h m
      · intro h m; exact h (Or.inr m)

theorem firstIdx_of_nodup {ws : List Addr} {a : Addr} {j : Nat} (hn : ws.Nodup) (h : ws[j]? = some a) :
    firstIdx ws a = some j := by
  induction ws generalizing j with
  | nil => simp at h
  | cons w ws ih =>
    have hn' := List.nodup_cons.mp hn
    unfold firstIdx
    cases j with
    | zero => simp at h; simp [h]
    | succ j =>
      simp at h
      have hm : a ∈ ws := List.mem_of_getElem? h
      have hw : w ≠ a := fun e => hn'.1 (e ▸ hm)
      simp [hw, ih hn'.2 h]

/-! ## vote counting -/

theorem countVotes_le_length (v : Nat) (l : List Nat) : countVotes v l ≤ l.length := by
  induction l with
  | nil => simp [countVotes]
  | cons x xs ih => simp only [countVotes, List.length_cons]; split <;> omega

theorem countVotes_add_le_length (l : List Nat) : countVotes 1 l + countVotes 2 l ≤ l.length := by
  induction l with
  | nil => simp [countVotes]
  | cons x xs ih =>
    simp only [countVotes, List.length_cons]
    by_cases h1 : x = 1
    · subst h1; simp; omega
    · by_cases h2 : x = 2
      · subst h2; simp; omega
      · simp [h1, h2]; omega

/-- filling an empty slot with `x` raises the count of `x` by one and keeps every other non-zero count -/
theorem countVotes_set_zero (v : Nat) (hv : v ≠ 0) (l : List Nat) (i x : Nat) (h : l[i]? = some 0) :
    countVotes v (l.set i x) = countVotes v l + (if x = v then 1 else 0) := by
  induction l generalizing i with
  | nil => simp at h
  | cons y ys ih =>
    cases i with
    | zero =>
      simp at h; subst h
      have : ¬ (0 = v) := fun e => hv e.symm
      simp [countVotes, this]; omega
    | succ i =>
      simp at h
      simp [countVotes, ih i h]; omega

/-! ## thresholds -/

theorem threshold_more_than_two_thirds (t : Tracker) :
    2 * t.witnesses.length < 3 * t.threshold ∧ 3 * (t.threshold - 1) ≤ 2 * t.witnesses.length := by
  unfold Tracker.threshold
  omega

theorem yes_add_no_le (t : Tracker) : t.yes + t.no ≤ t.votes.length := countVotes_add_le_length t.votes

/-- the two decisions exclude each other (two thresholds do not fit into the witness list) -/
theorem not_finalized_and_failed (t : Tracker) (hl : t.votes.length = t.witnesses.length) :
    ¬ (t.finalized = true ∧ t.failedV = true) := by
  intro ⟨h1, h2⟩
  simp only [Tracker.finalized, Tracker.failedV, decide_eq_true_eq] at h1 h2
  have := yes_add_no_le t
  have := (threshold_more_than_two_thirds t).1
  omega

/-! ## AddVote -/

/-- well-formedness of a tracker record: one slot per witness, no witness listed twice -/
structure Tracker.WF (t : Tracker) : Prop where
  len : t.votes.length = t.witnesses.length
  nodup : t.witnesses.Nodup

/-- what an accepted vote can do: nothing, or fill the empty slot `idx` of the witness that sent it -/
theorem addVote_ok_cases {t t' : Tracker} {a : Addr} {idx : Int} {v : Bool} (wf : t.WF)
    (h : addVote t a idx v = .ok t') :
    t' = t ∨ (∃ i : Nat, idx = (i : Int) ∧ t.witnesses[i]? = some a ∧ t.votes[i]? = some 0 ∧
      t' = { t with votes := t.votes.set i (if v then 1 else 2) }) := by
  unfold addVote at h
  split at h
  · cases h
  · -- in range
    have hset : addVoteSet t a idx v = .ok t' →
        t' = t ∨ (∃ i : Nat, idx = (i : Int) ∧ t.witnesses[i]? = some a ∧ i < t.votes.length ∧
          t' = { t with votes := t.votes.set i (if v then 1 else 2) }) := by
      intro hs
      unfold addVoteSet at hs
      split at hs
      · cases hs
      · rename_i hneg
        split at hs
        · cases hs
        · rename_i w hw
          split at hs
          · rename_i hwa
            split at hs
            · rename_i hlt
              cases hs
              refine Or.inr ⟨idx.toNat, ?_, ?_, hlt, rfl⟩
              · omega
              · rw [hw, hwa]
            · cases hs
          · cases hs; exact Or.inl rfl
    split at h
    · -- the sender is not a witness: nothing can change
      rename_i hnone
      rcases hset h with h1 | ⟨i, _, hw, _, _⟩
      · exact Or.inl h1
      · exact absurd (List.mem_of_getElem? hw) (firstIdx_none_iff.mp hnone)
    · rename_i i hsome
      split at h
      · cases h
      · rename_i v0 hv0
        split at h
        · cases h
        · rename_i hnot
          rcases hset h with h1 | ⟨j, hj, hw, hlt, ht'⟩
          · exact Or.inl h1
          · have hij : firstIdx t.witnesses a = some j := firstIdx_of_nodup wf.nodup hw
            rw [hsome] at hij
            cases hij
            have : v0 = 0 := by omega
            subst this
            exact Or.inr ⟨i, hj, hw, hv0, ht'⟩

/-- a well-formed tracker never panics on a non-negative index -/
theorem addVote_no_panic {t : Tracker} (wf : t.WF) (a : Addr) {idx : Int} (hidx : 0 ≤ idx) (v : Bool) :
    addVote t a idx v ≠ .panic := by
  have hset : (idx < (t.witnesses.length : Int)) → addVoteSet t a idx v ≠ .panic := by
    intro hlt
    unfold addVoteSet
    have h0 : ¬ idx < 0 := by omega
    have hin : idx.toNat < t.witnesses.length := by omega
    simp only [h0, if_false]
    rw [List.getElem?_eq_getElem hin]
    simp only
    split
    · have : idx.toNat < t.votes.length := by rw [wf.len]; exact hin
      simp [this]
    · simp
  unfold addVote
  split
  · simp
  · rename_i hlt
    have hlt' : idx < (t.witnesses.length : Int) := by omega
    split
    · exact hset hlt'
    · rename_i i hsome
      have hi : i < t.witnesses.length := by
        have := firstIdx_some_getElem hsome
        exact (List.getElem?_eq_some_iff.mp this).1
      have hv : i < t.votes.length := by rw [wf.len]; exact hi
      rw [List.getElem?_eq_getElem hv]
      simp only
      split
      · simp
      · exact hset hlt'

/-- an accepted vote keeps the tracker well formed and every field except the votes -/
theorem addVote_ok_frame {t t' : Tracker} {a : Addr} {idx : Int} {v : Bool} (wf : t.WF)
    (h : addVote t a idx v = .ok t') :
    t'.WF ∧ t'.typ = t.typ ∧ t'.state = t.state ∧ t'.name = t.name ∧ t'.owner = t.owner ∧
    t'.amount = t.amount ∧ t'.toTok = t.toTok ∧ t'.witnesses = t.witnesses := by
  rcases addVote_ok_cases wf h with rfl | ⟨i, _, _, _, rfl⟩
  · exact ⟨wf, rfl, rfl, rfl, rfl, rfl, rfl, rfl⟩
  · exact ⟨⟨by simp [wf.len], wf.nodup⟩, rfl, rfl, rfl, rfl, rfl, rfl, rfl⟩

/-- counts never decrease under an accepted vote; a yes-count increase needs a yes vote, etc. -/
theorem addVote_ok_counts {t t' : Tracker} {a : Addr} {idx : Int} {v : Bool} (wf : t.WF)
    (h : addVote t a idx v = .ok t') :
    t.yes ≤ t'.yes ∧ t.no ≤ t'.no ∧ t'.yes ≤ t.yes + 1 ∧ t'.no ≤ t.no + 1 ∧
    (t.yes < t'.yes → v = true) ∧ (t.no < t'.no → v = false) := by
  rcases addVote_ok_cases wf h with rfl | ⟨i, _, _, hv, rfl⟩
  · simp
  · simp only [Tracker.yes, Tracker.no]
    rw [countVotes_set_zero 1 (by decide) _ _ _ hv, countVotes_set_zero 2 (by decide) _ _ _ hv]
    cases v <;> simp

theorem threshold_of_votes_frame {t t' : Tracker} (h : t'.witnesses = t.witnesses) :
    t'.threshold = t.threshold := by simp [Tracker.threshold, h]

end OLP.Eth

namespace OLP.Eth
open OLP

/-! ## association-list helpers -/

theorem aerase_eq_self_of_none {V : Type} (l : List (Name × V)) (n : Name) (h : alookup n l = none) :
    aerase l n = l := by
  induction l with
  | nil => rfl
  | cons hd tl ih =>
    obtain ⟨k, v⟩ := hd
    by_cases hk : k = n
    · simp [alookup, hk] at h
    · simp only [alookup, hk, if_false] at h
      simp [aerase, hk, ih h]

theorem has_eq_false_iff (s : Store) (n : Name) : has s n = false ↔ alookup n s = none := by
  unfold has; cases alookup n s <;> simp

theorem has_eq_true_iff (s : Store) (n : Name) : has s n = true ↔ ∃ t, alookup n s = some t := by
  unfold has; cases alookup n s <;> simp

theorem has_upsert (s : Store) (n m : Name) (t : Tracker) :
    has (upsert s n t) m = (decide (m = n) || has s m) := by
  unfold has; rw [alookup_upsert]; by_cases h : m = n <;> simp [h]

theorem has_aerase (s : Store) (n m : Name) :
    has (aerase s n) m = (!decide (m = n) && has s m) := by
  unfold has; rw [alookup_aerase]; by_cases h : m = n <;> simp [h]

/-! ## the effect of one transaction, as a relation -/

/-- what a transaction is, as far as the theorems need to know -/
inductive OpInfo
  | sub (typ : PType) (owner : Addr) (n : Name) (amt : Nat)     -- a lock / redeem submission
  | rep (n : Name) (locker voter : Addr) (idx : Int) (ok : Bool) -- a finality report
  | xf (frm to : Addr)                                            -- a transfer of a wrapped currency
  | other
  deriving DecidableEq, Repr

def subTyp (isRedeem erc : Bool) : PType :=
  match isRedeem, erc with
  | false, false => .lock | false, true => .lockERC | true, false => .redeem | true, true => .redeemERC

def Op.info : Op → OpInfo
  | .lock erc _ l n a => .sub (subTyp false erc) l n a
  | .redeem erc _ _ o n a => .sub (subTyp true erc) o n a
  | .report n l v i ok => .rep n l v i ok
  | .send f t _ _ => .xf f t
  | _ => .other

def PType.isErc : PType → Bool
  | .lockERC | .redeemERC => true
  | _ => false

/-- Everything a transaction handler can do to the state, with the facts the handler checked.
    `noop` covers every rejected transaction (the session is discarded) and every early return. -/
inductive Eff (c : Cfg) (s : St) (info : OpInfo) : St → List Event → Prop
  | noop : Eff c s info s []
  | create (typ : PType) (owner : Addr) (n : Name) (amt : Nat) (tt : Bool) (b' : Bal) (ev : List Event)
      (hi : info = .sub typ owner n amt)
      (hOn : has s.ongoing n = false)
      (hPa : has s.passed n = false)
      (hFa : typ.isLock = false → has s.failed n = false)
      (hbal : (typ.isLock = true ∧ b' = s.bal ∧ ev = []) ∨
              (typ.isLock = false ∧ ev = [.debit n owner typ.cur amt] ∧
                ∃ b1, balSub s.bal owner typ.cur amt = some b1 ∧ balSub b1 c.supply typ.cur amt = some b')) :
      Eff c s info { s with bal := b', failed := if typ.isLock then aerase s.failed n else s.failed,
                            ongoing := upsert s.ongoing n (newTracker typ owner n amt tt c.witnesses) } ev
  | vote (n : Name) (t t' : Tracker) (locker voter : Addr) (idx : Int) (okv : Bool)
      (hi : info = .rep n locker voter idx okv)
      (hget : alookup n s.ongoing = some t) (hnf : t.finalized = false) (hnx : t.failedV = false)
      (hv : addVote t voter idx okv = .ok t') (h1 : t'.finalized = false) (h2 : t'.failedV = false) :
      Eff c s info (setOngoing s t') []
  | mint (n : Name) (t t' : Tracker) (locker voter : Addr) (idx : Int) (okv : Bool)
      (hi : info = .rep n locker voter idx okv)
      (hget : alookup n s.ongoing = some t) (hnf : t.finalized = false) (hnx : t.failedV = false)
      (hv : addVote t voter idx okv = .ok t') (h1 : t'.finalized = true) (hl : t'.typ.isLock = true) :
      Eff c s info (mint c s t') [.mint n t'.owner t'.typ.cur t'.amount]
  | burn (n : Name) (t t' : Tracker) (locker voter : Addr) (idx : Int) (okv : Bool)
      (hi : info = .rep n locker voter idx okv)
      (hget : alookup n s.ongoing = some t) (hnf : t.finalized = false) (hnx : t.failedV = false)
      (hv : addVote t voter idx okv = .ok t') (h1 : t'.finalized = true) (hl : t'.typ.isLock = false) :
      Eff c s info (setOngoing s { t' with state := .released }) []
  | lockFail (n : Name) (t t' : Tracker) (locker voter : Addr) (idx : Int) (okv : Bool)
      (hi : info = .rep n locker voter idx okv)
      (hget : alookup n s.ongoing = some t) (hnf : t.finalized = false) (hnx : t.failedV = false)
      (hv : addVote t voter idx okv = .ok t') (h1 : t'.finalized = false) (h2 : t'.failedV = true)
      (ht : t'.typ = .lock) :
      Eff c s info (setOngoing s { t' with state := .failed }) []
  | refund (n : Name) (t t' : Tracker) (locker voter : Addr) (idx : Int) (okv : Bool)
      (hi : info = .rep n locker voter idx okv)
      (hget : alookup n s.ongoing = some t) (hnf : t.finalized = false) (hnx : t.failedV = false)
      (hv : addVote t voter idx okv = .ok t') (h1 : t'.finalized = false) (h2 : t'.failedV = true)
      (ht : t'.typ = .redeem) :
      Eff c s info (refund c s t') [.refund n t'.owner 0 t'.amount]
  | xfer (frm to : Addr) (cur amt : Nat) (b1 : Bal) (hi : info = .xf frm to)
      (h : balSub s.bal frm cur amt = some b1) :
      Eff c s info { s with bal := balAdd b1 to cur amt } [.xfer frm to cur amt]

theorem lockEth_eff (c : Cfg) (s : St) (pre : Nat) (l : Addr) (n : Name) (a : Nat) :
    Eff c s (.sub .lock l n a) (lockEth c s pre l n a).st (lockEth c s pre l n a).ev := by
  unfold lockEth
  split; · exact .noop
  split; · exact .noop
  split; · exact .noop
  split; · exact .noop
  split; · exact .noop
  rename_i hex
  simp only [Bool.or_eq_true, not_or, Bool.not_eq_true] at hex
  have hf : (if has s.failed n then aerase s.failed n else s.failed) = aerase s.failed n := by
    split
    · rfl
    · rename_i hh
      exact (aerase_eq_self_of_none _ _ ((has_eq_false_iff _ _).mp (by simpa using hh))).symm
  have := Eff.create (c := c) (s := s) (info := .sub .lock l n a) .lock l n a false s.bal [] rfl
    hex.1 hex.2 (fun h => by simp [PType.isLock] at h) (Or.inl ⟨rfl, rfl, rfl⟩)
  simpa [hf, PType.isLock] using this

theorem lockErc_eff (c : Cfg) (s : St) (pre : Nat) (l : Addr) (n : Name) (a : Nat) :
    Eff c s (.sub .lockERC l n a) (lockErc c s pre l n a).st (lockErc c s pre l n a).ev := by
  unfold lockErc
  split; · exact .noop
  split; · exact .noop
  split; · exact .noop
  split; · exact .noop
  split; · exact .noop
  rename_i hex
  simp only [Bool.or_eq_true, not_or, Bool.not_eq_true] at hex
  have hf : (if has s.failed n then aerase s.failed n else s.failed) = aerase s.failed n := by
    split
    · rfl
    · rename_i hh
      exact (aerase_eq_self_of_none _ _ ((has_eq_false_iff _ _).mp (by simpa using hh))).symm
  have := Eff.create (c := c) (s := s) (info := .sub .lockERC l n a) .lockERC l n a true s.bal [] rfl
    hex.1 hex.2 (fun h => by simp [PType.isLock] at h) (Or.inl ⟨rfl, rfl, rfl⟩)
  simpa [hf, PType.isLock] using this

theorem redeemEth_eff (c : Cfg) (s : St) (pre : Nat) (o : Addr) (n : Name) (a : Nat) :
    Eff c s (.sub .redeem o n a) (redeemEth c s pre o n a).st (redeemEth c s pre o n a).ev := by
  unfold redeemEth
  split; · exact .noop
  split
  · exact .noop
  · rename_i b1 hb1
    split
    · exact .noop
    · rename_i b2 hb2
      split
      · exact .noop
      · rename_i hex
        simp only [Bool.or_eq_true, not_or, Bool.not_eq_true] at hex
        have := Eff.create (c := c) (s := s) (info := .sub .redeem o n a) .redeem o n a false b2 [.debit n o 0 a] rfl
          hex.1.1 hex.2 (fun _ => hex.1.2)
          (Or.inr ⟨rfl, rfl, b1, hb1, hb2⟩)
        simpa [PType.isLock] using this

theorem redeemErc_eff (c : Cfg) (s : St) (pre : Nat) (tt : Bool) (o : Addr) (n : Name) (a : Nat) :
    Eff c s (.sub .redeemERC o n a) (redeemErc c s pre tt o n a).st (redeemErc c s pre tt o n a).ev := by
  unfold redeemErc
  split; · exact .noop
  split
  · exact .noop
  · rename_i b1 hb1
    split
    · exact .noop
    · rename_i b2 hb2
      split
      · exact .noop
      · rename_i hex
        simp only [Bool.or_eq_true, not_or, Bool.not_eq_true] at hex
        have := Eff.create (c := c) (s := s) (info := .sub .redeemERC o n a) .redeemERC o n a tt b2 [.debit n o 1 a] rfl
          hex.1.1 hex.2 (fun _ => hex.1.2)
          (Or.inr ⟨rfl, rfl, b1, hb1, hb2⟩)
        simpa [PType.isLock] using this

theorem report_eff (c : Cfg) (s : St) (n : Name) (l v : Addr) (i : Int) (ok : Bool) :
    Eff c s (.rep n l v i ok) (report c s n l v i ok).st (report c s n l v i ok).ev := by
  unfold report
  split
  · exact .noop
  · rename_i t hget
    split; · exact .noop
    rename_i hnf
    split; · exact .noop
    rename_i hnx
    simp only [Bool.not_eq_true] at hnf hnx
    split
    · exact .noop
    · exact .noop
    · rename_i t' hv
      split
      · rename_i h1
        split
        · rename_i ht
          have := Eff.mint (c := c) (s := s) (info := .rep n l v i ok) n t t' l v i ok rfl hget hnf hnx hv h1 (by simp [ht, PType.isLock])
          simpa [ht, PType.cur] using this
        · rename_i ht
          split
          · have := Eff.mint (c := c) (s := s) (info := .rep n l v i ok) n t t' l v i ok rfl hget hnf hnx hv h1 (by simp [ht, PType.isLock])
            simpa [ht, PType.cur] using this
          · exact .noop
        · rename_i ht
          exact Eff.burn n t t' l v i ok rfl hget hnf hnx hv h1 (by simp [ht, PType.isLock])
        · rename_i ht
          split
          · exact Eff.burn n t t' l v i ok rfl hget hnf hnx hv h1 (by simp [ht, PType.isLock])
          · exact .noop
      · rename_i h1
        simp only [Bool.not_eq_true] at h1
        split
        · rename_i h2
          split
          · rename_i ht
            exact Eff.lockFail n t t' l v i ok rfl hget hnf hnx hv h1 h2 ht
          · rename_i ht
            exact Eff.refund n t t' l v i ok rfl hget hnf hnx hv h1 h2 ht
          · exact .noop
        · rename_i h2
          simp only [Bool.not_eq_true] at h2
          exact Eff.vote n t t' l v i ok rfl hget hnf hnx hv h1 h2

theorem send_eff (c : Cfg) (s : St) (f t : Addr) (cur a : Nat) :
    Eff c s (.xf f t) (send s f t cur a).st (send s f t cur a).ev := by
  unfold send
  split
  · exact .noop
  · rename_i b1 hb1
    exact Eff.xfer f t cur a b1 rfl hb1

/-! ## the effect of one block-end iteration -/

inductive EffEnd (s : St) (n : Name) : St → Prop
  | none : EffEnd s n s
  | save (t : Tracker) (st' : TState) (hget : alookup n s.ongoing = some t)
      (hst : t.state ≠ .released ∧ t.state ≠ .failed)
      (hst' : st' ≠ .released ∧ st' ≠ .failed ∧ st' ≠ .broadcastSuccess)
      (hfin : st' = .finalized → t.state = .busyFinalizing ∧ t.finalized = true) :
      EffEnd s n (setOngoing s { t with state := st' })
  | toPassed (t : Tracker) (hget : alookup n s.ongoing = some t) (hst : t.state = .released) :
      EffEnd s n { s with passed := upsert s.passed n t.clean, ongoing := aerase s.ongoing n }
  | toFailed (t : Tracker) (hget : alookup n s.ongoing = some t) (hst : t.state = .failed) :
      EffEnd s n { s with failed := upsert s.failed n t.clean, ongoing := aerase s.ongoing n }

theorem transition_cases (t : Tracker) :
    transition t = .none ∨
    (transition t = .panic ∧ t.state = .finalized) ∨
    (transition t = .toPassed ∧ t.state = .released) ∨
    (transition t = .toFailed ∧ t.state = .failed) ∨
    (∃ st', transition t = .save { t with state := st' } ∧
      (t.state ≠ .released ∧ t.state ≠ .failed) ∧
      (st' ≠ .released ∧ st' ≠ .failed ∧ st' ≠ .broadcastSuccess) ∧
      (st' = .finalized → t.state = .busyFinalizing ∧ t.finalized = true)) := by
  unfold transition
  cases hl : t.typ.isLock <;> cases hs : t.state <;> simp
  all_goals first
    | (split <;> simp_all)
    | skip

theorem endOne_eff {s s' : St} {n : Name} (h : endOne s n = some s') : EffEnd s n s' := by
  unfold endOne at h
  split at h
  · cases h
  · rename_i t hget
    rcases transition_cases t with h0 | ⟨h0, _⟩ | ⟨h0, hst⟩ | ⟨h0, hst⟩ | ⟨st', h0, h1, h2, h3⟩
    · rw [h0] at h; cases h; exact .none
    · rw [h0] at h; cases h
    · rw [h0] at h; cases h; exact .toPassed t hget hst
    · rw [h0] at h; cases h; exact .toFailed t hget hst
    · rw [h0] at h; cases h; exact .save t st' hget h1 h2 h3

theorem step_eff (c : Cfg) (s : St) (op : Op) (hop : ∀ ns, op ≠ .endBlock ns) :
    Eff c s op.info (step c s op).st (step c s op).ev := by
  cases op with
  | lock erc pre l n a => cases erc <;> simp only [step, Op.info, subTyp]; exact lockEth_eff ..; exact lockErc_eff ..
  | redeem erc pre tt o n a => cases erc <;> simp only [step, Op.info, subTyp]; exact redeemEth_eff ..; exact redeemErc_eff ..
  | report n l v i ok => exact report_eff ..
  | send f t cur a => exact send_eff ..
  | endBlock ns => exact absurd rfl (hop ns)

end OLP.Eth

namespace OLP.Eth
open OLP

/-! ## well-formed states -/

structure Cfg.WF (c : Cfg) : Prop where
  nodup : c.witnesses.Nodup      -- witness records are keyed by address

/-- what holds of the record stored under name `n` in the ongoing store -/
structure TOK (c : Cfg) (n : Name) (t : Tracker) : Prop where
  name : t.name = n
  wits : t.witnesses = c.witnesses
  len : t.votes.length = t.witnesses.length
  fin : t.finalized = true → t.state = .released
  nfin : t.state ≠ .finalized
  nbs : t.state ≠ .broadcastSuccess

def St.WF (c : Cfg) (s : St) : Prop := ∀ n t, alookup n s.ongoing = some t → TOK c n t

theorem TOK.twf {c : Cfg} {n : Name} {t : Tracker} (hc : c.WF) (h : TOK c n t) : t.WF :=
  ⟨h.len, h.wits ▸ hc.nodup⟩

theorem countVotes_replicate_zero (v : Nat) (hv : v ≠ 0) (k : Nat) : countVotes v (List.replicate k 0) = 0 := by
  induction k with
  | zero => rfl
  | succ k ih =>
    have : ¬ (0 = v) := fun e => hv e.symm
    simp [List.replicate_succ, countVotes, ih, this]

theorem newTracker_not_decided (typ : PType) (o : Addr) (n : Name) (a : Nat) (tt : Bool) (ws : List Addr) :
    (newTracker typ o n a tt ws).finalized = false ∧ (newTracker typ o n a tt ws).failedV = false := by
  simp [Tracker.finalized, Tracker.failedV, Tracker.yes, Tracker.no, newTracker, Tracker.threshold,
    countVotes_replicate_zero]

theorem newTracker_TOK (c : Cfg) (typ : PType) (o : Addr) (n : Name) (a : Nat) (tt : Bool) :
    TOK c n (newTracker typ o n a tt c.witnesses) := by
  refine ⟨rfl, rfl, by simp [newTracker], ?_, by simp [newTracker], by simp [newTracker]⟩
  intro h
  rw [(newTracker_not_decided ..).1] at h
  cases h

@[simp] theorem setOngoing_ongoing (s : St) (t : Tracker) : (setOngoing s t).ongoing = upsert s.ongoing t.name t := rfl
@[simp] theorem setOngoing_passed (s : St) (t : Tracker) : (setOngoing s t).passed = s.passed := rfl
@[simp] theorem setOngoing_failed (s : St) (t : Tracker) : (setOngoing s t).failed = s.failed := rfl
@[simp] theorem setOngoing_bal (s : St) (t : Tracker) : (setOngoing s t).bal = s.bal := rfl
@[simp] theorem mint_ongoing (c : Cfg) (s : St) (t : Tracker) :
    (mint c s t).ongoing = upsert s.ongoing t.name { t with state := .released } := rfl
@[simp] theorem mint_passed (c : Cfg) (s : St) (t : Tracker) : (mint c s t).passed = s.passed := rfl
@[simp] theorem mint_failed (c : Cfg) (s : St) (t : Tracker) : (mint c s t).failed = s.failed := rfl
@[simp] theorem mint_bal (c : Cfg) (s : St) (t : Tracker) :
    (mint c s t).bal = balAdd (balAdd s.bal t.owner t.typ.cur t.amount) c.supply t.typ.cur t.amount := rfl
@[simp] theorem refund_ongoing (c : Cfg) (s : St) (t : Tracker) :
    (refund c s t).ongoing = upsert s.ongoing t.name { t with state := .failed } := rfl
@[simp] theorem refund_passed (c : Cfg) (s : St) (t : Tracker) : (refund c s t).passed = s.passed := rfl
@[simp] theorem refund_failed (c : Cfg) (s : St) (t : Tracker) : (refund c s t).failed = s.failed := rfl
@[simp] theorem refund_bal (c : Cfg) (s : St) (t : Tracker) :
    (refund c s t).bal = balAdd (balAdd s.bal t.owner 0 t.amount) c.supply 0 t.amount := rfl

/-- how the three stores change under a transaction: only under one name, in one of a few ways -/
inductive StoreEff (c : Cfg) (s s' : St) : Prop
  | same (h1 : s'.ongoing = s.ongoing) (h2 : s'.passed = s.passed) (h3 : s'.failed = s.failed)
  /-- a record is put under `n` in the ongoing store (new, or replacing the previous one) -/
  | put (n : Name) (t : Tracker) (erase : Bool)
      (h1 : s'.ongoing = upsert s.ongoing n t) (h2 : s'.passed = s.passed)
      (h3 : s'.failed = if erase then aerase s.failed n else s.failed)

/-- the record a transaction leaves under the name it touches, with the facts known about it -/
structure VoteStep (c : Cfg) (s : St) (n : Name) (t t' : Tracker) (voter : Addr) (idx : Int) (okv : Bool) : Prop where
  hget : alookup n s.ongoing = some t
  hnf : t.finalized = false
  hnx : t.failedV = false
  hv : addVote t voter idx okv = .ok t'

theorem VoteStep.name' {c : Cfg} {s : St} {n : Name} {t t' : Tracker} {voter : Addr} {idx : Int} {okv : Bool}
    (hc : c.WF) (wf : St.WF c s) (h : VoteStep c s n t t' voter idx okv) : t'.name = n := by
  have tok := wf n t h.hget
  rw [(addVote_ok_frame (tok.twf hc) h.hv).2.2.2.1, tok.name]

theorem TOK_of_vote {c : Cfg} {s : St} {n : Name} {t t' : Tracker} {voter : Addr} {idx : Int} {okv : Bool}
    (hc : c.WF) (wf : St.WF c s) (h : VoteStep c s n t t' voter idx okv) (st : TState)
    (hfin : t'.finalized = true → st = .released) (h1 : st ≠ .finalized) (h2 : st ≠ .broadcastSuccess) :
    TOK c n { t' with state := st } := by
  have tok := wf n t h.hget
  have fr := addVote_ok_frame (tok.twf hc) h.hv
  refine ⟨?_, ?_, ?_, ?_, h1, h2⟩
  · show t'.name = n; rw [fr.2.2.2.1, tok.name]
  · show t'.witnesses = c.witnesses; rw [fr.2.2.2.2.2.2.2, tok.wits]
  · exact fr.1.len
  · intro hf; exact hfin hf

theorem wf_put {c : Cfg} {s : St} (wf : St.WF c s) (n : Name) (t : Tracker) (h : TOK c n t) :
    ∀ m u, alookup m (upsert s.ongoing n t) = some u → TOK c m u := by
  intro m u hm
  rw [alookup_upsert] at hm
  split at hm
  · rename_i e; cases hm; exact e ▸ h
  · exact wf m u hm

theorem wf_put_named {c : Cfg} {s : St} (wf : St.WF c s) (n : Name) (X : Tracker)
    (h : TOK c n X) : ∀ m u, alookup m (upsert s.ongoing X.name X) = some u → TOK c m u := by
  rw [h.name]; exact wf_put wf _ X h

/-- every transaction keeps the state well formed -/
theorem wf_eff {c : Cfg} {s s' : St} {info : OpInfo} {ev : List Event} (hc : c.WF) (wf : St.WF c s)
    (h : Eff c s info s' ev) : St.WF c s' := by
  cases h with
  | noop => exact wf
  | create typ owner n amt tt b' ev _ _ _ _ _ => exact wf_put wf n _ (newTracker_TOK ..)
  | vote n t t' locker voter idx okv _ hget hnf hnx hv h1 h2 =>
    have vs : VoteStep c s n t t' voter idx okv := ⟨hget, hnf, hnx, hv⟩
    have tok := wf n t hget
    have fr := addVote_ok_frame (tok.twf hc) hv
    have := TOK_of_vote hc wf vs t'.state (by simp [h1]) (by rw [fr.2.2.1]; exact tok.nfin) (by rw [fr.2.2.1]; exact tok.nbs)
    intro m u hm
    simp only [setOngoing_ongoing] at hm
    exact wf_put_named wf n _ this m u hm
  | mint n t t' locker voter idx okv _ hget hnf hnx hv h1 hl =>
    have vs : VoteStep c s n t t' voter idx okv := ⟨hget, hnf, hnx, hv⟩
    have := TOK_of_vote hc wf vs .released (fun _ => rfl) (by simp) (by simp)
    intro m u hm
    simp only [mint_ongoing] at hm
    exact wf_put_named wf n _ this m u hm
  | burn n t t' locker voter idx okv _ hget hnf hnx hv h1 hl =>
    have vs : VoteStep c s n t t' voter idx okv := ⟨hget, hnf, hnx, hv⟩
    have := TOK_of_vote hc wf vs .released (fun _ => rfl) (by simp) (by simp)
    intro m u hm
    simp only [setOngoing_ongoing] at hm
    exact wf_put_named wf n _ this m u hm
  | lockFail n t t' locker voter idx okv _ hget hnf hnx hv h1 h2 ht =>
    have vs : VoteStep c s n t t' voter idx okv := ⟨hget, hnf, hnx, hv⟩
    have := TOK_of_vote hc wf vs .failed (by simp [h1]) (by simp) (by simp)
    intro m u hm
    simp only [setOngoing_ongoing] at hm
    exact wf_put_named wf n _ this m u hm
  | refund n t t' locker voter idx okv _ hget hnf hnx hv h1 h2 ht =>
    have vs : VoteStep c s n t t' voter idx okv := ⟨hget, hnf, hnx, hv⟩
    have := TOK_of_vote hc wf vs .failed (by simp [h1]) (by simp) (by simp)
    intro m u hm
    simp only [refund_ongoing] at hm
    exact wf_put_named wf n _ this m u hm
  | xfer frm to cur amt b1 _ _ => exact wf

theorem wf_effEnd {c : Cfg} {s s' : St} {n : Name} (wf : St.WF c s) (h : EffEnd s n s') : St.WF c s' := by
  cases h with
  | none => exact wf
  | save t st' hget hst hst' hfin =>
    have tok := wf n t hget
    have hnf : t.finalized = false := by
      cases hf : t.finalized with
      | false => rfl
      | true => exact absurd (tok.fin hf) hst.1
    have hst'' : st' ≠ .finalized := fun e => by
      have := (hfin e).2; rw [hnf] at this; cases this
    have hff : ({ t with state := st' } : Tracker).finalized = true → st' = .released := by
      intro hf
      have : t.finalized = true := hf
      rw [hnf] at this; cases this
    have : TOK c n { t with state := st' } := ⟨tok.name, tok.wits, tok.len, hff, hst'', hst'.2.2⟩
    intro m u hm
    simp only [setOngoing_ongoing] at hm
    exact wf_put_named wf n _ this m u hm
  | toPassed t hget hst =>
    intro m u hm
    simp only at hm
    rw [alookup_aerase] at hm
    split at hm
    · cases hm
    · exact wf m u hm
  | toFailed t hget hst =>
    intro m u hm
    simp only at hm
    rw [alookup_aerase] at hm
    split at hm
    · cases hm
    · exact wf m u hm

theorem wf_endNames {c : Cfg} (ns : List Name) {s s' : St} (wf : St.WF c s)
    (h : endNames s ns = some s') : St.WF c s' := by
  induction ns generalizing s with
  | nil => simp [endNames] at h; exact h ▸ wf
  | cons n ns ih =>
    unfold endNames at h
    split at h
    · cases h
    · rename_i s1 h1
      exact ih (wf_effEnd wf (endOne_eff h1)) h

theorem wf_empty (c : Cfg) : St.WF c St.empty := by
  intro n t h; simp [St.empty] at h

/-- every step keeps the state well formed (a panicking or rejected step keeps the state) -/
theorem wf_step {c : Cfg} (hc : c.WF) {s : St} (wf : St.WF c s) (op : Op) : St.WF c (step c s op).st := by
  by_cases hop : ∃ ns, op = .endBlock ns
  · obtain ⟨ns, rfl⟩ := hop
    simp only [step]
    split
    · exact wf
    · rename_i s' h; exact wf_endNames _ wf h
  · exact wf_eff hc wf (step_eff c s op (fun ns e => hop ⟨ns, e⟩))

end OLP.Eth

namespace OLP.Eth
open OLP

/-! ## specification vocabulary for histories -/

def Event.isMint (n : Name) : Event → Bool
  | .mint m _ _ _ => decide (m = n)
  | _ => false

def Event.isRefund (n : Name) : Event → Bool
  | .refund m _ _ _ => decide (m = n)
  | _ => false

/-- how often wrapped tokens were minted / refunded for the external transaction `n` -/
def mintCount (n : Name) (evs : List Event) : Nat := evs.countP (Event.isMint n)
def refundCount (n : Name) (evs : List Event) : Nat := evs.countP (Event.isRefund n)

/-- the external transaction backs a tracker record in some store -/
def St.knows (s : St) (n : Name) : Bool := has s.ongoing n || has s.passed n || has s.failed n

theorem mintCount_append (n : Name) (a b : List Event) : mintCount n (a ++ b) = mintCount n a + mintCount n b := by
  simp [mintCount, List.countP_append]

theorem refundCount_append (n : Name) (a b : List Event) :
    refundCount n (a ++ b) = refundCount n a + refundCount n b := by
  simp [refundCount, List.countP_append]

theorem has_upsert_of_has (s : Store) (n m : Name) (t : Tracker) (h : has s n = true) :
    has (upsert s n t) m = has s m := by
  rw [has_upsert]; by_cases e : m = n
  · subst e; simp [h]
  · simp [e]

theorem has_of_alookup {s : Store} {n : Name} {t : Tracker} (h : alookup n s = some t) : has s n = true := by
  simp [has, h]

/-- the effect of a transaction on the stores, with the name of the touched record -/
inductive Shape (s s' : St) (n : Name) : Prop
  /-- the record under `n` is replaced by `X`; nothing else -/
  | upd (X : Tracker) (hX : X.name = n) (hh : has s.ongoing n = true)
      (h1 : s'.ongoing = upsert s.ongoing n X) (h2 : s'.passed = s.passed) (h3 : s'.failed = s.failed)
  | same (h1 : s'.ongoing = s.ongoing) (h2 : s'.passed = s.passed) (h3 : s'.failed = s.failed)

end OLP.Eth

namespace OLP.Eth
open OLP

/-! ## the five outcomes of a counted finality report, packaged -/

structure RepEff (c : Cfg) (s s' : St) (ev : List Event) (n : Name) (locker voter : Addr) (idx : Int)
    (okv : Bool) (t t' X : Tracker) : Prop where
  vs : VoteStep c s n t t' voter idx okv
  twf : t.WF
  tok : TOK c n t
  xname : X.name = n
  xtyp : X.typ = t.typ
  xowner : X.owner = t.owner
  xamount : X.amount = t.amount
  xtok : X.toTok = t.toTok
  xwits : X.witnesses = t.witnesses
  xvotes : X.votes = t'.votes
  twits : t'.witnesses = t.witnesses
  xstate : t'.finalized = true → X.state = .released
  xstate' : t'.finalized = false → t'.failedV = false → X.state = t.state
  xstate'' : X.state = t.state ∨ X.state = .released ∨ X.state = .failed
  ong : s'.ongoing = upsert s.ongoing n X
  pas : s'.passed = s.passed
  fai : s'.failed = s.failed
  kind : (ev = [] ∧ s'.bal = s.bal) ∨
         (ev = [.mint n t.owner t.typ.cur t.amount] ∧ t'.finalized = true ∧ t.typ.isLock = true ∧
            s'.bal = balAdd (balAdd s.bal t.owner t.typ.cur t.amount) c.supply t.typ.cur t.amount) ∨
         (ev = [.refund n t.owner 0 t.amount] ∧ t'.finalized = false ∧ t'.failedV = true ∧ t.typ = .redeem ∧
            X.state = .failed ∧
            s'.bal = balAdd (balAdd s.bal t.owner 0 t.amount) c.supply 0 t.amount)

theorem RepEff.xfin {c s s' ev n locker voter idx okv t t' X}
    (h : RepEff c s s' ev n locker voter idx okv t t' X) : X.finalized = t'.finalized := by
  simp [Tracker.finalized, Tracker.threshold, Tracker.yes, h.xvotes, h.xwits, h.twits]

theorem RepEff.xfail {c s s' ev n locker voter idx okv t t' X}
    (h : RepEff c s s' ev n locker voter idx okv t t' X) : X.failedV = t'.failedV := by
  simp [Tracker.failedV, Tracker.threshold, Tracker.no, h.xvotes, h.xwits, h.twits]

theorem RepEff.hhas {c s s' ev n locker voter idx okv t t' X}
    (h : RepEff c s s' ev n locker voter idx okv t t' X) : has s.ongoing n = true :=
  has_of_alookup h.vs.hget

/-- the four shapes of a transaction's effect -/
inductive Eff2 (c : Cfg) (s : St) (info : OpInfo) (s' : St) (ev : List Event) : Prop
  | noop (h1 : s' = s) (h2 : ev = [])
  | create (typ : PType) (owner : Addr) (n : Name) (amt : Nat) (tt : Bool)
      (hi : info = .sub typ owner n amt)
      (hOn : has s.ongoing n = false)
      (hPa : has s.passed n = false)
      (hFa : typ.isLock = false → has s.failed n = false)
      (hbal : (typ.isLock = true ∧ s'.bal = s.bal ∧ ev = []) ∨
              (typ.isLock = false ∧ ev = [.debit n owner typ.cur amt] ∧
                ∃ b1, balSub s.bal owner typ.cur amt = some b1 ∧ balSub b1 c.supply typ.cur amt = some s'.bal))
      (ong : s'.ongoing = upsert s.ongoing n (newTracker typ owner n amt tt c.witnesses))
      (pas : s'.passed = s.passed)
      (fai : s'.failed = if typ.isLock then aerase s.failed n else s.failed)
  | rep (n : Name) (locker voter : Addr) (idx : Int) (okv : Bool) (t t' X : Tracker)
      (hi : info = .rep n locker voter idx okv)
      (h : RepEff c s s' ev n locker voter idx okv t t' X)
  | xfer (frm to : Addr) (cur amt : Nat) (b1 : Bal) (hi : info = .xf frm to)
      (h : balSub s.bal frm cur amt = some b1)
      (hb : s'.bal = balAdd b1 to cur amt) (ong : s'.ongoing = s.ongoing) (pas : s'.passed = s.passed)
      (fai : s'.failed = s.failed) (hev : ev = [.xfer frm to cur amt])

theorem eff2_of_eff {c : Cfg} {s s' : St} {info : OpInfo} {ev : List Event} (hc : c.WF) (wf : St.WF c s)
    (h : Eff c s info s' ev) : Eff2 c s info s' ev := by
  cases h with
  | noop => exact .noop rfl rfl
  | create typ owner n amt tt b' ev hi hOn hPa hFa hbal =>
    exact .create typ owner n amt tt hi hOn hPa hFa hbal rfl rfl rfl
  | xfer frm to cur amt b1 hi h => exact .xfer frm to cur amt b1 hi h rfl rfl rfl rfl rfl
  | vote n t t' locker voter idx okv hi hget hnf hnx hv h1 h2 =>
    have tok := wf n t hget
    have fr := addVote_ok_frame (tok.twf hc) hv
    refine .rep n locker voter idx okv t t' t' hi
      { vs := ⟨hget, hnf, hnx, hv⟩, twf := tok.twf hc, tok := tok, xname := (by rw [fr.2.2.2.1, tok.name]),
        xtyp := fr.2.1, xowner := fr.2.2.2.2.1, xamount := fr.2.2.2.2.2.1, xtok := fr.2.2.2.2.2.2.1,
        xwits := fr.2.2.2.2.2.2.2, xvotes := rfl, twits := fr.2.2.2.2.2.2.2,
        xstate := (fun hf => by rw [h1] at hf; cases hf), xstate' := fun _ _ => fr.2.2.1,
        xstate'' := Or.inl fr.2.2.1,
        ong := ?_, pas := rfl, fai := rfl, kind := Or.inl ⟨rfl, rfl⟩ }
    simp only [setOngoing_ongoing]; rw [fr.2.2.2.1, tok.name]
  | mint n t t' locker voter idx okv hi hget hnf hnx hv h1 hl =>
    have tok := wf n t hget
    have fr := addVote_ok_frame (tok.twf hc) hv
    refine .rep n locker voter idx okv t t' { t' with state := .released } hi
      { vs := ⟨hget, hnf, hnx, hv⟩, twf := tok.twf hc, tok := tok, xname := (by show t'.name = n; rw [fr.2.2.2.1, tok.name]),
        xtyp := fr.2.1, xowner := fr.2.2.2.2.1, xamount := fr.2.2.2.2.2.1, xtok := fr.2.2.2.2.2.2.1,
        xwits := fr.2.2.2.2.2.2.2, xvotes := rfl, twits := fr.2.2.2.2.2.2.2,
        xstate := fun _ => rfl, xstate' := (fun hf => by rw [h1] at hf; cases hf),
        xstate'' := Or.inr (Or.inl rfl),
        ong := ?_, pas := rfl, fai := rfl, kind := Or.inr (Or.inl ⟨?_, h1, ?_, ?_⟩) }
    · simp only [mint_ongoing]; rw [fr.2.2.2.1, tok.name]
    · rw [fr.2.1, fr.2.2.2.2.1, fr.2.2.2.2.2.1]
    · rw [← fr.2.1]; exact hl
    · simp only [mint_bal]; rw [fr.2.1, fr.2.2.2.2.1, fr.2.2.2.2.2.1]
  | burn n t t' locker voter idx okv hi hget hnf hnx hv h1 hl =>
    have tok := wf n t hget
    have fr := addVote_ok_frame (tok.twf hc) hv
    refine .rep n locker voter idx okv t t' { t' with state := .released } hi
      { vs := ⟨hget, hnf, hnx, hv⟩, twf := tok.twf hc, tok := tok, xname := (by show t'.name = n; rw [fr.2.2.2.1, tok.name]),
        xtyp := fr.2.1, xowner := fr.2.2.2.2.1, xamount := fr.2.2.2.2.2.1, xtok := fr.2.2.2.2.2.2.1,
        xwits := fr.2.2.2.2.2.2.2, xvotes := rfl, twits := fr.2.2.2.2.2.2.2,
        xstate := fun _ => rfl, xstate' := (fun hf => by rw [h1] at hf; cases hf),
        xstate'' := Or.inr (Or.inl rfl),
        ong := ?_, pas := rfl, fai := rfl, kind := Or.inl ⟨rfl, rfl⟩ }
    simp only [setOngoing_ongoing]; rw [fr.2.2.2.1, tok.name]
  | lockFail n t t' locker voter idx okv hi hget hnf hnx hv h1 h2 ht =>
    have tok := wf n t hget
    have fr := addVote_ok_frame (tok.twf hc) hv
    refine .rep n locker voter idx okv t t' { t' with state := .failed } hi
      { vs := ⟨hget, hnf, hnx, hv⟩, twf := tok.twf hc, tok := tok, xname := (by show t'.name = n; rw [fr.2.2.2.1, tok.name]),
        xtyp := fr.2.1, xowner := fr.2.2.2.2.1, xamount := fr.2.2.2.2.2.1, xtok := fr.2.2.2.2.2.2.1,
        xwits := fr.2.2.2.2.2.2.2, xvotes := rfl, twits := fr.2.2.2.2.2.2.2,
        xstate := (fun hf => by rw [h1] at hf; cases hf), xstate' := (fun _ hx => by rw [h2] at hx; cases hx),
        xstate'' := Or.inr (Or.inr rfl),
        ong := ?_, pas := rfl, fai := rfl, kind := Or.inl ⟨rfl, rfl⟩ }
    simp only [setOngoing_ongoing]; rw [fr.2.2.2.1, tok.name]
  | refund n t t' locker voter idx okv hi hget hnf hnx hv h1 h2 ht =>
    have tok := wf n t hget
    have fr := addVote_ok_frame (tok.twf hc) hv
    refine .rep n locker voter idx okv t t' { t' with state := .failed } hi
      { vs := ⟨hget, hnf, hnx, hv⟩, twf := tok.twf hc, tok := tok, xname := (by show t'.name = n; rw [fr.2.2.2.1, tok.name]),
        xtyp := fr.2.1, xowner := fr.2.2.2.2.1, xamount := fr.2.2.2.2.2.1, xtok := fr.2.2.2.2.2.2.1,
        xwits := fr.2.2.2.2.2.2.2, xvotes := rfl, twits := fr.2.2.2.2.2.2.2,
        xstate := (fun hf => by rw [h1] at hf; cases hf), xstate' := (fun _ hx => by rw [h2] at hx; cases hx),
        xstate'' := Or.inr (Or.inr rfl),
        ong := ?_, pas := rfl, fai := rfl, kind := Or.inr (Or.inr ⟨?_, h1, h2, ?_, rfl, ?_⟩) }
    · simp only [refund_ongoing]; rw [fr.2.2.2.1, tok.name]
    · rw [fr.2.2.2.2.1, fr.2.2.2.2.2.1]
    · rw [← fr.2.1]; exact ht
    · simp only [refund_bal]; rw [fr.2.2.2.2.1, fr.2.2.2.2.2.1]

end OLP.Eth

namespace OLP.Eth
open OLP

/-! ## at most one mint per external transaction (no extra hypothesis) -/

structure InvM (c : Cfg) (s : St) (evs : List Event) : Prop where
  wf : St.WF c s
  dOP : ∀ n, has s.ongoing n = true → has s.passed n = false
  once : ∀ n, mintCount n evs ≤ 1
  wit : ∀ n, mintCount n evs = 1 →
    has s.passed n = true ∨ ∃ t, alookup n s.ongoing = some t ∧ t.finalized = true

@[simp] theorem mintCount_nil (n : Name) : mintCount n [] = 0 := rfl
@[simp] theorem mintCount_mint (m n : Name) (l : Addr) (cu a : Nat) :
    mintCount m [.mint n l cu a] = if n = m then 1 else 0 := by
  by_cases h : n = m <;> simp [mintCount, Event.isMint, h]
@[simp] theorem mintCount_refund (m n : Name) (l : Addr) (cu a : Nat) : mintCount m [.refund n l cu a] = 0 := by
  simp [mintCount, Event.isMint]
@[simp] theorem mintCount_debit (m n : Name) (l : Addr) (cu a : Nat) : mintCount m [.debit n l cu a] = 0 := by
  simp [mintCount, Event.isMint]
@[simp] theorem mintCount_xfer (m : Name) (f t : Addr) (cu a : Nat) : mintCount m [.xfer f t cu a] = 0 := by
  simp [mintCount, Event.isMint]
@[simp] theorem refundCount_nil (n : Name) : refundCount n [] = 0 := rfl
@[simp] theorem refundCount_refund (m n : Name) (l : Addr) (cu a : Nat) :
    refundCount m [.refund n l cu a] = if n = m then 1 else 0 := by
  by_cases h : n = m <;> simp [refundCount, Event.isRefund, h]
@[simp] theorem refundCount_mint (m n : Name) (l : Addr) (cu a : Nat) : refundCount m [.mint n l cu a] = 0 := by
  simp [refundCount, Event.isRefund]
@[simp] theorem refundCount_debit (m n : Name) (l : Addr) (cu a : Nat) : refundCount m [.debit n l cu a] = 0 := by
  simp [refundCount, Event.isRefund]
@[simp] theorem refundCount_xfer (m : Name) (f t : Addr) (cu a : Nat) : refundCount m [.xfer f t cu a] = 0 := by
  simp [refundCount, Event.isRefund]

theorem knows_false {s : St} {n : Name} (h : s.knows n = false) :
    has s.ongoing n = false ∧ has s.passed n = false ∧ has s.failed n = false := by
  simp only [St.knows, Bool.or_eq_false_iff] at h
  exact ⟨h.1.1, h.1.2, h.2⟩

theorem invM_eff2 {c : Cfg} {s s' : St} {info : OpInfo} {ev : List Event} {evs : List Event}
    (I : InvM c s evs) (wf' : St.WF c s') (h : Eff2 c s info s' ev) : InvM c s' (evs ++ ev) := by
  cases h with
  | noop h1 h2 =>
    subst h1 h2
    exact ⟨wf', I.dOP, by simpa using I.once, by simpa using I.wit⟩
  | xfer frm to cur amt b1 hi hb hbal ong pas fai hev =>
    subst hev
    refine ⟨wf', ?_, ?_, ?_⟩
    · intro n; rw [ong, pas]; exact I.dOP n
    · intro n; rw [mintCount_append]; simpa using I.once n
    · intro n; rw [mintCount_append, ong, pas]; simpa using I.wit n
  | create typ owner n amt tt hi hOn hPa hFa hbal ong pas fai =>
    have hev0 : ∀ m, mintCount m ev = 0 := by
      intro m
      rcases hbal with ⟨_, _, rfl⟩ | ⟨_, rfl, _⟩ <;> simp
    refine ⟨wf', ?_, ?_, ?_⟩
    · intro m hm
      rw [pas]
      by_cases e : m = n
      · rw [e]; exact hPa
      · rw [ong, has_upsert] at hm; simp [e] at hm; exact I.dOP m hm
    · intro m; rw [mintCount_append, hev0]; simpa using I.once m
    · intro m hm
      rw [mintCount_append, hev0] at hm
      have := I.wit m (by simpa using hm)
      by_cases e : m = n
      · subst e
        rcases this with h1 | ⟨t, h1, _⟩
        · rw [hPa] at h1; cases h1
        · have := has_of_alookup h1; rw [hOn] at this; cases this
      · rw [pas, ong, alookup_upsert]; simpa [e] using this
  | rep n locker voter idx okv t t' X hi h =>
    have hon : ∀ m, has s'.ongoing m = has s.ongoing m := fun m => by
      rw [h.ong]; exact has_upsert_of_has _ _ _ _ h.hhas
    have hlook : ∀ m, m ≠ n → alookup m s'.ongoing = alookup m s.ongoing := fun m e => by
      rw [h.ong, alookup_upsert]; simp [e]
    have hlookn : alookup n s'.ongoing = some X := by rw [h.ong]; simp
    -- a name that was minted before cannot be the name of this (undecided) tracker
    have hnot : mintCount n evs = 1 → False := by
      intro hc1
      rcases I.wit n hc1 with h1 | ⟨u, h1, h2⟩
      · rw [I.dOP n h.hhas] at h1; cases h1
      · rw [h.vs.hget] at h1; cases h1; rw [h.vs.hnf] at h2; cases h2
    refine ⟨wf', ?_, ?_, ?_⟩
    · intro m; rw [hon, h.pas]; exact I.dOP m
    · intro m
      rw [mintCount_append]
      rcases h.kind with ⟨rfl, _⟩ | ⟨rfl, _⟩ | ⟨rfl, _⟩
      · simpa using I.once m
      · by_cases e : n = m
        · subst e
          have := I.once n
          have h0 : mintCount n evs = 0 := by
            rcases Nat.lt_or_ge (mintCount n evs) 1 with hlt | hge
            · omega
            · exact absurd (by omega) hnot
          simp [h0]
        · simp [e]; exact I.once m
      · simpa using I.once m
    · intro m hm
      rw [mintCount_append] at hm
      by_cases e : m = n
      · subst e
        rcases h.kind with ⟨rfl, _⟩ | ⟨rfl, hf, _⟩ | ⟨rfl, _⟩
        · exact absurd (by simpa using hm) hnot
        · exact Or.inr ⟨X, hlookn, by rw [h.xfin]; exact hf⟩
        · exact absurd (by simpa using hm) hnot
      · have hm' : mintCount m evs = 1 := by
          rcases h.kind with ⟨rfl, _⟩ | ⟨rfl, _⟩ | ⟨rfl, _⟩
          · simpa using hm
          · have : ¬ n = m := fun x => e x.symm
            simpa [this] using hm
          · simpa using hm
        rw [h.pas, hlook m e]; exact I.wit m hm'

/-- replacing the record under an existing name by one that is finalized whenever the old one was -/
theorem invM_upd {c : Cfg} {s s' : St} {evs : List Event}
    (I : InvM c s evs) (wf' : St.WF c s') (n : Name) (X : Tracker) (hh : has s.ongoing n = true)
    (e1 : s'.ongoing = upsert s.ongoing n X) (e2 : s'.passed = s.passed)
    (hfin : ∀ t, alookup n s.ongoing = some t → t.finalized = true → X.finalized = true) :
    InvM c s' evs := by
  have hon : ∀ m, has s'.ongoing m = has s.ongoing m := fun m => by
    rw [e1]; exact has_upsert_of_has _ _ _ _ hh
  refine ⟨wf', ?_, I.once, ?_⟩
  · intro m; rw [hon, e2]; exact I.dOP m
  · intro m hm
    rcases I.wit m hm with h1 | ⟨u, h1, h2⟩
    · exact Or.inl (by rw [e2]; exact h1)
    · refine Or.inr ?_
      rw [e1, alookup_upsert]
      by_cases e : m = n
      · subst e; exact ⟨X, by simp, hfin u h1 h2⟩
      · exact ⟨u, by simp [e, h1], h2⟩

theorem invM_effEnd {c : Cfg} {s s' : St} {n : Name} {evs : List Event}
    (I : InvM c s evs) (h : EffEnd s n s') : InvM c s' evs := by
  have wf' := wf_effEnd I.wf h
  cases h with
  | none => exact I
  | save t st' hget hst hst' hfin =>
    have tok := I.wf n t hget
    refine invM_upd I wf' n { t with state := st' } (has_of_alookup hget) ?_ rfl ?_
    · show upsert s.ongoing t.name _ = upsert s.ongoing n _
      rw [tok.name]
    · intro u hu hf
      rw [hget] at hu; cases hu; exact hf
  | toPassed t hget hst =>
    refine ⟨wf', ?_, I.once, ?_⟩
    · intro m hm
      simp only [has_aerase] at hm
      by_cases e : m = n
      · simp [e] at hm
      · simp only [e, decide_false, Bool.not_false, Bool.true_and] at hm
        simp only [has_upsert, e, decide_false, Bool.false_or]
        exact I.dOP m hm
    · intro m hm
      by_cases e : m = n
      · subst e; exact Or.inl (by simp [has_upsert])
      · rcases I.wit m hm with h1 | ⟨u, h1, h2⟩
        · exact Or.inl (by simp [has_upsert, h1])
        · exact Or.inr ⟨u, by simp only []; rw [alookup_aerase]; simp [e, h1], h2⟩
  | toFailed t hget hst =>
    have hh := has_of_alookup hget
    have tok := I.wf n t hget
    refine ⟨wf', ?_, I.once, ?_⟩
    · intro m hm
      simp only [has_aerase] at hm
      by_cases e : m = n
      · simp [e] at hm
      · simp only [e, decide_false, Bool.not_false, Bool.true_and] at hm
        exact I.dOP m hm
    · intro m hm
      by_cases e : m = n
      · subst e
        rcases I.wit m hm with h1 | ⟨u, h1, h2⟩
        · rw [I.dOP m hh] at h1; cases h1
        · rw [hget] at h1; cases h1
          have := tok.fin h2; rw [hst] at this; cases this
      · rcases I.wit m hm with h1 | ⟨u, h1, h2⟩
        · exact Or.inl h1
        · exact Or.inr ⟨u, by simp only []; rw [alookup_aerase]; simp [e, h1], h2⟩

theorem invM_endNames {c : Cfg} (ns : List Name) {s s' : St} {evs : List Event}
    (I : InvM c s evs) (h : endNames s ns = some s') : InvM c s' evs := by
  induction ns generalizing s with
  | nil => simp [endNames] at h; exact h ▸ I
  | cons n ns ih =>
    unfold endNames at h
    split at h
    · cases h
    · rename_i s1 h1
      exact ih (invM_effEnd I (endOne_eff h1)) h

theorem invM_step {c : Cfg} (hc : c.WF) {s : St} {evs : List Event} (I : InvM c s evs) (op : Op) :
    InvM c (step c s op).st (evs ++ (step c s op).ev) := by
  by_cases hop : ∃ ns, op = .endBlock ns
  · obtain ⟨ns, rfl⟩ := hop
    simp only [step]
    split
    · simpa using I
    · rename_i s' h; simpa using invM_endNames _ I h
  · have he := step_eff c s op (fun ns e => hop ⟨ns, e⟩)
    exact invM_eff2 I (wf_eff hc I.wf he) (eff2_of_eff hc I.wf he)

theorem invM_empty (c : Cfg) : InvM c St.empty [] :=
  ⟨wf_empty c, by simp [St.empty, has], by simp, by simp⟩

theorem run_invM {c : Cfg} (hc : c.WF) (ops : List Op) : ∀ (s : St) (evs : List Event),
    InvM c s evs → InvM c (run c s ops).1 (evs ++ (run c s ops).2) := by
  induction ops with
  | nil => intro s evs I; simpa [run] using I
  | cons op ops ih =>
    intro s evs I
    have := ih _ _ (invM_step hc I op)
    simpa [run, List.append_assoc] using this

/-! ## one record per external transaction across all three stores (no extra hypothesis) -/

structure InvD (c : Cfg) (s : St) : Prop where
  wf : St.WF c s
  dOP : ∀ n, has s.ongoing n = true → has s.passed n = false
  dOF : ∀ n, has s.ongoing n = true → has s.failed n = false
  dPF : ∀ n, has s.passed n = true → has s.failed n = false

theorem invD_eff2 {c : Cfg} {s s' : St} {info : OpInfo} {ev : List Event}
    (I : InvD c s) (wf' : St.WF c s') (h : Eff2 c s info s' ev) : InvD c s' := by
  cases h with
  | noop h1 h2 => subst h1; exact I
  | xfer frm to cur amt b1 hi hb hbal ong pas fai hev =>
    refine ⟨wf', ?_, ?_, ?_⟩
    · intro n; rw [ong, pas]; exact I.dOP n
    · intro n; rw [ong, fai]; exact I.dOF n
    · intro n; rw [pas, fai]; exact I.dPF n
  | create typ owner n amt tt hi hOn hPa hFa hbal ong pas fai =>
    have hfa : has s'.failed n = false := by
      rw [fai]
      cases hl : typ.isLock with
      | true => simp [has_aerase]
      | false => simpa using hFa hl
    have hfsub : ∀ m, has s'.failed m = true → has s.failed m = true := by
      intro m hm
      rw [fai] at hm
      split at hm
      · rw [has_aerase] at hm; simp at hm; exact hm.2
      · exact hm
    refine ⟨wf', ?_, ?_, ?_⟩
    · intro m hm
      rw [pas]
      by_cases e : m = n
      · rw [e]; exact hPa
      · rw [ong, has_upsert] at hm; simp [e] at hm; exact I.dOP m hm
    · intro m hm
      by_cases e : m = n
      · rw [e]; exact hfa
      · rw [ong, has_upsert] at hm; simp [e] at hm
        cases hf : has s'.failed m with
        | false => rfl
        | true => have := hfsub m hf; rw [I.dOF m hm] at this; cases this
    · intro m hm
      rw [pas] at hm
      cases hf : has s'.failed m with
      | false => rfl
      | true => have := hfsub m hf; rw [I.dPF m hm] at this; cases this
  | rep n locker voter idx okv t t' X hi h =>
    have hon : ∀ m, has s'.ongoing m = has s.ongoing m := fun m => by
      rw [h.ong]; exact has_upsert_of_has _ _ _ _ h.hhas
    refine ⟨wf', ?_, ?_, ?_⟩
    · intro m; rw [hon, h.pas]; exact I.dOP m
    · intro m; rw [hon, h.fai]; exact I.dOF m
    · intro m; rw [h.pas, h.fai]; exact I.dPF m

theorem invD_effEnd {c : Cfg} {s s' : St} {n : Name} (I : InvD c s) (h : EffEnd s n s') : InvD c s' := by
  have wf' := wf_effEnd I.wf h
  cases h with
  | none => exact I
  | save t st' hget hst hst' hfin =>
    have tok := I.wf n t hget
    have hh := has_of_alookup hget
    have hon : ∀ m, has (upsert s.ongoing n ({ t with state := st' } : Tracker)) m = has s.ongoing m :=
      fun m => has_upsert_of_has _ _ _ _ hh
    have e1 : (setOngoing s { t with state := st' }).ongoing = upsert s.ongoing n { t with state := st' } := by
      show upsert s.ongoing t.name _ = upsert s.ongoing n _
      rw [tok.name]
    refine ⟨wf', ?_, ?_, I.dPF⟩
    · intro m; rw [e1, hon]; exact I.dOP m
    · intro m; rw [e1, hon]; exact I.dOF m
  | toPassed t hget hst =>
    have hh := has_of_alookup hget
    refine ⟨wf', ?_, ?_, ?_⟩
    · intro m hm
      simp only [has_aerase] at hm
      by_cases e : m = n
      · simp [e] at hm
      · simp only [e, decide_false, Bool.not_false, Bool.true_and] at hm
        simp only [has_upsert, e, decide_false, Bool.false_or]
        exact I.dOP m hm
    · intro m hm
      simp only [has_aerase] at hm
      by_cases e : m = n
      · simp [e] at hm
      · simp only [e, decide_false, Bool.not_false, Bool.true_and] at hm
        exact I.dOF m hm
    · intro m hm
      simp only [has_upsert] at hm
      by_cases e : m = n
      · subst e; exact I.dOF m hh
      · simp only [e, decide_false, Bool.false_or] at hm
        exact I.dPF m hm
  | toFailed t hget hst =>
    have hh := has_of_alookup hget
    refine ⟨wf', ?_, ?_, ?_⟩
    · intro m hm
      simp only [has_aerase] at hm
      by_cases e : m = n
      · simp [e] at hm
      · simp only [e, decide_false, Bool.not_false, Bool.true_and] at hm
        exact I.dOP m hm
    · intro m hm
      simp only [has_aerase] at hm
      by_cases e : m = n
      · simp [e] at hm
      · simp only [e, decide_false, Bool.not_false, Bool.true_and] at hm
        simp only [has_upsert, e, decide_false, Bool.false_or]
        exact I.dOF m hm
    · intro m hm
      simp only [has_upsert]
      by_cases e : m = n
      · subst e; rw [I.dOP m hh] at hm; cases hm
      · simp only [e, decide_false, Bool.false_or]
        exact I.dPF m hm

theorem invD_endNames {c : Cfg} (ns : List Name) {s s' : St}
    (I : InvD c s) (h : endNames s ns = some s') : InvD c s' := by
  induction ns generalizing s with
  | nil => simp [endNames] at h; exact h ▸ I
  | cons n ns ih =>
    unfold endNames at h
    split at h
    · cases h
    · rename_i s1 h1
      exact ih (invD_effEnd I (endOne_eff h1)) h

theorem invD_step {c : Cfg} (hc : c.WF) {s : St} (I : InvD c s) (op : Op) : InvD c (step c s op).st := by
  by_cases hop : ∃ ns, op = .endBlock ns
  · obtain ⟨ns, rfl⟩ := hop
    simp only [step]
    split
    · exact I
    · rename_i s' h; exact invD_endNames _ I h
  · have he := step_eff c s op (fun ns e => hop ⟨ns, e⟩)
    exact invD_eff2 I (wf_eff hc I.wf he) (eff2_of_eff hc I.wf he)

theorem invD_empty (c : Cfg) : InvD c St.empty :=
  ⟨wf_empty c, by simp [St.empty, has], by simp [St.empty, has], by simp [St.empty, has]⟩

theorem run_invD {c : Cfg} (hc : c.WF) (ops : List Op) : ∀ (s : St), InvD c s → InvD c (run c s ops).1 := by
  induction ops with
  | nil => intro s I; simpa [run] using I
  | cons op ops ih =>
    intro s I
    have := ih _ (invD_step hc I op)
    simpa [run] using this

/-! ## at most one refund per external transaction (no extra hypothesis) -/

structure InvR (c : Cfg) (s : St) (evs : List Event) : Prop where
  wf : St.WF c s
  once : ∀ n, refundCount n evs ≤ 1
  wit : ∀ n, refundCount n evs = 1 →
    s.knows n = true ∧ ∀ t, alookup n s.ongoing = some t → t.typ = .redeem → t.failedV = true

theorem invR_upd {c : Cfg} {s s' : St} {evs : List Event}
    (I : InvR c s evs) (wf' : St.WF c s') (n : Name) (X : Tracker) (hh : has s.ongoing n = true)
    (e1 : s'.ongoing = upsert s.ongoing n X) (e2 : s'.passed = s.passed) (e3 : s'.failed = s.failed)
    (hx : ∀ t, alookup n s.ongoing = some t → (t.typ = .redeem → t.failedV = true) →
      X.typ = .redeem → X.failedV = true) :
    InvR c s' evs := by
  have hon : ∀ m, has s'.ongoing m = has s.ongoing m := fun m => by
    rw [e1]; exact has_upsert_of_has _ _ _ _ hh
  refine ⟨wf', I.once, ?_⟩
  intro m hm
  obtain ⟨hk, hp⟩ := I.wit m hm
  refine ⟨by simpa [St.knows, hon, e2, e3] using hk, ?_⟩
  intro u hu
  rw [e1, alookup_upsert] at hu
  by_cases e : m = n
  · subst e
    simp at hu; subst hu
    obtain ⟨t, ht⟩ := (has_eq_true_iff _ _).mp hh
    exact hx t ht (hp t ht)
  · simp [e] at hu; exact hp u hu

theorem invR_eff2 {c : Cfg} {s s' : St} {info : OpInfo} {ev : List Event} {evs : List Event}
    (I : InvR c s evs) (wf' : St.WF c s') (h : Eff2 c s info s' ev) : InvR c s' (evs ++ ev) := by
  cases h with
  | noop h1 h2 => subst h1 h2; simpa using I
  | xfer frm to cur amt b1 hi hb hbal ong pas fai hev =>
    subst hev
    refine ⟨wf', fun n => by rw [refundCount_append]; simpa using I.once n, ?_⟩
    intro n hn
    rw [refundCount_append] at hn
    obtain ⟨hk, hp⟩ := I.wit n (by simpa using hn)
    exact ⟨by simpa [St.knows, ong, pas, fai] using hk, by rw [ong]; exact hp⟩
  | create typ owner n amt tt hi hOn hPa hFa hbal ong pas fai =>
    have hev0 : ∀ m, refundCount m ev = 0 := by
      intro m
      rcases hbal with ⟨_, _, rfl⟩ | ⟨_, rfl, _⟩ <;> simp
    refine ⟨wf', fun m => by rw [refundCount_append, hev0]; simpa using I.once m, ?_⟩
    intro m hm
    rw [refundCount_append, hev0] at hm
    obtain ⟨hk, hp⟩ := I.wit m (by simpa using hm)
    by_cases e : m = n
    · subst e
      refine ⟨by simp [St.knows, ong, has_upsert], ?_⟩
      intro u hu hty
      rw [ong] at hu; simp at hu; subst hu
      have hty' : typ = .redeem := hty
      have h3 := hFa (by rw [hty']; rfl)
      simp [St.knows, hOn, hPa, h3] at hk
    · refine ⟨?_, ?_⟩
      · simp only [St.knows, Bool.or_eq_true] at hk ⊢
        rcases hk with (hk | hk) | hk
        · exact Or.inl (Or.inl (by rw [ong, has_upsert]; simp [hk]))
        · exact Or.inl (Or.inr (by rw [pas]; exact hk))
        · refine Or.inr ?_
          rw [fai]; split
          · rw [has_aerase]; simp [e, hk]
          · exact hk
      · intro u hu
        rw [ong, alookup_upsert] at hu; simp [e] at hu
        exact hp u hu
  | rep n locker voter idx okv t t' X hi h =>
    have hon : ∀ m, has s'.ongoing m = has s.ongoing m := fun m => by
      rw [h.ong]; exact has_upsert_of_has _ _ _ _ h.hhas
    have hlookn : alookup n s'.ongoing = some X := by rw [h.ong]; simp
    -- a refunded name cannot be the name of this undecided redeem tracker
    have hnot : refundCount n evs = 1 → t.typ ≠ .redeem := by
      intro hc1 hty
      have := (I.wit n hc1).2 t h.vs.hget hty
      rw [h.vs.hnx] at this; cases this
    have hkeep : ∀ m, refundCount m evs = 1 →
        s'.knows m = true ∧ ∀ u, alookup m s'.ongoing = some u → u.typ = .redeem → u.failedV = true := by
      intro m hm
      obtain ⟨hk, hp⟩ := I.wit m hm
      refine ⟨by simpa [St.knows, hon, h.pas, h.fai] using hk, ?_⟩
      intro u hu hty
      by_cases e : m = n
      · subst e
        rw [hlookn] at hu; cases hu
        exact absurd (h.xtyp ▸ hty) (hnot hm)
      · rw [h.ong, alookup_upsert] at hu; simp [e] at hu
        exact hp u hu hty
    rcases h.kind with ⟨rfl, _⟩ | ⟨rfl, _⟩ | ⟨rfl, hf, hx, hty, _⟩
    · exact ⟨wf', by simpa using I.once, by simpa using hkeep⟩
    · refine ⟨wf', fun m => by rw [refundCount_append]; simpa using I.once m, ?_⟩
      intro m hm; rw [refundCount_append] at hm; exact hkeep m (by simpa using hm)
    · have h0 : refundCount n evs = 0 := by
        have := I.once n
        rcases Nat.lt_or_ge (refundCount n evs) 1 with hlt | hge
        · omega
        · exact absurd hty (hnot (by omega))
      refine ⟨wf', ?_, ?_⟩
      · intro m
        rw [refundCount_append]
        by_cases e : n = m
        · subst e; simp [h0]
        · simp [e]; exact I.once m
      · intro m hm
        rw [refundCount_append] at hm
        by_cases e : n = m
        · subst e
          refine ⟨by simp [St.knows, hon, h.hhas], ?_⟩
          intro u hu _
          rw [hlookn] at hu; cases hu
          rw [h.xfail]; exact hx
        · exact hkeep m (by simpa [e] using hm)

theorem invR_effEnd {c : Cfg} {s s' : St} {n : Name} {evs : List Event}
    (I : InvR c s evs) (h : EffEnd s n s') : InvR c s' evs := by
  have wf' := wf_effEnd I.wf h
  cases h with
  | none => exact I
  | save t st' hget hst hst' hfin =>
    have tok := I.wf n t hget
    refine invR_upd I wf' n { t with state := st' } (has_of_alookup hget) ?_ rfl rfl ?_
    · show upsert s.ongoing t.name _ = upsert s.ongoing n _
      rw [tok.name]
    · intro u hu hp hty
      rw [hget] at hu; cases hu; exact hp hty
  | toPassed t hget hst =>
    have hh := has_of_alookup hget
    refine ⟨wf', I.once, ?_⟩
    intro m hm
    obtain ⟨hk, hp⟩ := I.wit m hm
    by_cases e : m = n
    · subst e
      exact ⟨by simp [St.knows, has_upsert], fun u hu => by simp only [] at hu; rw [alookup_aerase] at hu; simp at hu⟩
    · refine ⟨?_, fun u hu => ?_⟩
      · simpa [St.knows, has_aerase, has_upsert, e] using hk
      · simp only [] at hu; rw [alookup_aerase] at hu; simp [e] at hu; exact hp u hu
  | toFailed t hget hst =>
    have hh := has_of_alookup hget
    refine ⟨wf', I.once, ?_⟩
    intro m hm
    obtain ⟨hk, hp⟩ := I.wit m hm
    by_cases e : m = n
    · subst e
      exact ⟨by simp [St.knows, has_upsert], fun u hu => by simp only [] at hu; rw [alookup_aerase] at hu; simp at hu⟩
    · refine ⟨?_, fun u hu => ?_⟩
      · simpa [St.knows, has_aerase, has_upsert, e] using hk
      · simp only [] at hu; rw [alookup_aerase] at hu; simp [e] at hu; exact hp u hu

theorem invR_endNames {c : Cfg} (ns : List Name) {s s' : St} {evs : List Event}
    (I : InvR c s evs) (h : endNames s ns = some s') : InvR c s' evs := by
  induction ns generalizing s with
  | nil => simp [endNames] at h; exact h ▸ I
  | cons n ns ih =>
    unfold endNames at h
    split at h
    · cases h
    · rename_i s1 h1
      exact ih (invR_effEnd I (endOne_eff h1)) h

theorem invR_step {c : Cfg} (hc : c.WF) {s : St} {evs : List Event} (I : InvR c s evs) (op : Op) :
    InvR c (step c s op).st (evs ++ (step c s op).ev) := by
  by_cases hop : ∃ ns, op = .endBlock ns
  · obtain ⟨ns, rfl⟩ := hop
    simp only [step]
    split
    · simpa using I
    · rename_i s' h; simpa using invR_endNames _ I h
  · have he := step_eff c s op (fun ns e => hop ⟨ns, e⟩)
    exact invR_eff2 I (wf_eff hc I.wf he) (eff2_of_eff hc I.wf he)

theorem run_invR {c : Cfg} (hc : c.WF) (ops : List Op) : ∀ (s : St) (evs : List Event),
    InvR c s evs → InvR c (run c s ops).1 (evs ++ (run c s ops).2) := by
  induction ops with
  | nil => intro s evs I; simpa [run] using I
  | cons op ops ih =>
    intro s evs I
    have := ih _ _ (invR_step hc I op)
    simpa [run, List.append_assoc] using this

theorem invR_empty (c : Cfg) : InvR c St.empty [] := ⟨wf_empty c, by simp, by simp⟩

end OLP.Eth

namespace OLP.Eth
open OLP

/-! ## the supply counter equals the wrapped tokens in circulation -/

/-- sum of the balances of currency `cur` over every address except the supply address -/
def circ (sup : Addr) (cur : Nat) : Bal → Int
  | [] => 0
  | ((a, c), v) :: t => (if c = cur ∧ a ≠ sup then v else 0) + circ sup cur t

def OpInfo.avoids (sup : Addr) : OpInfo → Bool
  | .sub _ o _ _ => decide (o ≠ sup)
  | .rep _ _ _ _ _ => true          -- the report's Locker field is no longer read
  | .xf f t => decide (f ≠ sup) && decide (t ≠ sup)
  | .other => true

/-- no submitter, sender or receiver is the supply address itself (it is not a key-derived address:
    nobody can sign for it, and SEND's validation refuses it) -/
def Op.avoids (sup : Addr) (op : Op) : Bool := op.info.avoids sup

def weight (sup : Addr) (cur : Nat) (k : Addr × Nat) (x : Int) : Int := if k.2 = cur ∧ k.1 ≠ sup then x else 0

theorem circ_upsert (sup : Addr) (cur : Nat) (b : Bal) (k : Addr × Nat) (v : Int) :
    circ sup cur (upsert b k v) = circ sup cur b - weight sup cur k ((alookup k b).getD 0) + weight sup cur k v := by
  induction b with
  | nil => obtain ⟨a, c⟩ := k; simp [upsert, circ, alookup, weight]
  | cons hd tl ih =>
    obtain ⟨⟨a, c⟩, x⟩ := hd
    obtain ⟨ka, kc⟩ := k
    by_cases e : (a, c) = (ka, kc)
    · cases e
      simp only [upsert, if_true, circ, alookup, Option.getD_some, weight]
      omega
    · simp only [upsert, e, if_false, circ, alookup, ih]
      omega

theorem balGet_upsert (b : Bal) (k : Addr × Nat) (v : Int) (a : Addr) (c : Nat) :
    balGet (upsert b k v) a c = if (a, c) = k then v else balGet b a c := by
  unfold balGet; rw [alookup_upsert]; split <;> simp

theorem circ_balAdd (sup : Addr) (cur : Nat) (b : Bal) (a : Addr) (c : Nat) (x : Int) :
    circ sup cur (balAdd b a c x) = circ sup cur b + (if c = cur ∧ a ≠ sup then x else 0) := by
  unfold balAdd; rw [circ_upsert]
  simp only [weight, balGet]
  split <;> omega

theorem balGet_balAdd (b : Bal) (a : Addr) (c : Nat) (x : Int) (a' : Addr) (c' : Nat) :
    balGet (balAdd b a c x) a' c' = balGet b a' c' + (if (a', c') = (a, c) then x else 0) := by
  unfold balAdd; rw [balGet_upsert]
  split
  · rename_i e; cases e; simp
  · simp

theorem balSub_eq_balAdd {b b' : Bal} {a : Addr} {c : Nat} {x : Int} (h : balSub b a c x = some b') :
    b' = balAdd b a c (-x) := by
  unfold balSub at h
  split at h
  · cases h
  · cases h; unfold balAdd; congr 1

theorem nodup_balAdd (b : Bal) (a : Addr) (c : Nat) (x : Int) (h : (akeys b).Nodup) : (akeys (balAdd b a c x)).Nodup :=
  nodup_akeys_upsert _ _ _ h

/-- the discrepancy between the counter and the circulation -/
def gap (sup : Addr) (cur : Nat) (b : Bal) : Int := balGet b sup cur - circ sup cur b

theorem gap_balAdd_other (sup : Addr) (cur : Nat) (b : Bal) (a : Addr) (c : Nat) (x : Int) (ha : a ≠ sup) :
    gap sup cur (balAdd b a c x) = gap sup cur b - (if c = cur then x else 0) := by
  unfold gap
  rw [circ_balAdd, balGet_balAdd]
  have : ¬ ((sup, cur) = (a, c)) := fun e => ha (by cases e; rfl)
  simp only [this, if_false, ha, ne_eq, not_false_eq_true, and_true]
  split <;> omega

theorem gap_balAdd_sup (sup : Addr) (cur : Nat) (b : Bal) (c : Nat) (x : Int) :
    gap sup cur (balAdd b sup c x) = gap sup cur b + (if c = cur then x else 0) := by
  unfold gap
  rw [circ_balAdd, balGet_balAdd]
  by_cases e : c = cur
  · subst e; simp; omega
  · have : ¬ ((sup, cur) = (sup, c)) := fun h => e (by cases h; rfl)
    simp [e, this]

structure InvS (c : Cfg) (s : St) : Prop where
  wf : St.WF c s
  nodup : (akeys s.bal).Nodup
  eq : ∀ cur, gap c.supply cur s.bal = 0
  own : ∀ n t, alookup n s.ongoing = some t → t.owner ≠ c.supply

theorem invS_eff2 {c : Cfg} {s s' : St} {info : OpInfo} {ev : List Event}
    (I : InvS c s) (wf' : St.WF c s') (h : Eff2 c s info s' ev) (hav : info.avoids c.supply = true) :
    InvS c s' := by
  cases h with
  | noop h1 h2 => subst h1; exact I
  | xfer frm to cur amt b1 hi hb hbal ong pas fai hev =>
    subst hi
    simp only [OpInfo.avoids, Bool.and_eq_true, decide_eq_true_eq] at hav
    have e1 := balSub_eq_balAdd hb
    refine ⟨wf', ?_, ?_, by rw [ong]; exact I.own⟩
    · rw [hbal, e1]; exact nodup_balAdd _ _ _ _ (nodup_balAdd _ _ _ _ I.nodup)
    · intro cu
      rw [hbal, e1, gap_balAdd_other _ _ _ _ _ _ hav.2, gap_balAdd_other _ _ _ _ _ _ hav.1, I.eq cu]
      split <;> omega
  | create typ owner n amt tt hi hOn hPa hFa hbal ong pas fai =>
    subst hi
    simp only [OpInfo.avoids, decide_eq_true_eq] at hav
    have hown : ∀ m u, alookup m s'.ongoing = some u → u.owner ≠ c.supply := by
      intro m u hu
      rw [ong, alookup_upsert] at hu
      split at hu
      · cases hu; exact hav
      · exact I.own m u hu
    rcases hbal with ⟨_, hb, _⟩ | ⟨_, _, b1, hb1, hb2⟩
    · exact ⟨wf', by rw [hb]; exact I.nodup, by rw [hb]; exact I.eq, hown⟩
    · have e1 := balSub_eq_balAdd hb1
      have e2 := balSub_eq_balAdd hb2
      refine ⟨wf', ?_, ?_, hown⟩
      · rw [e2, e1]; exact nodup_balAdd _ _ _ _ (nodup_balAdd _ _ _ _ I.nodup)
      · intro cu
        rw [e2, e1, gap_balAdd_sup, gap_balAdd_other _ _ _ _ _ _ hav, I.eq cu]
        split <;> omega
  | rep n locker voter idx okv t t' X hi h =>
    have hav : t.owner ≠ c.supply := I.own n t h.vs.hget
    have hown : ∀ m u, alookup m s'.ongoing = some u → u.owner ≠ c.supply := by
      intro m u hu
      rw [h.ong, alookup_upsert] at hu
      split at hu
      · cases hu; rw [h.xowner]; exact I.own n t h.vs.hget
      · exact I.own m u hu
    rcases h.kind with ⟨_, hb⟩ | ⟨_, _, _, hb⟩ | ⟨_, _, _, _, _, hb⟩
    · exact ⟨wf', by rw [hb]; exact I.nodup, by rw [hb]; exact I.eq, hown⟩
    · refine ⟨wf', ?_, ?_, hown⟩
      · rw [hb]; exact nodup_balAdd _ _ _ _ (nodup_balAdd _ _ _ _ I.nodup)
      · intro cu
        rw [hb, gap_balAdd_sup, gap_balAdd_other _ _ _ _ _ _ hav, I.eq cu]
        split <;> omega
    · have hto := I.own n t h.vs.hget
      refine ⟨wf', ?_, ?_, hown⟩
      · rw [hb]; exact nodup_balAdd _ _ _ _ (nodup_balAdd _ _ _ _ I.nodup)
      · intro cu
        rw [hb, gap_balAdd_sup, gap_balAdd_other _ _ _ _ _ _ hto, I.eq cu]
        split <;> omega

theorem invS_effEnd {c : Cfg} {s s' : St} {n : Name} (I : InvS c s) (h : EffEnd s n s') : InvS c s' := by
  have wf' := wf_effEnd I.wf h
  cases h with
  | none => exact I
  | save t st' hget hst hst' hfin =>
    refine ⟨wf', I.nodup, I.eq, ?_⟩
    intro m u hu
    simp only [setOngoing_ongoing] at hu
    rw [alookup_upsert] at hu
    split at hu
    · cases hu; exact I.own n t hget
    · exact I.own m u hu
  | toPassed t hget hst =>
    refine ⟨wf', I.nodup, I.eq, ?_⟩
    intro m u hu
    simp only [] at hu; rw [alookup_aerase] at hu
    split at hu
    · cases hu
    · exact I.own m u hu
  | toFailed t hget hst =>
    refine ⟨wf', I.nodup, I.eq, ?_⟩
    intro m u hu
    simp only [] at hu; rw [alookup_aerase] at hu
    split at hu
    · cases hu
    · exact I.own m u hu

theorem invS_endNames {c : Cfg} (ns : List Name) {s s' : St}
    (I : InvS c s) (h : endNames s ns = some s') : InvS c s' := by
  induction ns generalizing s with
  | nil => simp [endNames] at h; exact h ▸ I
  | cons n ns ih =>
    unfold endNames at h
    split at h
    · cases h
    · rename_i s1 h1
      exact ih (invS_effEnd I (endOne_eff h1)) h

theorem invS_step {c : Cfg} (hc : c.WF) {s : St} (I : InvS c s) (op : Op) (hav : op.avoids c.supply = true) :
    InvS c (step c s op).st := by
  by_cases hop : ∃ ns, op = .endBlock ns
  · obtain ⟨ns, rfl⟩ := hop
    simp only [step]
    split
    · exact I
    · rename_i s' h; exact invS_endNames _ I h
  · have he := step_eff c s op (fun ns e => hop ⟨ns, e⟩)
    exact invS_eff2 I (wf_eff hc I.wf he) (eff2_of_eff hc I.wf he) hav

theorem run_invS {c : Cfg} (hc : c.WF) (ops : List Op) : ∀ (s : St),
    InvS c s → (∀ op ∈ ops, op.avoids c.supply = true) → InvS c (run c s ops).1 := by
  induction ops with
  | nil => intro s I _; simpa [run] using I
  | cons op ops ih =>
    intro s I hav
    have := ih _ (invS_step hc I op (hav op (by simp))) (fun o ho => hav o (by simp [ho]))
    simpa [run] using this

theorem invS_empty (c : Cfg) : InvS c St.empty :=
  ⟨wf_empty c, by simp [St.empty, akeys], by intro cu; simp [gap, St.empty, balGet, circ], by simp [St.empty]⟩

end OLP.Eth

namespace OLP.Eth
open OLP

/-! ## every counted vote, every mint and every refund is justified by the history -/

/-- the witnesses whose slot holds the value `v` -/
def slotWits (v : Nat) : List Addr → List Nat → List Addr
  | w :: ws, x :: xs => if x = v then w :: slotWits v ws xs else slotWits v ws xs
  | _, _ => []

theorem slotWits_length (v : Nat) (ws : List Addr) (xs : List Nat) (h : xs.length = ws.length) :
    (slotWits v ws xs).length = countVotes v xs := by
  induction ws generalizing xs with
  | nil => cases xs with
    | nil => rfl
    | cons x xs => simp at h
  | cons w ws ih =>
    cases xs with
    | nil => simp at h
    | cons x xs =>
      simp only [List.length_cons, Nat.add_right_cancel_iff] at h
      simp only [slotWits, countVotes]
      split
      · simp [ih xs h]; omega
      · simp [ih xs h]

theorem slotWits_sublist (v : Nat) (ws : List Addr) (xs : List Nat) : (slotWits v ws xs).Sublist ws := by
  induction ws generalizing xs with
  | nil => cases xs <;> simp [slotWits]
  | cons w ws ih =>
    cases xs with
    | nil => simp [slotWits]
    | cons x xs =>
      simp only [slotWits]
      split
      · exact (ih xs).cons_cons w
      · exact (ih xs).cons w

theorem slotWits_mem {v : Nat} {ws : List Addr} {xs : List Nat} {w : Addr} (h : w ∈ slotWits v ws xs) :
    ∃ j : Nat, ws[j]? = some w ∧ xs[j]? = some v := by
  induction ws generalizing xs with
  | nil => cases xs <;> simp [slotWits] at h
  | cons w0 ws ih =>
    cases xs with
    | nil => simp [slotWits] at h
    | cons x xs =>
      simp only [slotWits] at h
      split at h
      · rename_i hx
        rcases List.mem_cons.mp h with e | h'
        · exact ⟨0, by simp [e], by simp [hx]⟩
        · obtain ⟨j, h1, h2⟩ := ih h'
          exact ⟨j + 1, by simpa using h1, by simpa using h2⟩
      · obtain ⟨j, h1, h2⟩ := ih h
        exact ⟨j + 1, by simpa using h1, by simpa using h2⟩

/-- more than two thirds of the recorded witnesses, pairwise different, each sent a report with
    verdict `ok` for the tracker `n` -/
def TwoThirds (c : Cfg) (done : List Op) (n : Name) (ok : Bool) : Prop :=
  ∃ ws : List Addr, ws.Nodup ∧ (∀ w ∈ ws, w ∈ c.witnesses ∧ ∃ l i, Op.report n l w i ok ∈ done) ∧
    2 * c.witnesses.length < 3 * ws.length

/-- a mint is justified: two thirds reported success, and a lock submission of this external
    transaction by the beneficiary itself carries exactly the minted amount in that currency -/
def MintOK (c : Cfg) (done : List Op) (n : Name) (to : Addr) (cur amt : Nat) : Prop :=
  TwoThirds c done n true ∧
  (∃ op ∈ done, ∃ typ, op.info = .sub typ to n amt ∧ typ.isLock = true ∧ typ.cur = cur)

/-- a refund is justified: two thirds reported failure and it pays the submitter of an ETH redeem of
    this external transaction exactly the redeemed amount -/
def RefundOK (c : Cfg) (done : List Op) (n : Name) (to : Addr) (cur amt : Nat) : Prop :=
  TwoThirds c done n false ∧ (∃ op ∈ done, op.info = .sub .redeem to n amt) ∧ cur = 0

theorem TwoThirds.mono {c : Cfg} {done done' : List Op} {n : Name} {ok : Bool} (hs : ∀ o ∈ done, o ∈ done')
    (h : TwoThirds c done n ok) : TwoThirds c done' n ok := by
  obtain ⟨ws, h1, h2, h3⟩ := h
  exact ⟨ws, h1, fun w hw => ⟨(h2 w hw).1, by obtain ⟨l, i, hm⟩ := (h2 w hw).2; exact ⟨l, i, hs _ hm⟩⟩, h3⟩

theorem MintOK.mono {c : Cfg} {done done' : List Op} {n : Name} {to : Addr} {cur amt : Nat}
    (hs : ∀ o ∈ done, o ∈ done') (h : MintOK c done n to cur amt) : MintOK c done' n to cur amt := by
  obtain ⟨h1, ⟨op, hop, h2⟩⟩ := h
  exact ⟨h1.mono hs, ⟨op, hs _ hop, h2⟩⟩

theorem RefundOK.mono {c : Cfg} {done done' : List Op} {n : Name} {to : Addr} {cur amt : Nat}
    (hs : ∀ o ∈ done, o ∈ done') (h : RefundOK c done n to cur amt) : RefundOK c done' n to cur amt := by
  obtain ⟨h1, ⟨op, hop, h2⟩, h3⟩ := h
  exact ⟨h1.mono hs, ⟨op, hs _ hop, h2⟩, h3⟩

/-- every non-empty slot of the record was filled by a report of the witness it belongs to -/
@[reducible] def Backed (done : List Op) (n : Name) (t : Tracker) : Prop :=
  ∀ (j : Nat) (v : Nat), t.votes[j]? = some v → v ≠ 0 →
    ∃ l w ok, t.witnesses[j]? = some w ∧ v = (if ok then 1 else 2) ∧ Op.report n l w (j : Int) ok ∈ done

structure InvH (c : Cfg) (s : St) (done : List Op) (evs : List Event) : Prop where
  wf : St.WF c s
  backed : ∀ n t, alookup n s.ongoing = some t → Backed done n t
  origin : ∀ n t, alookup n s.ongoing = some t → ∃ op ∈ done, op.info = .sub t.typ t.owner n t.amount
  mints : ∀ n to cur amt, Event.mint n to cur amt ∈ evs → MintOK c done n to cur amt
  refunds : ∀ n to cur amt, Event.refund n to cur amt ∈ evs → RefundOK c done n to cur amt

/-- from a decided record whose slots are backed: two thirds reported that verdict -/
theorem twoThirds_of_backed {c : Cfg} (hc : c.WF) {done : List Op} {n : Name} {X : Tracker} (ok : Bool)
    (hw : X.witnesses = c.witnesses) (hl : X.votes.length = X.witnesses.length) (hb : Backed done n X)
    (hcount : X.threshold ≤ countVotes (if ok then 1 else 2) X.votes) : TwoThirds c done n ok := by
  refine ⟨slotWits (if ok then 1 else 2) X.witnesses X.votes, ?_, ?_, ?_⟩
  · exact (slotWits_sublist _ _ _).nodup (hw ▸ hc.nodup)
  · intro w hwm
    obtain ⟨j, h1, h2⟩ := slotWits_mem hwm
    have hv0 : (if ok then 1 else 2) ≠ 0 := by cases ok <;> simp
    obtain ⟨l, w', ok', h3, h4, h5⟩ := hb j _ h2 hv0
    rw [h1] at h3; cases h3
    have : ok' = ok := by cases ok <;> cases ok' <;> simp_all
    subst this
    exact ⟨hw ▸ List.mem_of_getElem? h1, l, j, h5⟩
  · rw [slotWits_length _ _ _ hl]
    have := (threshold_more_than_two_thirds X).1
    rw [hw] at this
    omega

theorem invH_eff2 {c : Cfg} {s s' : St} {info : OpInfo} {ev : List Event} {done done' : List Op} {evs : List Event}
    (hc : c.WF) (I : InvH c s done evs) (wf' : St.WF c s') (h : Eff2 c s info s' ev)
    (hs : ∀ o ∈ done, o ∈ done') (hcur : ∃ op ∈ done', op.info = info)
    (hrep : ∀ n l v i ok, info = .rep n l v i ok → Op.report n l v i ok ∈ done') :
    InvH c s' done' (evs ++ ev) := by
  have hbmono : ∀ n t, Backed done n t → Backed done' n t := by
    intro n t hb j v h1 h2
    obtain ⟨l, w, ok, h3, h4, h5⟩ := hb j v h1 h2
    exact ⟨l, w, ok, h3, h4, hs _ h5⟩
  have homono : ∀ n (t : Tracker), (∃ op ∈ done, op.info = .sub t.typ t.owner n t.amount) →
      ∃ op ∈ done', op.info = .sub t.typ t.owner n t.amount := fun n t ⟨op, h1, h2⟩ => ⟨op, hs _ h1, h2⟩
  have hold : InvH c s done' evs :=
    ⟨I.wf, fun n t h => hbmono n t (I.backed n t h), fun n t h => homono n t (I.origin n t h),
     fun n to cur amt h => (I.mints n to cur amt h).mono hs, fun n to cur amt h => (I.refunds n to cur amt h).mono hs⟩
  cases h with
  | noop h1 h2 => subst h1 h2; simpa using hold
  | xfer frm to cur amt b1 hi hb hbal ong pas fai hev =>
    subst hev
    refine ⟨wf', by rw [ong]; exact hold.backed, by rw [ong]; exact hold.origin, ?_, ?_⟩
    · intro n to' cur' amt' hm; simp at hm; exact hold.mints _ _ _ _ hm
    · intro n to' cur' amt' hm; simp at hm; exact hold.refunds _ _ _ _ hm
  | create typ owner n amt tt hi hOn hPa hFa hbal ong pas fai =>
    have hevm : ∀ e ∈ ev, ∀ n' to' cur' amt', e ≠ .mint n' to' cur' amt' ∧ e ≠ .refund n' to' cur' amt' := by
      intro e he
      rcases hbal with ⟨_, _, rfl⟩ | ⟨_, rfl, _⟩
      · simp at he
      · simp at he; subst he; intros; simp
    refine ⟨wf', ?_, ?_, ?_, ?_⟩
    · intro m u hu
      rw [ong, alookup_upsert] at hu
      split at hu
      · cases hu
        intro j v h1 h2
        simp only [newTracker] at h1
        have := List.mem_of_getElem? h1
        simp at this; exact absurd this.2 h2
      · exact hold.backed m u hu
    · intro m u hu
      rw [ong, alookup_upsert] at hu
      split at hu
      · rename_i e; cases hu
        obtain ⟨op, h1, h2⟩ := hcur
        exact ⟨op, h1, by rw [h2, hi, e]; rfl⟩
      · exact hold.origin m u hu
    · intro n' to' cur' amt' hm
      rcases List.mem_append.mp hm with hm | hm
      · exact hold.mints _ _ _ _ hm
      · exact absurd rfl (hevm _ hm n' to' cur' amt').1
    · intro n' to' cur' amt' hm
      rcases List.mem_append.mp hm with hm | hm
      · exact hold.refunds _ _ _ _ hm
      · exact absurd rfl (hevm _ hm n' to' cur' amt').2
  | rep n locker voter idx okv t t' X hi h =>
    have hthis := hrep n locker voter idx okv hi
    -- the new record's slots are backed
    have hbX : Backed done' n X := by
      intro j v h1 h2
      rw [h.xvotes] at h1
      rw [h.xwits]
      rcases addVote_ok_cases h.twf h.vs.hv with e | ⟨i, hidx, hw, hv0, e⟩
      · rw [e] at h1; exact hold.backed n t h.vs.hget j v h1 h2
      · rw [e] at h1
        simp only at h1
        by_cases eji : j = i
        · subst eji
          have hlt : j < t.votes.length := (List.getElem?_eq_some_iff.mp hv0).1
          rw [List.getElem?_set_self hlt] at h1
          cases h1
          exact ⟨locker, voter, okv, hw, rfl, by rw [← hidx]; exact hthis⟩
        · rw [List.getElem?_set_ne (fun x => eji x.symm)] at h1
          exact hold.backed n t h.vs.hget j v h1 h2
    have hback : ∀ m u, alookup m s'.ongoing = some u → Backed done' m u := by
      intro m u hu
      rw [h.ong, alookup_upsert] at hu
      split at hu
      · rename_i e; cases hu; exact e ▸ hbX
      · exact hold.backed m u hu
    have horig : ∀ m u, alookup m s'.ongoing = some u → ∃ op ∈ done', op.info = .sub u.typ u.owner m u.amount := by
      intro m u hu
      rw [h.ong, alookup_upsert] at hu
      split at hu
      · rename_i e; cases hu
        rw [h.xtyp, h.xowner, h.xamount, e]; exact hold.origin n t h.vs.hget
      · exact hold.origin m u hu
    have hXw : X.witnesses = c.witnesses := by rw [h.xwits]; exact h.tok.wits
    have hXl : X.votes.length = X.witnesses.length := by
      rw [h.xvotes, h.xwits, ← h.twits]; exact (addVote_ok_frame h.twf h.vs.hv).1.len
    have hcnt := addVote_ok_counts h.twf h.vs.hv
    rcases h.kind with ⟨rfl, _⟩ | ⟨rfl, hf, hl, _⟩ | ⟨rfl, hf, hx, hty, _⟩
    · exact ⟨wf', hback, horig, by simpa using hold.mints, by simpa using hold.refunds⟩
    · refine ⟨wf', hback, horig, ?_, ?_⟩
      · intro n' to' cur' amt' hm
        rcases List.mem_append.mp hm with hm | hm
        · exact hold.mints _ _ _ _ hm
        · simp at hm
          obtain ⟨e1, e2, e3, e4⟩ := hm
          rw [e1, e2, e3, e4]
          have hXf : X.threshold ≤ countVotes 1 X.votes := by
            have := h.xfin; rw [hf] at this
            exact of_decide_eq_true this
          have hok : okv = true := by
            apply hcnt.2.2.2.2.1
            have h1 : t.yes < t.threshold := by
              have := h.vs.hnf; simpa [Tracker.finalized] using this
            have h2 : t'.threshold ≤ t'.yes := by simpa [Tracker.finalized] using hf
            rw [threshold_of_votes_frame h.twits] at h2
            omega
          subst hok
          refine ⟨twoThirds_of_backed hc true hXw hXl hbX (by simpa using hXf), ?_⟩
          obtain ⟨op, h1, h2⟩ := hold.origin n t h.vs.hget
          exact ⟨op, h1, t.typ, h2, hl, rfl⟩
      · intro n' to' cur' amt' hm
        rcases List.mem_append.mp hm with hm | hm
        · exact hold.refunds _ _ _ _ hm
        · simp at hm
    · refine ⟨wf', hback, horig, ?_, ?_⟩
      · intro n' to' cur' amt' hm
        rcases List.mem_append.mp hm with hm | hm
        · exact hold.mints _ _ _ _ hm
        · simp at hm
      · intro n' to' cur' amt' hm
        rcases List.mem_append.mp hm with hm | hm
        · exact hold.refunds _ _ _ _ hm
        · simp at hm
          obtain ⟨e1, e2, e3, e4⟩ := hm
          rw [e1, e2, e3, e4]
          have hXf : X.threshold ≤ countVotes 2 X.votes := by
            have := h.xfail; rw [hx] at this
            exact of_decide_eq_true this
          have hok : okv = false := by
            apply hcnt.2.2.2.2.2
            have h1 : t.no < t.threshold := by
              have := h.vs.hnx; simpa [Tracker.failedV] using this
            have h2 : t'.threshold ≤ t'.no := by simpa [Tracker.failedV] using hx
            rw [threshold_of_votes_frame h.twits] at h2
            omega
          subst hok
          refine ⟨twoThirds_of_backed hc false hXw hXl hbX (by simpa using hXf), ?_, rfl⟩
          obtain ⟨op, h1, h2⟩ := hold.origin n t h.vs.hget
          exact ⟨op, h1, by rw [h2, hty]⟩

theorem invH_effEnd {c : Cfg} {s s' : St} {n : Name} {done : List Op} {evs : List Event}
    (I : InvH c s done evs) (h : EffEnd s n s') : InvH c s' done evs := by
  have wf' := wf_effEnd I.wf h
  cases h with
  | none => exact I
  | save t st' hget hst hst' hfin =>
    have tok := I.wf n t hget
    refine ⟨wf', ?_, ?_, I.mints, I.refunds⟩
    · intro m u hu
      simp only [setOngoing_ongoing] at hu
      rw [alookup_upsert] at hu
      split at hu
      · rename_i e; cases hu
        have : m = n := by rw [e]; exact tok.name
        subst this; exact I.backed m t hget
      · exact I.backed m u hu
    · intro m u hu
      simp only [setOngoing_ongoing] at hu
      rw [alookup_upsert] at hu
      split at hu
      · rename_i e; cases hu
        have : m = n := by rw [e]; exact tok.name
        subst this; exact I.origin m t hget
      · exact I.origin m u hu
  | toPassed t hget hst =>
    refine ⟨wf', ?_, ?_, I.mints, I.refunds⟩
    · intro m u hu; simp only [] at hu; rw [alookup_aerase] at hu
      split at hu
      · cases hu
      · exact I.backed m u hu
    · intro m u hu; simp only [] at hu; rw [alookup_aerase] at hu
      split at hu
      · cases hu
      · exact I.origin m u hu
  | toFailed t hget hst =>
    refine ⟨wf', ?_, ?_, I.mints, I.refunds⟩
    · intro m u hu; simp only [] at hu; rw [alookup_aerase] at hu
      split at hu
      · cases hu
      · exact I.backed m u hu
    · intro m u hu; simp only [] at hu; rw [alookup_aerase] at hu
      split at hu
      · cases hu
      · exact I.origin m u hu

theorem invH_endNames {c : Cfg} (ns : List Name) {s s' : St} {done : List Op} {evs : List Event}
    (I : InvH c s done evs) (h : endNames s ns = some s') : InvH c s' done evs := by
  induction ns generalizing s with
  | nil => simp [endNames] at h; exact h ▸ I
  | cons n ns ih =>
    unfold endNames at h
    split at h
    · cases h
    · rename_i s1 h1
      exact ih (invH_effEnd I (endOne_eff h1)) h

theorem InvH.mono {c : Cfg} {s : St} {done done' : List Op} {evs : List Event} (hs : ∀ o ∈ done, o ∈ done')
    (I : InvH c s done evs) : InvH c s done' evs :=
  ⟨I.wf,
   fun n t h j v h1 h2 => by
     obtain ⟨l, w, ok, h3, h4, h5⟩ := I.backed n t h j v h1 h2
     exact ⟨l, w, ok, h3, h4, hs _ h5⟩,
   fun n t h => by obtain ⟨op, h1, h2⟩ := I.origin n t h; exact ⟨op, hs _ h1, h2⟩,
   fun n to cur amt h => (I.mints n to cur amt h).mono hs,
   fun n to cur amt h => (I.refunds n to cur amt h).mono hs⟩

theorem invH_step {c : Cfg} (hc : c.WF) {s : St} {done : List Op} {evs : List Event} (I : InvH c s done evs)
    (op : Op) : InvH c (step c s op).st (done ++ [op]) (evs ++ (step c s op).ev) := by
  have hs : ∀ o ∈ done, o ∈ done ++ [op] := fun o ho => by simp [ho]
  by_cases hop : ∃ ns, op = .endBlock ns
  · obtain ⟨ns, rfl⟩ := hop
    simp only [step]
    split
    · simpa using I.mono hs
    · rename_i s' h; simpa using invH_endNames _ (I.mono hs) h
  · have he := step_eff c s op (fun ns e => hop ⟨ns, e⟩)
    refine invH_eff2 hc I (wf_eff hc I.wf he) (eff2_of_eff hc I.wf he) hs ⟨op, by simp, rfl⟩ ?_
    intro n l v i ok hi
    cases op <;> simp [Op.info] at hi
    obtain ⟨rfl, rfl, rfl, rfl, rfl⟩ := hi
    simp

theorem run_invH {c : Cfg} (hc : c.WF) (ops : List Op) : ∀ (s : St) (done : List Op) (evs : List Event),
    InvH c s done evs → InvH c (run c s ops).1 (done ++ ops) (evs ++ (run c s ops).2) := by
  induction ops with
  | nil => intro s done evs I; simpa [run] using I
  | cons op ops ih =>
    intro s done evs I
    have := ih _ _ _ (invH_step hc I op)
    simpa [run, List.append_assoc] using this

theorem invH_empty (c : Cfg) : InvH c St.empty [] [] :=
  ⟨wf_empty c, by simp [St.empty], by simp [St.empty], by simp, by simp⟩

end OLP.Eth

namespace OLP.Eth
open OLP

/-! ## block end -/

theorem endOne_some {c : Cfg} {s : St} (wf : St.WF c s) {n : Name} (hn : has s.ongoing n = true) :
    ∃ s', endOne s n = some s' := by
  obtain ⟨t, ht⟩ := (has_eq_true_iff _ _).mp hn
  unfold endOne
  rw [ht]
  simp only
  rcases transition_cases t with h0 | ⟨_, hst⟩ | ⟨h0, _⟩ | ⟨h0, _⟩ | ⟨st', h0, _⟩
  · rw [h0]; exact ⟨_, rfl⟩
  · exact absurd hst (wf n t ht).nfin
  · rw [h0]; exact ⟨_, rfl⟩
  · rw [h0]; exact ⟨_, rfl⟩
  · rw [h0]; exact ⟨_, rfl⟩

theorem effEnd_has_other {s s' : St} {n m : Name} (h : EffEnd s n s') (e : m ≠ n) (hm : has s.ongoing m = true) :
    has s'.ongoing m = true := by
  cases h with
  | none => exact hm
  | save t st' hget _ _ _ => simp only [setOngoing_ongoing]; rw [has_upsert]; simp [hm]
  | toPassed t _ _ => simp only []; rw [has_aerase]; simp [e, hm]
  | toFailed t _ _ => simp only []; rw [has_aerase]; simp [e, hm]

theorem endNames_some {c : Cfg} (ns : List Name) : ∀ {s : St}, St.WF c s → ns.Nodup →
    (∀ n ∈ ns, has s.ongoing n = true) → ∃ s', endNames s ns = some s' := by
  induction ns with
  | nil => intro s _ _ _; exact ⟨s, rfl⟩
  | cons n ns ih =>
    intro s wf hnd hin
    obtain ⟨s1, h1⟩ := endOne_some wf (hin n (by simp))
    have hnd' := List.nodup_cons.mp hnd
    have e1 := endOne_eff h1
    obtain ⟨s2, h2⟩ := ih (wf_effEnd wf e1) hnd'.2
      (fun m hm => effEnd_has_other e1 (fun e => hnd'.1 (e ▸ hm)) (hin m (by simp [hm])))
    exact ⟨s2, by simp [endNames, h1, h2]⟩

theorem effEnd_bal {s s' : St} {n : Name} (h : EffEnd s n s') : s'.bal = s.bal := by
  cases h <;> rfl

theorem endNames_bal (ns : List Name) : ∀ {s s' : St}, endNames s ns = some s' → s'.bal = s.bal := by
  induction ns with
  | nil => intro s s' h; simp [endNames] at h; rw [h]
  | cons n ns ih =>
    intro s s' h
    unfold endNames at h
    split at h
    · cases h
    · rename_i s1 h1
      rw [ih h, effEnd_bal (endOne_eff h1)]

/-! ## example configuration and histories (used by the non-vacuity examples and counterexamples) -/

/-- three witnesses 11, 12, 13; supply address 99; caps 1000 -/
def exCfg : Cfg := { witnesses := [11, 12, 13], supply := 99, ethCap := 1000, tokCap := 1000 }

theorem exCfg_wf : exCfg.WF := ⟨by decide⟩

/-- account 1 locks 40 wei (external tx 7); the three witnesses report success naming account 1 -/
def exHonest : List Op :=
  [.lock false 0 1 7 40, .report 7 1 11 0 true, .report 7 1 12 1 true, .report 7 1 13 2 true, .endBlock [7]]

/-- as above, but the report that crosses the threshold names account 2 (harmless since 0a509b2) -/
def exLiar : List Op :=
  [.lock false 0 1 7 40, .report 7 1 11 0 true, .report 7 1 12 1 true, .report 7 2 13 2 true]

/-- an ERC20 lock (external tx 8, 30 tokens) is minted and archived; the resubmission is refused
    (before repair 9de5f06 it was accepted and minted again) -/
def exDoubleMint : List Op :=
  [.lock true 0 1 8 30, .report 8 1 11 0 true, .report 8 1 12 1 true, .report 8 1 13 2 true, .endBlock [8],
   .lock true 0 1 8 30, .report 8 1 11 0 true, .report 8 1 12 1 true, .report 8 1 13 2 true]

/-- an ETH redeem after a mint: debit, two of three witnesses report failure, refund -/
def exRefund : List Op :=
  exHonest ++ [.redeem false 0 false 1 9 25, .report 9 1 11 0 false, .report 9 1 12 1 false, .report 9 1 13 2 false,
    .endBlock [9]]

/-- ETH and ERC20 locks are minted to account 1; an ETH redeem (external tx 9) fails and is archived
    in the failed store; an ERC20 redeem carrying the same external transaction is refused (before
    repair efdfa81 runERC20Reddem did not consult the failed store and accepted it) -/
def exTwoRecords : List Op :=
  [.lock false 0 1 7 40, .report 7 1 11 0 true, .report 7 1 12 1 true, .report 7 1 13 2 true,
   .lock true 0 1 8 30, .report 8 1 11 0 true, .report 8 1 12 1 true, .report 8 1 13 2 true, .endBlock [7, 8],
   .redeem false 0 false 1 9 5, .report 9 1 11 0 false, .report 9 1 12 1 false, .report 9 1 13 2 false, .endBlock [9],
   .redeem true 0 false 1 9 5]

end OLP.Eth

namespace OLP.Eth
open OLP

/-! ## after the block end no visited tracker that was decided is left in the ongoing store -/

def Tracker.decided (t : Tracker) : Prop := t.state = .released ∨ t.state = .failed

theorem transition_released {t : Tracker} (h : t.state = .released) : transition t = .toPassed := by
  unfold transition; rw [h]

theorem transition_failed {t : Tracker} (h : t.state = .failed) : transition t = .toFailed := by
  unfold transition; rw [h]

theorem endOne_decided {c : Cfg} {s s1 : St} {n : Name} (wf : St.WF c s) (h : endOne s n = some s1) :
    ∀ m t, alookup m s1.ongoing = some t → t.decided → m ≠ n ∧ alookup m s.ongoing = some t := by
  intro m t hm hd
  unfold endOne at h
  split at h
  · cases h
  · rename_i t0 hget
    have hname := (wf n t0 hget).name
    rcases transition_cases t0 with h0 | ⟨h0, _⟩ | ⟨h0, _⟩ | ⟨h0, _⟩ | ⟨st', h0, _, h2, _⟩
    · rw [h0] at h; cases h
      refine ⟨?_, hm⟩
      intro e; subst e
      rw [hget] at hm; cases hm
      rcases hd with hd | hd
      · rw [transition_released hd] at h0; cases h0
      · rw [transition_failed hd] at h0; cases h0
    · rw [h0] at h; cases h
    · rw [h0] at h; cases h
      simp only [] at hm; rw [alookup_aerase] at hm
      split at hm
      · cases hm
      · rename_i e; exact ⟨e, hm⟩
    · rw [h0] at h; cases h
      simp only [] at hm; rw [alookup_aerase] at hm
      split at hm
      · cases hm
      · rename_i e; exact ⟨e, hm⟩
    · rw [h0] at h; cases h
      simp only [setOngoing_ongoing] at hm
      rw [show ({ t0 with state := st' } : Tracker).name = n from hname, alookup_upsert] at hm
      split at hm
      · cases hm
        rcases hd with hd | hd
        · exact absurd hd h2.1
        · exact absurd hd h2.2.1
      · rename_i e; exact ⟨e, hm⟩

theorem endNames_decided {c : Cfg} (ns : List Name) : ∀ {s s' : St}, St.WF c s → endNames s ns = some s' →
    ∀ m t, alookup m s'.ongoing = some t → t.decided → m ∉ ns ∧ alookup m s.ongoing = some t := by
  induction ns with
  | nil => intro s s' _ h m t hm _; simp [endNames] at h; subst h; exact ⟨by simp, hm⟩
  | cons n ns ih =>
    intro s s' wf h m t hm hd
    unfold endNames at h
    split at h
    · cases h
    · rename_i s1 h1
      obtain ⟨h2, h3⟩ := ih (wf_effEnd wf (endOne_eff h1)) h m t hm hd
      obtain ⟨h4, h5⟩ := endOne_decided wf h1 m t h3 hd
      exact ⟨by simp [h2, h4], h5⟩

end OLP.Eth

/-
  Layer D model of the Ethereum lock/redeem trackers (property C15).  Core-only.

  A statement-by-statement port of
    data/ethereum/tracker.go        NewTracker, AddVote, CheckIfVoted, GetVotes, Finalized, Failed, Clean, NextStep
    action/eth/ext_lock.go          runLock
    action/eth/ext_ERC20Lock.go     runERC20Lock
    action/eth/ext_redeem.go        runRedeem
    action/eth/ext_ERC20redeem.go   runERC20Reddem
    action/eth/check_finalty.go     runCheckFinality, mintTokens, mintERC20tokens, burnTokens, burnERC20Tokens,
                                    failedLock, refundTokens
    event/eth_lock_transitions.go   Broadcasting, Finalizing, Finalization, Cleanup, CleanupFailed
    event/eth_redeem_transitions.go Signing, VerifyRedeem, RedeemConfirmed, redeemCleanup, redeemCleanupFailed
    app/controller.go               doEthTransitions
    utils/transition/engine.go      Process
  over decoded records: addresses and tracker names are natural numbers (the big-endian value of
  the bytes), amounts are integers of the smallest unit, the signed external transaction kept in
  a tracker is abstracted to the amount the repo's parser reads from it (ParseLock / ParseRedeem /
  ParseErc20Lock / ParseERC20RedeemParams) and the currency it is booked in (0 = ETH, 1 = the
  ERC20 token).  The model is the code that exists (after the repairs 0a509b2: mint credits the
  tracker's ProcessOwner, 9de5f06: runERC20Lock has runLock's existence checks, efdfa81:
  runERC20Reddem consults all three stores like runRedeem, 11ae9db: malformed payloads are refused
  instead of panicking, 7ff9062: block-end transitions do not depend on the node's job store),
  including what still looks wrong:
    * a failing ERC20 tracker is never saved as failed (the crossing vote is dropped);
    * burnERC20Tokens looks the token up by `tx.To()` of the redeem transaction;
    * the supply-cap check happens at submission, not at mint.
  Where Go would panic the model returns `Res.panic` (negative VoteIndex, vote slice shorter than
  the witness list, a transition name that is not registered).
-/
import OLP.Base.Assoc

namespace OLP.Eth

abbrev Addr := Nat
abbrev Name := Nat

/-- data/ethereum/init.go ProcessType (ProcessTypeNone cannot be produced by any handler) -/
inductive PType
  | lock | redeem | lockERC | redeemERC
  deriving DecidableEq, Repr, Inhabited

def PType.isLock : PType → Bool
  | .lock | .lockERC => true
  | _ => false

/-- currency a tracker of this type is booked in: 0 = "ETH", 1 = the ERC20 token currency -/
def PType.cur : PType → Nat
  | .lock | .redeem => 0
  | _ => 1

/-- data/ethereum/init.go TrackerState (iota order) -/
inductive TState
  | new | busyBroadcasting | broadcastSuccess | busyFinalizing | finalized | released | failed
  deriving DecidableEq, Repr, Inhabited

def TState.toNat : TState → Nat
  | .new => 0 | .busyBroadcasting => 1 | .broadcastSuccess => 2 | .busyFinalizing => 3
  | .finalized => 4 | .released => 5 | .failed => 6

/-- data/ethereum/tracker.go Tracker; `amount` abstracts `SignedETHTx`, `To` is not modelled -/
structure Tracker where
  typ : PType
  state : TState
  name : Name
  owner : Addr            -- ProcessOwner
  amount : Nat
  toTok : Bool            -- `GetToken(TokenList, tx.To())` succeeds on the stored external transaction
  witnesses : List Addr   -- Witnesses
  votes : List Nat        -- FinalityVotes: 0 none, 1 yes, 2 no
  deriving DecidableEq, Repr, Inhabited

/-- NewTracker: state New, one empty vote slot per witness -/
def newTracker (typ : PType) (owner : Addr) (name : Name) (amount : Nat) (toTok : Bool) (ws : List Addr) : Tracker :=
  { typ := typ, state := .new, name := name, owner := owner, amount := amount, toTok := toTok, witnesses := ws,
    votes := List.replicate ws.length 0 }

/-- Tracker.Clean: only Type, State and TrackerName survive -/
def Tracker.clean (t : Tracker) : Tracker :=
  { typ := t.typ, state := t.state, name := t.name, owner := 0, amount := 0, toTok := false, witnesses := [], votes := [] }

/-- GetVotes -/
def countVotes (v : Nat) : List Nat → Nat
  | [] => 0
  | x :: xs => (if x = v then 1 else 0) + countVotes v xs

def Tracker.yes (t : Tracker) : Nat := countVotes 1 t.votes
def Tracker.no (t : Tracker) : Nat := countVotes 2 t.votes

/-- `num := (l * 2 / 3) + 1` of Finalized / Failed -/
def Tracker.threshold (t : Tracker) : Nat := t.witnesses.length * 2 / 3 + 1

def Tracker.finalized (t : Tracker) : Bool := decide (t.threshold ≤ t.yes)
def Tracker.failedV (t : Tracker) : Bool := decide (t.threshold ≤ t.no)

/-- index of the first witness equal to the address (the loop of CheckIfVoted) -/
def firstIdx : List Addr → Addr → Option Nat
  | [], _ => none
  | w :: ws, a => if w = a then some 0 else (firstIdx ws a).map (· + 1)

inductive VoteOut
  | ok (t : Tracker)
  | err            -- errTrackerInvalidVote
  | panic          -- index out of range
  deriving DecidableEq, Repr

/-- the tail of AddVote after the CheckIfVoted test: `if t.Witnesses[index].Equal(addr) { t.FinalityVotes[index] = … }` -/
def addVoteSet (t : Tracker) (addr : Addr) (idx : Int) (vote : Bool) : VoteOut :=
  if idx < 0 then .panic
  else
    match t.witnesses[idx.toNat]? with
    | none => .panic
    | some w =>
      if w = addr then
        (if idx.toNat < t.votes.length then
          .ok { t with votes := t.votes.set idx.toNat (if vote then 1 else 2) }
         else .panic)
      else .ok t

/-- AddVote(addr, index, vote) -/
def addVote (t : Tracker) (addr : Addr) (idx : Int) (vote : Bool) : VoteOut :=
  if (t.witnesses.length : Int) ≤ idx then .err
  else
    match firstIdx t.witnesses addr with
    | none => addVoteSet t addr idx vote
    | some i =>
      match t.votes[i]? with
      | none => .panic
      | some v => if v > 0 then .err else addVoteSet t addr idx vote

/-! ## State -/

abbrev Store := List (Name × Tracker)
abbrev Bal := List ((Addr × Nat) × Int)

structure St where
  ongoing : Store     -- etht_
  passed : Store      -- ethsuccess_
  failed : Store      -- ethfailed_
  bal : Bal           -- b_<addr>_<cur> for the wrapped currencies
  deriving Repr

def St.empty : St := { ongoing := [], passed := [], failed := [], bal := [] }

/-- what the handlers read from the governance store, the witness store and the currency table -/
structure Cfg where
  witnesses : List Addr    -- WitnessStore.GetWitnessAddresses(ETHEREUM): fixed at genesis
  supply : Addr            -- keys.Address(TotalSupplyAddr)
  ethCap : Int             -- TotalSupply
  tokCap : Int             -- TokTotalSupply of the token
  deriving Repr

def balGet (b : Bal) (a : Addr) (c : Nat) : Int := (alookup (a, c) b).getD 0

/-- Store.AddToAddress -/
def balAdd (b : Bal) (a : Addr) (c : Nat) (x : Int) : Bal := upsert b (a, c) (balGet b a c + x)

/-- Store.MinusFromAddress: refuses to go below zero -/
def balSub (b : Bal) (a : Addr) (c : Nat) (x : Int) : Option Bal :=
  if balGet b a c - x < 0 then none else some (upsert b (a, c) (balGet b a c - x))

def has (s : Store) (n : Name) : Bool := (alookup n s).isSome

/-! ## Operations and results -/

inductive Op
  /-- ETH_LOCK (`erc = false`) / ERC20_LOCK (`erc = true`) carrying an external transaction whose
      trailing 32 bytes are `name`; `pre` says how the payload is built: 0 well formed,
      1 not RLP-decodable, 2 wrong call data (ETH) / token not listed (ERC20),
      3 wrong contract address (ETH) / transfer receiver is not the ERC contract (ERC20) -/
  | lock (erc : Bool) (pre : Nat) (locker : Addr) (name : Name) (amount : Nat)
  /-- ETH_REDEEM / ERC20_REDEEM; `pre`: 0 well formed, 2 token not listed (ERC20), 9 selector missing
      (both refused);
      `toTok`: the external transaction is addressed to a listed token contract (only read when an
      ERC20 redeem is finalized: burnERC20Tokens looks the token up by `tx.To()`) -/
  | redeem (erc : Bool) (pre : Nat) (toTok : Bool) (owner : Addr) (name : Name) (amount : Nat)
  /-- ETH_REPORT_FINALITY_MINT -/
  | report (name : Name) (locker : Addr) (voter : Addr) (idx : Int) (ok : Bool)
  /-- SEND of a wrapped currency (the only other handler that moves it in the explored histories) -/
  | send (frm to : Addr) (cur : Nat) (amount : Nat)
  /-- doEthTransitions over the names the iteration of the ongoing store yields: State.IterateRange
      enumerates the keys of the committed tree (minus pending deletes), so `names` is chain state
      too; since 7ff9062 there is no node-local input (witness role, job store) any more -/
  | endBlock (names : List Name)
  deriving Repr

inductive Res
  | ok (branch : String)
  | fail (reason : String)   -- the handler returned false: the tx session is discarded
  | panic
  deriving DecidableEq, Repr

/-- ghost record of the value movements of a step (never read by the model) -/
inductive Event
  | mint (name : Name) (to : Addr) (cur : Nat) (amt : Nat)
  | refund (name : Name) (to : Addr) (cur : Nat) (amt : Nat)
  | debit (name : Name) (frm : Addr) (cur : Nat) (amt : Nat)
  | xfer (frm to : Addr) (cur : Nat) (amt : Nat)
  deriving DecidableEq, Repr

structure Out where
  st : St
  res : Res
  ev : List Event
  deriving Repr

def failOut (s : St) (r : String) : Out := ⟨s, .fail r, []⟩

/-- runLock -/
def lockEth (c : Cfg) (s : St) (pre : Nat) (locker : Addr) (name : Name) (amount : Nat) : Out :=
  if pre = 1 then failOut s "decode"
  else if pre = 2 then failOut s "calldata"
  else if pre ≠ 0 then failOut s "contract"
  else if ¬ (balGet s.bal c.supply 0 + (amount : Int) ≤ c.ethCap) then failOut s "cap"
  else if has s.ongoing name || has s.passed name then failOut s "exists"
  else
    let failed' := if has s.failed name then aerase s.failed name else s.failed
    ⟨{ s with failed := failed', ongoing := upsert s.ongoing name (newTracker .lock locker name amount false c.witnesses) },
      .ok "lock-created", []⟩

/-- runERC20Lock (same existence checks as runLock) -/
def lockErc (c : Cfg) (s : St) (pre : Nat) (locker : Addr) (name : Name) (amount : Nat) : Out :=
  if pre = 1 then failOut s "decode"
  else if pre = 2 then failOut s "token"
  else if pre ≠ 0 then failOut s "receiver"    -- the transfer's receiver is not the ERC contract
  else if ¬ (balGet s.bal c.supply 1 + (amount : Int) ≤ c.tokCap) then failOut s "cap"
  else if has s.ongoing name || has s.passed name then failOut s "exists"
  else
    let failed' := if has s.failed name then aerase s.failed name else s.failed
    ⟨{ s with failed := failed', ongoing := upsert s.ongoing name (newTracker .lockERC locker name amount true c.witnesses) },
      .ok "lockerc-created", []⟩

/-- runRedeem -/
def redeemEth (c : Cfg) (s : St) (pre : Nat) (owner : Addr) (name : Name) (amount : Nat) : Out :=
  if pre ≠ 0 then failOut s "parse"             -- ParseRedeem: selector missing / arguments incomplete
  else
    match balSub s.bal owner 0 amount with
    | none => failOut s "insufficient"
    | some b1 =>
      match balSub b1 c.supply 0 amount with
      | none => failOut s "insufficient-supply"
      | some b2 =>
        if has s.ongoing name || has s.failed name || has s.passed name then failOut s "exists"
        else
          ⟨{ s with bal := b2, ongoing := upsert s.ongoing name (newTracker .redeem owner name amount false c.witnesses) },
            .ok "redeem-created", [.debit name owner 0 amount]⟩

/-- runERC20Reddem (all three stores are consulted, as in runRedeem) -/
def redeemErc (c : Cfg) (s : St) (pre : Nat) (toTok : Bool) (owner : Addr) (name : Name) (amount : Nat) : Out :=
  if pre ≠ 0 then failOut s "token"             -- ParseERC20RedeemParams / ParseERC20RedeemToken fail
  else
    match balSub s.bal owner 1 amount with
    | none => failOut s "insufficient"
    | some b1 =>
      match balSub b1 c.supply 1 amount with
      | none => failOut s "insufficient-supply"
      | some b2 =>
        if has s.ongoing name || has s.failed name || has s.passed name then failOut s "exists"
        else
          ⟨{ s with bal := b2, ongoing := upsert s.ongoing name (newTracker .redeemERC owner name amount toTok c.witnesses) },
            .ok "redeemerc-created", [.debit name owner 1 amount]⟩

/-- `ctx.ETHTrackers.WithPrefixType(PrefixOngoing).Set(tracker)` -/
def setOngoing (s : St) (t : Tracker) : St := { s with ongoing := upsert s.ongoing t.name t }

/-- mintTokens / mintERC20tokens: credit the tracker's ProcessOwner (the report's `Locker` field is
    no longer read), then the supply address, then Released -/
def mint (c : Cfg) (s : St) (t : Tracker) : St :=
  let b1 := balAdd s.bal t.owner t.typ.cur t.amount
  let b2 := balAdd b1 c.supply t.typ.cur t.amount
  setOngoing { s with bal := b2 } { t with state := .released }

/-- refundTokens: Failed, then credit ProcessOwner and the supply address -/
def refund (c : Cfg) (s : St) (t : Tracker) : St :=
  let s1 := setOngoing s { t with state := .failed }
  let b1 := balAdd s1.bal t.owner 0 t.amount
  let b2 := balAdd b1 c.supply 0 t.amount
  { s1 with bal := b2 }

/-- runCheckFinality -/
def report (c : Cfg) (s : St) (name : Name) (_locker voter : Addr) (idx : Int) (okv : Bool) : Out :=
  match alookup name s.ongoing with
  | none => failOut s "no-tracker"
  | some t =>
    if t.finalized then ⟨s, .ok "already-finalized", []⟩
    else if t.failedV then ⟨s, .ok "already-failed", []⟩
    else
      match addVote t voter idx okv with
      | .err => failOut s "bad-vote"
      | .panic => ⟨s, .panic, []⟩
      | .ok t' =>
        if t'.finalized then
          match t'.typ with
          | .lock => ⟨mint c s t', .ok "minted", [.mint name t'.owner 0 t'.amount]⟩
          | .lockERC =>
            if t'.toTok then ⟨mint c s t', .ok "minted-erc", [.mint name t'.owner 1 t'.amount]⟩
            else failOut s "mint-failed"                 -- mintERC20tokens: GetToken fails
          | .redeem => ⟨setOngoing s { t' with state := .released }, .ok "burned", []⟩
          | .redeemERC =>
            if t'.toTok then ⟨setOngoing s { t' with state := .released }, .ok "burned-erc", []⟩
            else failOut s "burn-failed"                 -- burnERC20Tokens: GetToken fails, the vote is rolled back
        else if t'.failedV then
          match t'.typ with
          | .lock => ⟨setOngoing s { t' with state := .failed }, .ok "lock-failed", []⟩
          | .redeem => ⟨refund c s t', .ok "refunded", [.refund name t'.owner 0 t'.amount]⟩
          | _ => ⟨s, .ok "failed-unknown-type", []⟩      -- not saved: the crossing vote is lost
        else ⟨setOngoing s t', .ok "voted", []⟩

/-- transfer.runTx for a wrapped currency -/
def send (s : St) (frm to : Addr) (cur : Nat) (amount : Nat) : Out :=
  match balSub s.bal frm cur amount with
  | none => failOut s "insufficient"
  | some b1 => ⟨{ s with bal := balAdd b1 to cur amount }, .ok "sent", [.xfer frm to cur amount]⟩

/-! ## Block end -/

inductive TransOut
  | none                  -- NOOP, or the transition function changed nothing that is saved
  | save (t : Tracker)    -- `ts.WithPrefixType(PrefixOngoing).Set(ctx.Tracker)`
  | toPassed              -- Cleanup / redeemCleanup
  | toFailed              -- CleanupFailed / redeemCleanupFailed
  | panic                 -- "requested transition not registered"
  deriving DecidableEq, Repr

/-- `Engine.Process(t.NextStep(), ctx, t.State)` followed by the save rule of doEthTransitions
    (`ctx.Tracker.State < 5 && state != ctx.Tracker.State`).  Since 7ff9062 a missing job of the
    node-local job store no longer makes a transition function fail: the result is a function of
    the tracker record alone (witness role and job store only decide which off-chain jobs are
    scheduled, which is not chain state). -/
def transition (t : Tracker) : TransOut :=
  match t.typ.isLock, t.state with
  | _, .broadcastSuccess => .none                                     -- NextStep = NOOP
  | _, .finalized => .panic                                           -- MINTING / BURN are not registered
  | _, .released => .toPassed
  | _, .failed => .toFailed
  | _, .new => .save { t with state := .busyBroadcasting }            -- Broadcasting / Signing
  | true, .busyBroadcasting =>                                        -- Finalizing
    if t.yes + t.no > 0 then .save { t with state := .busyFinalizing } else .none
  | true, .busyFinalizing =>                                          -- Finalization
    if t.finalized then .save { t with state := .finalized } else .none
  | false, .busyBroadcasting => .none                                 -- VerifyRedeem
  | false, .busyFinalizing => .none                                   -- RedeemConfirmed

/-- one iteration of the loop in doEthTransitions; `none` = panic -/
def endOne (s : St) (name : Name) : Option St :=
  match alookup name s.ongoing with
  | none => none                       -- `t, _ := Get(name)`; `t.State` on a nil tracker
  | some t =>
    match transition t with
    | .none => some s
    | .panic => none
    | .save t' => some (setOngoing s t')
    | .toPassed => some { s with passed := upsert s.passed name t.clean, ongoing := aerase s.ongoing name }
    | .toFailed => some { s with failed := upsert s.failed name t.clean, ongoing := aerase s.ongoing name }

def endNames (s : St) : List Name → Option St
  | [] => some s
  | n :: ns =>
    match endOne s n with
    | none => none
    | some s' => endNames s' ns

def step (c : Cfg) (s : St) : Op → Out
  | .lock false pre l n a => lockEth c s pre l n a
  | .lock true pre l n a => lockErc c s pre l n a
  | .redeem false pre _ o n a => redeemEth c s pre o n a
  | .redeem true pre tt o n a => redeemErc c s pre tt o n a
  | .report n l v i ok => report c s n l v i ok
  | .send f t cur a => send s f t cur a
  | .endBlock ns =>
    match endNames s ns with
    | none => ⟨s, .panic, []⟩
    | some s' => ⟨s', .ok "end", []⟩

/-- run an operation list, collecting the events -/
def run (c : Cfg) : St → List Op → St × List Event
  | s, [] => (s, [])
  | s, op :: ops =>
    let o := step c s op
    let r := run c o.st ops
    (r.1, o.ev ++ r.2)

end OLP.Eth

/-
  Layer D — helper lemmas for the OLVM pipeline theorems (C17).
-/
import OLP.Olvm.Model
import OLP.Ledger.Lemmas

namespace OLP.Olvm
open OLP OLP.Ledger

/-! ## `putObj` / `peek` -/

@[simp] theorem putObj_w (s : St) (a : Addr) (o : Obj) : (putObj s a o).w = s.w := rfl

theorem alookup_putObj (s : St) (a b : Addr) (o : Obj) :
    alookup b (putObj s a o).cache = if b = a then some o else alookup b s.cache := by
  simp [putObj, alookup_upsert]

theorem alookup_putObj_self (s : St) (a : Addr) (o : Obj) :
    alookup a (putObj s a o).cache = some o := by
  simp [alookup_putObj]

theorem alookup_putObj_ne (s : St) (a b : Addr) (o : Obj) (h : b ≠ a) :
    alookup b (putObj s a o).cache = alookup b s.cache := by
  simp [alookup_putObj, h]

theorem peek_putObj (s : St) (a b : Addr) (o : Obj) :
    peek (putObj s a o) b = if b = a then some o else peek s b := by
  unfold peek
  rw [alookup_putObj]
  by_cases h : b = a <;> simp [h]

theorem peek_of_cache (s : St) (a : Addr) (o : Obj) (h : alookup a s.cache = some o) :
    peek s a = some o := by
  simp [peek, h]

theorem peek_empty_cache (s : St) (a : Addr) (h : s.cache = []) : peek s a = loadAcct s.w a := by
  simp [peek, h]

/-- whatever `loadAcct` returns carries the stored balance, is clean and not suicided -/
theorem loadAcct_some (w : World) (a : Addr) (o : Obj) (h : loadAcct w a = some o) :
    o.bal = bal w.bal a ∧ o.dirty = false ∧ o.suicided = false := by
  unfold loadAcct at h
  split at h
  · simp at h; subst h; simp
  · split at h
    · simp at h; subst h; simp
    · simp at h

theorem loadAcct_none (w : World) (a : Addr) (h : loadAcct w a = none) : bal w.bal a = 0 := by
  unfold loadAcct at h
  split at h
  · simp at h
  · split at h
    · simp at h
    · rename_i h0; simpa using h0

theorem loadAcct_nonce (w : World) (a : Addr) : keeperNonce w a =
    match alookup a w.keeper with
    | some r => r.nonce
    | none => 0 := by
  unfold keeperNonce loadAcct
  split <;> rename_i h
  · split at h
    · simp at h; subst h; simp_all
    · split at h
      · simp at h; subst h; simp_all
      · simp at h
  · split at h
    · simp at h
    · simp_all

/-! ## the EVM view of a state with an empty object cache is the native view -/

theorem evmBalance_empty_cache (s : St) (a : Addr) (h : s.cache = []) :
    evmBalance s a = nativeBalance s.w a := by
  unfold evmBalance nativeBalance
  rw [peek_empty_cache s a h]
  cases hl : loadAcct s.w a with
  | none => simp [loadAcct_none s.w a hl]
  | some o => simp [(loadAcct_some s.w a o hl).1]

theorem evmNonce_empty_cache (s : St) (a : Addr) (h : s.cache = []) :
    evmNonce s a = keeperNonce s.w a := by
  unfold evmNonce keeperNonce
  rw [peek_empty_cache s a h]

/-! ## the primitives as `putObj` of a transformed object -/

def subF (n : Int) (o : Obj) : Obj := if n = 0 then o else { o with bal := o.bal - n, dirty := true }
def addF (n : Int) (o : Obj) : Obj :=
  if n = 0 then (if isEmpty o then { o with dirty := true } else o) else { o with bal := o.bal + n, dirty := true }
def nonceF (k : Nat) (o : Obj) : Obj := { o with nonce := k, dirty := true }
def codeF (o : Obj) : Obj := { o with code := true, dirty := true }

theorem subBalance_eq (s : St) (a : Addr) (n : Int) :
    subBalance s a n = putObj s a (subF n (objOrNew s a)) := by
  unfold subBalance subF; split <;> rfl

theorem addBalance_eq (s : St) (a : Addr) (n : Int) :
    addBalance s a n = putObj s a (addF n (objOrNew s a)) := by
  unfold addBalance addF; split <;> rfl

theorem setNonce_eq (s : St) (a : Addr) (k : Nat) :
    setNonce s a k = putObj s a (nonceF k (objOrNew s a)) := rfl

theorem setCode_eq (s : St) (a : Addr) : setCode s a = putObj s a (codeF (objOrNew s a)) := rfl

/-- the balance `objOrNew` starts from is the EVM view of the address -/
theorem evmBalance_eq_objOrNew (s : St) (a : Addr) : (objOrNew s a).bal = evmBalance s a := by
  unfold objOrNew evmBalance
  cases hp : peek s a with
  | some o => rfl
  | none =>
    simp only [freshObj]
    unfold peek at hp
    split at hp
    · simp at hp
    · exact loadAcct_none s.w a hp

/-! ## world and frame -/

@[simp] theorem subBalance_w (s : St) (a : Addr) (n : Int) : (subBalance s a n).w = s.w := by
  rw [subBalance_eq]; rfl
@[simp] theorem addBalance_w (s : St) (a : Addr) (n : Int) : (addBalance s a n).w = s.w := by
  rw [addBalance_eq]; rfl
@[simp] theorem setNonce_w (s : St) (a : Addr) (k : Nat) : (setNonce s a k).w = s.w := rfl
@[simp] theorem setCode_w (s : St) (a : Addr) : (setCode s a).w = s.w := rfl
@[simp] theorem suicide_w (s : St) (a : Addr) : (suicide s a).w = s.w := by
  unfold suicide; split <;> rfl
@[simp] theorem createAccount_w (s : St) (a : Addr) : (createAccount s a).w = s.w := by
  unfold createAccount; split <;> rfl
@[simp] theorem transfer_w (s : St) (x y : Addr) (v : Int) : (transfer s x y v).w = s.w := by
  simp [transfer]

theorem applyEff_w (s s' : St) (e : Eff) (h : applyEff s e = some s') : s'.w = s.w := by
  cases e with
  | sub a n =>
    simp only [applyEff] at h
    split at h
    · simp at h
    · simp at h; subst h; simp
  | add a n => simp only [applyEff, Option.some.injEq] at h; subst h; simp
  | suicide a => simp only [applyEff, Option.some.injEq] at h; subst h; simp

theorem applyEffs_w (s s' : St) (l : List Eff) (h : applyEffs s l = some s') : s'.w = s.w := by
  induction l generalizing s with
  | nil => simp [applyEffs] at h; subst h; rfl
  | cons e t ih =>
    simp only [applyEffs] at h
    cases he : applyEff s e with
    | none => simp [he] at h
    | some s1 =>
      simp only [he] at h
      rw [ih s1 h, applyEff_w s s1 e he]

/-- frame: a primitive at `c` leaves the cached object of every other address alone -/
theorem subBalance_frame (s : St) (c a : Addr) (n : Int) (h : a ≠ c) :
    alookup a (subBalance s c n).cache = alookup a s.cache := by
  rw [subBalance_eq, alookup_putObj_ne _ _ _ _ h]
theorem addBalance_frame (s : St) (c a : Addr) (n : Int) (h : a ≠ c) :
    alookup a (addBalance s c n).cache = alookup a s.cache := by
  rw [addBalance_eq, alookup_putObj_ne _ _ _ _ h]
theorem setNonce_frame (s : St) (c a : Addr) (k : Nat) (h : a ≠ c) :
    alookup a (setNonce s c k).cache = alookup a s.cache := by
  rw [setNonce_eq, alookup_putObj_ne _ _ _ _ h]
theorem setCode_frame (s : St) (c a : Addr) (h : a ≠ c) :
    alookup a (setCode s c).cache = alookup a s.cache := by
  rw [setCode_eq, alookup_putObj_ne _ _ _ _ h]
theorem suicide_frame (s : St) (c a : Addr) (h : a ≠ c) :
    alookup a (suicide s c).cache = alookup a s.cache := by
  unfold suicide; split
  · rfl
  · rw [alookup_putObj_ne _ _ _ _ h]
theorem createAccount_frame (s : St) (c a : Addr) (h : a ≠ c) :
    alookup a (createAccount s c).cache = alookup a s.cache := by
  unfold createAccount; split <;> rw [alookup_putObj_ne _ _ _ _ h]
theorem applyEff_frame (s s' : St) (e : Eff) (a : Addr) (h : e.addr ≠ a) (he : applyEff s e = some s') :
    alookup a s'.cache = alookup a s.cache := by
  have h' : a ≠ e.addr := fun x => h x.symm
  cases e with
  | sub c n =>
    simp only [applyEff] at he
    split at he
    · simp at he
    · simp at he; subst he; exact subBalance_frame s c a n h'
  | add c n => simp only [applyEff, Option.some.injEq] at he; subst he; exact addBalance_frame s c a n h'
  | suicide c => simp only [applyEff, Option.some.injEq] at he; subst he; exact suicide_frame s c a h'

theorem applyEffs_frame (s s' : St) (l : List Eff) (a : Addr) (h : ∀ e ∈ l, e.addr ≠ a)
    (he : applyEffs s l = some s') : alookup a s'.cache = alookup a s.cache := by
  induction l generalizing s with
  | nil => simp [applyEffs] at he; subst he; rfl
  | cons e t ih =>
    simp only [applyEffs] at he
    cases h1 : applyEff s e with
    | none => simp [h1] at he
    | some s1 =>
      simp only [h1] at he
      rw [ih s1 (fun e' he' => h e' (List.mem_cons_of_mem _ he')) he,
        applyEff_frame s s1 e a (h e List.mem_cons_self) h1]

/-! ## `Finalise` -/

def finW (w : World) (c : List (Addr × Obj)) : World := c.foldl finaliseObj w

theorem finalise_w (s : St) : (finalise s).w = finW s.w s.cache := rfl
@[simp] theorem finalise_cache (s : St) : (finalise s).cache = [] := rfl

theorem finaliseObj_pool (w : World) (p : Addr × Obj) : (finaliseObj w p).pool = w.pool := by
  unfold finaliseObj; split
  · rfl
  · split <;> rfl

theorem finW_pool (w : World) (c : List (Addr × Obj)) : (finW w c).pool = w.pool := by
  unfold finW
  induction c generalizing w with
  | nil => rfl
  | cons h t ih => rw [List.foldl_cons, ih, finaliseObj_pool]

theorem removeAccount_bal_ne (w : World) (k a : Addr) (h : a ≠ k) :
    bal (removeAccount w k).bal a = bal w.bal a := by
  unfold removeAccount
  simp only
  split
  · rfl
  · exact bal_setBal_ne _ _ _ _ h

theorem removeAccount_bal_self (w : World) (a : Addr) : bal (removeAccount w a).bal a = 0 := by
  unfold removeAccount
  simp only
  split
  · assumption
  · exact bal_setBal_self _ _ _

theorem finaliseObj_bal_ne (w : World) (p : Addr × Obj) (a : Addr) (h : a ≠ p.1) :
    bal (finaliseObj w p).bal a = bal w.bal a := by
  unfold finaliseObj; split
  · exact removeAccount_bal_ne w p.1 a h
  · split
    · simp [setAccount, bal_setBal_ne _ _ _ _ h]
    · rfl

/-- `Finalise` leaves a zero record for a dropped object and the working balance of a dirty one -/
theorem finaliseObj_bal_self (w : World) (a : Addr) (o : Obj) :
    bal (finaliseObj w (a, o)).bal a =
      if gone o then 0 else if o.dirty then o.bal else bal w.bal a := by
  unfold finaliseObj
  simp only
  split
  · exact removeAccount_bal_self w a
  · split
    · simp [setAccount, bal_setBal_self]
    · rfl

theorem finaliseObj_keeper_ne (w : World) (p : Addr × Obj) (a : Addr) (h : a ≠ p.1) :
    alookup a (finaliseObj w p).keeper = alookup a w.keeper := by
  unfold finaliseObj; split
  · simp [removeAccount, alookup_aerase_ne _ _ _ h]
  · split
    · simp [setAccount, alookup_upsert_ne _ _ _ _ h]
    · rfl

theorem finaliseObj_keeper_self (w : World) (a : Addr) (o : Obj) :
    alookup a (finaliseObj w (a, o)).keeper =
      if gone o then none else if o.dirty then some ⟨o.nonce, o.code⟩ else alookup a w.keeper := by
  unfold finaliseObj gone
  simp only
  split
  · simp [removeAccount]
  · split
    · simp [setAccount]
    · rfl

theorem finW_bal (w : World) (c : List (Addr × Obj)) (a : Addr) (hn : (akeys c).Nodup) :
    bal (finW w c).bal a =
      match alookup a c with
      | some o => if gone o then 0 else if o.dirty then o.bal else bal w.bal a
      | none => bal w.bal a := by
  induction c generalizing w with
  | nil => rfl
  | cons hd t ih =>
    obtain ⟨k, o⟩ := hd
    have hn' : k ∉ akeys t ∧ (akeys t).Nodup := by simpa [akeys] using hn
    have hstep : finW w ((k, o) :: t) = finW (finaliseObj w (k, o)) t := rfl
    rw [hstep, ih _ hn'.2]
    by_cases hk : k = a
    · subst hk
      rw [not_mem_akeys_alookup t k hn'.1]
      simp only [alookup, if_true]
      exact finaliseObj_bal_self w k o
    · have hak : a ≠ k := fun e => hk e.symm
      simp only [alookup, hk, if_false]
      rw [finaliseObj_bal_ne w (k, o) a hak]

theorem finW_keeper (w : World) (c : List (Addr × Obj)) (a : Addr) (hn : (akeys c).Nodup) :
    alookup a (finW w c).keeper =
      match alookup a c with
      | some o => if gone o then none else if o.dirty then some ⟨o.nonce, o.code⟩ else alookup a w.keeper
      | none => alookup a w.keeper := by
  induction c generalizing w with
  | nil => rfl
  | cons hd t ih =>
    obtain ⟨k, o⟩ := hd
    have hn' : k ∉ akeys t ∧ (akeys t).Nodup := by simpa [akeys] using hn
    have hstep : finW w ((k, o) :: t) = finW (finaliseObj w (k, o)) t := rfl
    rw [hstep, ih _ hn'.2]
    by_cases hk : k = a
    · subst hk
      rw [not_mem_akeys_alookup t k hn'.1]
      simp only [alookup, if_true]
      exact finaliseObj_keeper_self w k o
    · have hak : a ≠ k := fun e => hk e.symm
      simp only [alookup, hk, if_false]
      rw [finaliseObj_keeper_ne w (k, o) a hak]

/-! ## well-formedness of the object cache: one object per address -/

def WF (s : St) : Prop := (akeys s.cache).Nodup

theorem wf_of_empty (s : St) (h : s.cache = []) : WF s := by simp [WF, h, akeys]

theorem wf_putObj (s : St) (a : Addr) (o : Obj) (h : WF s) : WF (putObj s a o) :=
  nodup_akeys_upsert s.cache a o h

theorem wf_subBalance (s : St) (a : Addr) (n : Int) (h : WF s) : WF (subBalance s a n) := by
  rw [subBalance_eq]; exact wf_putObj _ _ _ h
theorem wf_addBalance (s : St) (a : Addr) (n : Int) (h : WF s) : WF (addBalance s a n) := by
  rw [addBalance_eq]; exact wf_putObj _ _ _ h
theorem wf_setNonce (s : St) (a : Addr) (k : Nat) (h : WF s) : WF (setNonce s a k) := wf_putObj _ _ _ h
theorem wf_setCode (s : St) (a : Addr) (h : WF s) : WF (setCode s a) := wf_putObj _ _ _ h
theorem wf_suicide (s : St) (a : Addr) (h : WF s) : WF (suicide s a) := by
  unfold suicide; split
  · exact h
  · exact wf_putObj _ _ _ h
theorem wf_createAccount (s : St) (a : Addr) (h : WF s) : WF (createAccount s a) := by
  unfold createAccount; split <;> exact wf_putObj _ _ _ h
theorem wf_transfer (s : St) (x y : Addr) (v : Int) (h : WF s) : WF (transfer s x y v) :=
  wf_addBalance _ _ _ (wf_subBalance _ _ _ h)
theorem wf_applyEff (s s' : St) (e : Eff) (h : WF s) (he : applyEff s e = some s') : WF s' := by
  cases e with
  | sub a n =>
    simp only [applyEff] at he
    split at he
    · simp at he
    · simp at he; subst he; exact wf_subBalance _ _ _ h
  | add a n => simp only [applyEff, Option.some.injEq] at he; subst he; exact wf_addBalance _ _ _ h
  | suicide a => simp only [applyEff, Option.some.injEq] at he; subst he; exact wf_suicide _ _ h
theorem wf_applyEffs (s s' : St) (l : List Eff) (h : WF s) (he : applyEffs s l = some s') : WF s' := by
  induction l generalizing s with
  | nil => simp [applyEffs] at he; subst he; exact h
  | cons e t ih =>
    simp only [applyEffs] at he
    cases h1 : applyEff s e with
    | none => simp [h1] at he
    | some s1 =>
      simp only [h1] at he
      exact ih s1 (wf_applyEff s s1 e h h1) he

/-! ## inversion of the pipeline -/

/-- the five ways `evmCall` returns -/
theorem evmCall_cases (s : St) (tx : Tx) (to : Addr) (gas : Nat) (vm : VmOut) (s2 : St) (gl : Nat) (f : Bool)
    (h : evmCall s tx to gas vm = some (s2, gl, f)) :
    (s2 = s ∧ gl = gas ∧ f = true ∧ tx.value ≠ 0 ∧ evmBalance s tx.sender < tx.value)
    ∨ (s2 = s ∧ gl = gas ∧ f = false ∧ evmExist s to = false ∧ tx.value = 0)
    ∨ (s2 = transfer (callPrep s to) tx.sender to tx.value ∧ gl = gas ∧ f = false ∧
        evmCode (transfer (callPrep s to) tx.sender to tx.value) to = false)
    ∨ (s2 = s ∧ gl = vm.gasLeft ∧ f = true ∧ vm.failed = true)
    ∨ (∃ s3, applyEffs (transfer (callPrep s to) tx.sender to tx.value) vm.effs = some s3 ∧
        s3 = s2 ∧ gl = vm.gasLeft ∧ f = false ∧ vm.failed = false) := by
  unfold evmCall at h
  by_cases h1 : tx.value ≠ 0 ∧ evmBalance s tx.sender < tx.value
  · rw [if_pos h1] at h
    simp only [Option.some.injEq, Prod.mk.injEq] at h
    exact Or.inl ⟨h.1.symm, h.2.1.symm, h.2.2.symm, h1.1, h1.2⟩
  · rw [if_neg h1] at h
    by_cases h2 : evmExist s to = false ∧ tx.value = 0
    · rw [if_pos h2] at h
      simp only [Option.some.injEq, Prod.mk.injEq] at h
      exact Or.inr (Or.inl ⟨h.1.symm, h.2.1.symm, h.2.2.symm, h2.1, h2.2⟩)
    · rw [if_neg h2] at h
      by_cases h3 : evmCode (transfer (callPrep s to) tx.sender to tx.value) to = false
      · rw [if_pos h3] at h
        simp only [Option.some.injEq, Prod.mk.injEq] at h
        exact Or.inr (Or.inr (Or.inl ⟨h.1.symm, h.2.1.symm, h.2.2.symm, h3⟩))
      · rw [if_neg h3] at h
        by_cases h4 : vm.failed = true
        · rw [if_pos h4] at h
          simp only [Option.some.injEq, Prod.mk.injEq] at h
          exact Or.inr (Or.inr (Or.inr (Or.inl ⟨h.1.symm, h.2.1.symm, h.2.2.symm, h4⟩)))
        · rw [if_neg h4] at h
          cases he : applyEffs (transfer (callPrep s to) tx.sender to tx.value) vm.effs with
          | none => rw [he] at h; simp at h
          | some s3 =>
            rw [he] at h
            simp only [Option.some.injEq, Prod.mk.injEq] at h
            refine Or.inr (Or.inr (Or.inr (Or.inr ⟨s3, rfl, h.1, h.2.1.symm, h.2.2.symm, ?_⟩)))
            simpa using h4

/-- the four ways `evmCreate` returns -/
theorem evmCreate_cases (env : Env) (s : St) (tx : Tx) (vm : VmOut) (gas : Nat) (s2 : St) (gl : Nat) (f : Bool)
    (h : evmCreate env s tx vm gas = some (s2, gl, f)) :
    (s2 = s ∧ gl = gas ∧ f = true ∧ evmBalance s tx.sender < tx.value)
    ∨ (s2 = setNonce s tx.sender (evmNonce s tx.sender + 1) ∧ gl = 0 ∧ f = true)
    ∨ (s2 = setNonce s tx.sender (evmNonce s tx.sender + 1) ∧ gl = vm.gasLeft ∧ f = true ∧ vm.failed = true)
    ∨ (∃ s3, applyEffs (createPrep (setNonce s tx.sender (evmNonce s tx.sender + 1)) tx env.newAddr) vm.effs = some s3 ∧
        s2 = (if vm.retCode = true then setCode s3 env.newAddr else s3) ∧
        gl = vm.gasLeft ∧ f = false ∧ vm.failed = false ∧
        evmNonce (setNonce s tx.sender (evmNonce s tx.sender + 1)) env.newAddr = 0 ∧
        evmCode (setNonce s tx.sender (evmNonce s tx.sender + 1)) env.newAddr = false) := by
  unfold evmCreate at h
  by_cases h1 : evmBalance s tx.sender < tx.value
  · rw [if_pos h1] at h
    simp only [Option.some.injEq, Prod.mk.injEq] at h
    exact Or.inl ⟨h.1.symm, h.2.1.symm, h.2.2.symm, h1⟩
  · rw [if_neg h1] at h
    simp only at h
    by_cases h2 : evmNonce (setNonce s tx.sender (evmNonce s tx.sender + 1)) env.newAddr ≠ 0 ∨
        evmCode (setNonce s tx.sender (evmNonce s tx.sender + 1)) env.newAddr = true
    · rw [if_pos h2] at h
      simp only [Option.some.injEq, Prod.mk.injEq] at h
      exact Or.inr (Or.inl ⟨h.1.symm, h.2.1.symm, h.2.2.symm⟩)
    · rw [if_neg h2] at h
      by_cases h4 : vm.failed = true
      · rw [if_pos h4] at h
        simp only [Option.some.injEq, Prod.mk.injEq] at h
        exact Or.inr (Or.inr (Or.inl ⟨h.1.symm, h.2.1.symm, h.2.2.symm, h4⟩))
      · rw [if_neg h4] at h
        cases he : applyEffs (createPrep (setNonce s tx.sender (evmNonce s tx.sender + 1)) tx env.newAddr) vm.effs with
        | none => rw [he] at h; simp at h
        | some s3 =>
          rw [he] at h
          simp only [Option.some.injEq, Prod.mk.injEq] at h
          have h2' := not_or.mp h2
          refine Or.inr (Or.inr (Or.inr ⟨s3, rfl, h.1.symm, h.2.1.symm, h.2.2.symm, ?_, ?_, ?_⟩))
          · simpa using h4
          · simpa using h2'.1
          · simpa using h2'.2
/-- the state after `buyGas` -/
def bought (s : St) (tx : Tx) : St := subBalance s tx.sender ((gasU tx : Int) * tx.price)

theorem preCheck_ok (env : Env) (s sb : St) (tx : Tx) (h : preCheck env s tx = .ok sb) :
    sb = bought s tx ∧ evmNonce s tx.sender ≤ tx.nonce ∧ evmCode s tx.sender = false ∧
    (gasU tx : Int) * tx.price ≤ evmBalance s tx.sender ∧ gasU tx ≤ env.gasPool := by
  unfold preCheck at h
  by_cases h1 : evmNonce s tx.sender > tx.nonce
  · rw [if_pos h1] at h; simp at h
  · rw [if_neg h1] at h
    by_cases h2 : evmCode s tx.sender = true
    · rw [if_pos h2] at h; simp at h
    · rw [if_neg h2] at h
      unfold buyGas at h
      simp only at h
      by_cases h3 : evmBalance s tx.sender < (gasU tx : Int) * tx.price
      · rw [if_pos h3] at h; simp at h
      · rw [if_neg h3] at h
        by_cases h4 : env.gasPool < gasU tx
        · rw [if_pos h4] at h; simp at h
        · rw [if_neg h4] at h
          simp only [Except.ok.injEq] at h
          refine ⟨h.symm, by omega, by simpa using h2, by omega, by omega⟩

theorem transitionDb_ok (env : Env) (s s1 : St) (tx : Tx) (vm : VmOut) (er : ExecResult)
    (h : transitionDb env s tx vm = some (s1, .ok er)) :
    ∃ s2 gl f, preCheck env s tx = .ok (bought s tx) ∧ runVm env (bought s tx) tx vm = some (s2, gl, f) ∧
      intrinsicGas tx.nz tx.z (isCreate tx) ≤ gasU tx ∧
      ¬ (tx.value > 0 ∧ evmBalance (bought s tx) tx.sender < tx.value) ∧
      s1 = addBalance s2 tx.sender ((gasFinal tx vm gl : Int) * tx.price) ∧
      er = ⟨gasU tx - gasFinal tx vm gl, f⟩ := by
  unfold transitionDb at h
  cases hp : preCheck env s tx with
  | error e => rw [hp] at h; simp at h
  | ok sb =>
    rw [hp] at h
    obtain ⟨hsb, -⟩ := preCheck_ok env s sb tx hp
    subst hsb
    simp only at h
    by_cases h1 : gasU tx < intrinsicGas tx.nz tx.z (isCreate tx)
    · rw [if_pos h1] at h; simp at h
    · rw [if_neg h1] at h
      by_cases h2 : tx.value > 0 ∧ evmBalance (bought s tx) tx.sender < tx.value
      · rw [if_pos h2] at h; simp at h
      · rw [if_neg h2] at h
        cases hr : runVm env (bought s tx) tx vm with
        | none => rw [hr] at h; simp at h
        | some res =>
          obtain ⟨s2, gl, f⟩ := res
          rw [hr] at h
          simp only [Option.some.injEq, Prod.mk.injEq, Except.ok.injEq] at h
          exact ⟨s2, gl, f, rfl, rfl, by omega, h2, h.1.symm, h.2.symm⟩

theorem deliver_ok (env : Env) (s s' : St) (tx : Tx) (vm : VmOut) (r : Resp)
    (h : deliverOlvm env s tx vm = (s', r)) (hc : r.code = 0) :
    ∃ s1 er, validate env s.w tx = none ∧ transitionDb env s tx vm = some (s1, .ok er) ∧
      er.usedGas ≠ 0 ∧ (er.usedGas : Int) ≤ tx.gas ∧ er.usedGas < env.feeGasLeft ∧
      s' = ⟨{ (finalise s1).w with pool := (finalise s1).w.pool + tx.price * (er.usedGas : Int) }, []⟩ ∧
      r = ⟨0, er.usedGas, tx.gas, if er.failed then .reverted else .success⟩ := by
  unfold deliverOlvm at h
  cases hv : validate env s.w tx with
  | some e =>
    rw [hv] at h
    simp only at h
    simp only [Prod.mk.injEq] at h; rw [← h.2] at hc; simp at hc
  | none =>
    rw [hv] at h
    simp only at h
    cases ht : transitionDb env s tx vm with
    | none => rw [ht] at h; simp only [Prod.mk.injEq] at h; rw [← h.2] at hc; simp at hc
    | some res =>
      obtain ⟨s1, rr⟩ := res
      rw [ht] at h
      simp only at h
      cases rr with
      | error e => simp only [Prod.mk.injEq] at h; rw [← h.2] at hc; simp at hc
      | ok er =>
        simp only at h
        by_cases h1 : er.usedGas = 0
        · rw [if_pos h1] at h; simp only [Prod.mk.injEq] at h; rw [← h.2] at hc; simp at hc
        · rw [if_neg h1] at h
          by_cases h2 : (er.usedGas : Int) > tx.gas
          · rw [if_pos h2] at h; simp only [Prod.mk.injEq] at h; rw [← h.2] at hc; simp at hc
          · rw [if_neg h2] at h
            by_cases h3 : env.feeGasLeft ≤ er.usedGas
            · rw [if_pos h3] at h; simp only [Prod.mk.injEq] at h; rw [← h.2] at hc; simp at hc
            · rw [if_neg h3] at h
              simp only [Prod.mk.injEq] at h
              exact ⟨s1, er, rfl, rfl, h1, by omega, by omega, h.1.symm, h.2.symm⟩

/-- a refused transaction leaves the persisted records alone and the cache empty or untouched -/
theorem deliver_refused (env : Env) (s s' : St) (tx : Tx) (vm : VmOut) (r : Resp)
    (h : deliverOlvm env s tx vm = (s', r)) (hc : r.code ≠ 0) : s' = s ∨ s' = ⟨s.w, []⟩ := by
  unfold deliverOlvm at h
  cases hv : validate env s.w tx with
  | some e =>
    rw [hv] at h
    simp only at h
    simp only [Prod.mk.injEq] at h; exact Or.inl h.1.symm
  | none =>
    rw [hv] at h
    simp only at h
    cases ht : transitionDb env s tx vm with
    | none => rw [ht] at h; simp only [Prod.mk.injEq] at h; exact Or.inl h.1.symm
    | some res =>
      obtain ⟨s1, rr⟩ := res
      rw [ht] at h
      simp only at h
      cases rr with
      | error e => simp only [Prod.mk.injEq] at h; exact Or.inr h.1.symm
      | ok er =>
        simp only at h
        by_cases h1 : er.usedGas = 0
        · rw [if_pos h1] at h; simp only [Prod.mk.injEq] at h; exact Or.inr h.1.symm
        · rw [if_neg h1] at h
          by_cases h2 : (er.usedGas : Int) > tx.gas
          · rw [if_pos h2] at h; simp only [Prod.mk.injEq] at h; exact Or.inr h.1.symm
          · rw [if_neg h2] at h
            by_cases h3 : env.feeGasLeft ≤ er.usedGas
            · rw [if_pos h3] at h; simp only [Prod.mk.injEq] at h; exact Or.inr h.1.symm
            · rw [if_neg h3] at h
              simp only [Prod.mk.injEq] at h
              rw [← h.2] at hc; simp at hc

/-! ## following one account through the pipeline -/

/-- the cached object of `a`: balance `b`, nonce `n`, dirty, not suicided -/
def Holds (s : St) (a : Addr) (b : Int) (n : Nat) : Prop :=
  ∃ o, alookup a s.cache = some o ∧ o.bal = b ∧ o.nonce = n ∧ o.dirty = true ∧ o.suicided = false

theorem holds_congr (s s' : St) (a : Addr) (b : Int) (n : Nat)
    (hc : alookup a s'.cache = alookup a s.cache) (h : Holds s a b n) : Holds s' a b n := by
  obtain ⟨o, h1, h2⟩ := h
  exact ⟨o, by rw [hc, h1], h2⟩

theorem objOrNew_of_cache (s : St) (a : Addr) (o : Obj) (h : alookup a s.cache = some o) :
    objOrNew s a = o := by
  simp [objOrNew, peek_of_cache s a o h]

theorem holds_sub_self (s : St) (a : Addr) (b v : Int) (n : Nat) (h : Holds s a b n) :
    Holds (subBalance s a v) a (b - v) n := by
  obtain ⟨o, h1, hb, hn, hd, hs⟩ := h
  rw [subBalance_eq, objOrNew_of_cache s a o h1]
  refine ⟨subF v o, alookup_putObj_self _ _ _, ?_⟩
  unfold subF
  by_cases hv : v = 0
  · simp [hv, hb, hn, hd, hs]
  · simp [hv, hb, hn, hs]

theorem holds_add_self (s : St) (a : Addr) (b v : Int) (n : Nat) (h : Holds s a b n) :
    Holds (addBalance s a v) a (b + v) n := by
  obtain ⟨o, h1, hb, hn, hd, hs⟩ := h
  rw [addBalance_eq, objOrNew_of_cache s a o h1]
  refine ⟨addF v o, alookup_putObj_self _ _ _, ?_⟩
  unfold addF
  by_cases hv : v = 0
  · by_cases he : isEmpty o = true <;> simp [hv, he, hb, hn, hd, hs]
  · simp [hv, hb, hn, hs]

theorem holds_setNonce_self (s : St) (a : Addr) (o : Obj) (k : Nat) (h : alookup a s.cache = some o)
    (hs : o.suicided = false) : Holds (setNonce s a k) a o.bal k := by
  rw [setNonce_eq, objOrNew_of_cache s a o h]
  exact ⟨nonceF k o, alookup_putObj_self _ _ _, rfl, rfl, rfl, hs⟩

/-- after `buyGas` on a state with an empty cache the sender has a cached object -/
theorem bought_obj (s : St) (tx : Tx) (h0 : s.cache = []) :
    ∃ o, alookup tx.sender (bought s tx).cache = some o ∧
      o.bal = nativeBalance s.w tx.sender - (gasU tx : Int) * tx.price ∧
      o.nonce = keeperNonce s.w tx.sender ∧ o.suicided = false := by
  unfold bought
  rw [subBalance_eq]
  refine ⟨_, alookup_putObj_self _ _ _, ?_⟩
  have hb : (objOrNew s tx.sender).bal = nativeBalance s.w tx.sender := by
    rw [evmBalance_eq_objOrNew, evmBalance_empty_cache s _ h0]
  have hn : (objOrNew s tx.sender).nonce = keeperNonce s.w tx.sender := by
    unfold objOrNew keeperNonce
    rw [peek_empty_cache s _ h0]
    cases loadAcct s.w tx.sender <;> simp [freshObj]
  have hs : (objOrNew s tx.sender).suicided = false := by
    unfold objOrNew
    rw [peek_empty_cache s _ h0]
    cases hl : loadAcct s.w tx.sender with
    | none => simp [freshObj]
    | some o => simp [(loadAcct_some _ _ _ hl).2.2]
  unfold subF
  by_cases hz : (gasU tx : Int) * tx.price = 0
  · simp [hz, hb, hn, hs]
  · simp [hz, hb, hn, hs]

theorem evmBalance_of_cache (s : St) (a : Addr) (o : Obj) (h : alookup a s.cache = some o) :
    evmBalance s a = o.bal := by simp [evmBalance, peek_of_cache s a o h]
theorem evmNonce_of_cache (s : St) (a : Addr) (o : Obj) (h : alookup a s.cache = some o) :
    evmNonce s a = o.nonce := by simp [evmNonce, peek_of_cache s a o h]

theorem callPrep_frame (s : St) (t a : Addr) (h : a ≠ t) :
    alookup a (callPrep s t).cache = alookup a s.cache := by
  unfold callPrep; split
  · rfl
  · exact createAccount_frame s t a h

theorem transfer_holds_src (s : St) (a t : Addr) (b v : Int) (n : Nat) (hat : a ≠ t) (h : Holds s a b n) :
    Holds (transfer s a t v) a (b - v) n := by
  unfold transfer
  exact holds_congr _ _ _ _ _ (addBalance_frame _ t a v hat) (holds_sub_self s a b v n h)

/-- the sender's object after the run of the interpreter -/
theorem evmCall_sender (s : St) (tx : Tx) (t : Addr) (gas : Nat) (vm : VmOut) (s2 : St) (gl : Nat) (f : Bool)
    (b : Int) (n : Nat) (h : Holds s tx.sender b n) (hat : tx.sender ≠ t)
    (heff : ∀ e ∈ vm.effs, e.addr ≠ tx.sender)
    (hr : evmCall s tx t gas vm = some (s2, gl, f)) :
    Holds s2 tx.sender (b - (if f = true then 0 else tx.value)) n := by
  rcases evmCall_cases s tx t gas vm s2 gl f hr with
    ⟨rfl, -, rfl, -, -⟩ | ⟨rfl, -, rfl, -, hv⟩ | ⟨rfl, -, rfl, -⟩ | ⟨rfl, -, rfl, -⟩ | ⟨s3, he, rfl, -, rfl, -⟩
  · simpa using h
  · simpa [hv] using h
  · have := transfer_holds_src (callPrep s t) tx.sender t b tx.value n hat
      (holds_congr _ _ _ _ _ (callPrep_frame s t tx.sender hat) h)
    simpa using this
  · simpa using h
  · have h1 := transfer_holds_src (callPrep s t) tx.sender t b tx.value n hat
      (holds_congr _ _ _ _ _ (callPrep_frame s t tx.sender hat) h)
    have h2 := holds_congr _ s3 _ _ _ (applyEffs_frame _ s3 vm.effs tx.sender heff he) h1
    simpa using h2

theorem createPrep_holds_src (s : St) (tx : Tx) (a : Addr) (b : Int) (n : Nat) (hat : tx.sender ≠ a)
    (h : Holds s tx.sender b n) : Holds (createPrep s tx a) tx.sender (b - tx.value) n := by
  unfold createPrep
  apply transfer_holds_src _ _ _ _ _ _ hat
  apply holds_congr _ _ _ _ _ _ h
  rw [setNonce_frame _ a _ 1 hat, createAccount_frame s a _ hat]

theorem evmCreate_sender (env : Env) (s : St) (tx : Tx) (vm : VmOut) (gas : Nat) (s2 : St) (gl : Nat) (f : Bool)
    (o : Obj) (ho : alookup tx.sender s.cache = some o) (hos : o.suicided = false)
    (hbal : ¬ o.bal < tx.value) (hnew : tx.sender ≠ env.newAddr)
    (heff : ∀ e ∈ vm.effs, e.addr ≠ tx.sender)
    (hr : evmCreate env s tx vm gas = some (s2, gl, f)) :
    Holds s2 tx.sender (o.bal - (if f = true then 0 else tx.value)) (o.nonce + 1) := by
  have hn : evmNonce s tx.sender = o.nonce := evmNonce_of_cache s _ o ho
  have h0 : Holds (setNonce s tx.sender (evmNonce s tx.sender + 1)) tx.sender o.bal (o.nonce + 1) := by
    rw [hn]; exact holds_setNonce_self s tx.sender o _ ho hos
  rcases evmCreate_cases env s tx vm gas s2 gl f hr with
    ⟨-, -, -, hlt⟩ | ⟨rfl, -, rfl⟩ | ⟨rfl, -, rfl, -⟩ | ⟨s3, he, rfl, -, rfl, -, -, -⟩
  · rw [evmBalance_of_cache s _ o ho] at hlt; exact absurd hlt hbal
  · simpa using h0
  · simpa using h0
  · have h1 := createPrep_holds_src _ tx env.newAddr _ _ hnew h0
    have h2 := holds_congr _ s3 _ _ _ (applyEffs_frame _ s3 vm.effs tx.sender heff he) h1
    have h3 : Holds (if vm.retCode = true then setCode s3 env.newAddr else s3) tx.sender (o.bal - tx.value) (o.nonce + 1) := by
      split
      · exact holds_congr _ _ _ _ _ (setCode_frame s3 env.newAddr tx.sender hnew) h2
      · exact h2
    simpa using h3
theorem validate_none_value (env : Env) (w : World) (tx : Tx) (h : validate env w tx = none) :
    0 ≤ tx.value := by
  by_cases hv : tx.value < 0
  · exfalso
    unfold validate at h
    simp only [hv, decide_true, Bool.or_true, if_true] at h
    repeat' split at h
    all_goals simp at h
  · omega

/-! ## world and well-formedness through the run -/

theorem callPrep_w (s : St) (t : Addr) : (callPrep s t).w = s.w := by
  unfold callPrep; split <;> simp
theorem wf_callPrep (s : St) (t : Addr) (h : WF s) : WF (callPrep s t) := by
  unfold callPrep; split
  · exact h
  · exact wf_createAccount s t h
theorem createPrep_w (s : St) (tx : Tx) (a : Addr) : (createPrep s tx a).w = s.w := by
  simp [createPrep]
theorem wf_createPrep (s : St) (tx : Tx) (a : Addr) (h : WF s) : WF (createPrep s tx a) :=
  wf_transfer _ _ _ _ (wf_setNonce _ _ _ (wf_createAccount _ _ h))

theorem evmCall_w (s : St) (tx : Tx) (t : Addr) (gas : Nat) (vm : VmOut) (s2 : St) (gl : Nat) (f : Bool)
    (hr : evmCall s tx t gas vm = some (s2, gl, f)) : s2.w = s.w := by
  rcases evmCall_cases s tx t gas vm s2 gl f hr with
    ⟨rfl, -⟩ | ⟨rfl, -⟩ | ⟨rfl, -⟩ | ⟨rfl, -⟩ | ⟨s3, he, rfl, -⟩
  · rfl
  · rfl
  · simp [callPrep_w]
  · simp
  · simp [applyEffs_w _ _ _ he, callPrep_w]

theorem wf_evmCall (s : St) (tx : Tx) (t : Addr) (gas : Nat) (vm : VmOut) (s2 : St) (gl : Nat) (f : Bool)
    (hw : WF s) (hr : evmCall s tx t gas vm = some (s2, gl, f)) : WF s2 := by
  rcases evmCall_cases s tx t gas vm s2 gl f hr with
    ⟨rfl, -⟩ | ⟨rfl, -⟩ | ⟨rfl, -⟩ | ⟨rfl, -⟩ | ⟨s3, he, rfl, -⟩
  · exact hw
  · exact hw
  · exact wf_transfer _ _ _ _ (wf_callPrep _ _ hw)
  · exact hw
  · exact wf_applyEffs _ _ _ (wf_transfer _ _ _ _ (wf_callPrep _ _ hw)) he

theorem evmCreate_w (env : Env) (s : St) (tx : Tx) (vm : VmOut) (gas : Nat) (s2 : St) (gl : Nat) (f : Bool)
    (hr : evmCreate env s tx vm gas = some (s2, gl, f)) : s2.w = s.w := by
  rcases evmCreate_cases env s tx vm gas s2 gl f hr with
    ⟨rfl, -⟩ | ⟨rfl, -⟩ | ⟨rfl, -⟩ | ⟨s3, he, rfl, -⟩
  · rfl
  · rfl
  · simp
  · have := applyEffs_w _ _ _ he
    rw [createPrep_w] at this
    split <;> simp [this]

theorem wf_evmCreate (env : Env) (s : St) (tx : Tx) (vm : VmOut) (gas : Nat) (s2 : St) (gl : Nat) (f : Bool)
    (hw : WF s) (hr : evmCreate env s tx vm gas = some (s2, gl, f)) : WF s2 := by
  rcases evmCreate_cases env s tx vm gas s2 gl f hr with
    ⟨rfl, -⟩ | ⟨rfl, -⟩ | ⟨rfl, -⟩ | ⟨s3, he, rfl, -⟩
  · exact hw
  · exact wf_setNonce _ _ _ hw
  · exact wf_setNonce _ _ _ hw
  · have h3 := wf_applyEffs _ _ _ (wf_createPrep _ tx env.newAddr (wf_setNonce _ _ _ hw)) he
    split
    · exact wf_setCode _ _ h3
    · exact h3

theorem runVm_w (env : Env) (sb : St) (tx : Tx) (vm : VmOut) (s2 : St) (gl : Nat) (f : Bool)
    (hr : runVm env sb tx vm = some (s2, gl, f)) : s2.w = sb.w := by
  unfold runVm at hr
  split at hr
  · exact evmCreate_w _ _ _ _ _ _ _ _ hr
  · rw [evmCall_w _ _ _ _ _ _ _ _ hr]; rfl

theorem wf_runVm (env : Env) (sb : St) (tx : Tx) (vm : VmOut) (s2 : St) (gl : Nat) (f : Bool)
    (hw : WF sb) (hr : runVm env sb tx vm = some (s2, gl, f)) : WF s2 := by
  unfold runVm at hr
  split at hr
  · exact wf_evmCreate _ _ _ _ _ _ _ _ hw hr
  · exact wf_evmCall _ _ _ _ _ _ _ _ (wf_setNonce _ _ _ hw) hr

theorem bought_w (s : St) (tx : Tx) : (bought s tx).w = s.w := by simp [bought]
theorem wf_bought (s : St) (tx : Tx) (h : WF s) : WF (bought s tx) := wf_subBalance _ _ _ h

/-- an executed transaction: the world is untouched until `Finalise`, the cache stays well formed -/
theorem transitionDb_ok_w (env : Env) (s s1 : St) (tx : Tx) (vm : VmOut) (er : ExecResult) (hw : WF s)
    (h : transitionDb env s tx vm = some (s1, .ok er)) : s1.w = s.w ∧ WF s1 := by
  obtain ⟨s2, gl, f, -, hr, -, -, rfl, -⟩ := transitionDb_ok env s s1 tx vm er h
  refine ⟨?_, wf_addBalance _ _ _ (wf_runVm _ _ _ _ _ _ _ (wf_bought s tx hw) hr)⟩
  simp [runVm_w _ _ _ _ _ _ _ hr, bought_w]

/-- the sender's object when `TransitionDb` returns -/
theorem transitionDb_sender (env : Env) (s s1 : St) (tx : Tx) (vm : VmOut) (er : ExecResult)
    (h0 : s.cache = []) (hv : 0 ≤ tx.value) (hto : tx.to ≠ some tx.sender) (hnew : tx.sender ≠ env.newAddr)
    (heff : ∀ e ∈ vm.effs, e.addr ≠ tx.sender)
    (h : transitionDb env s tx vm = some (s1, .ok er)) :
    ∃ gf : Nat, er.usedGas = gasU tx - gf ∧
      Holds s1 tx.sender
        (nativeBalance s.w tx.sender - (gasU tx : Int) * tx.price - (if er.failed = true then 0 else tx.value)
          + (gf : Int) * tx.price)
        (keeperNonce s.w tx.sender + 1) := by
  obtain ⟨s2, gl, f, hp, hr, -, hc6, rfl, rfl⟩ := transitionDb_ok env s s1 tx vm er h
  obtain ⟨-, -, -, hfunds, -⟩ := preCheck_ok env s _ tx hp
  obtain ⟨o, ho, hob, hon, hos⟩ := bought_obj s tx h0
  refine ⟨gasFinal tx vm gl, rfl, ?_⟩
  have hbal : ¬ o.bal < tx.value := by
    rw [evmBalance_of_cache _ _ o ho] at hc6
    rw [evmBalance_empty_cache s _ h0] at hfunds
    by_cases hz : tx.value > 0
    · intro hlt; exact hc6 ⟨hz, hlt⟩
    · have : tx.value = 0 := by omega
      rw [this, hob]; omega
  have hs2 : Holds s2 tx.sender (o.bal - (if f = true then 0 else tx.value)) (o.nonce + 1) := by
    unfold runVm at hr
    split at hr
    · exact evmCreate_sender env _ tx vm _ s2 gl f o ho hos hbal hnew heff hr
    · rename_i t ht
      have hat : tx.sender ≠ t := by
        intro e; apply hto; rw [ht, e]
      have hn : evmNonce (bought s tx) tx.sender = o.nonce := evmNonce_of_cache _ _ o ho
      have hh : Holds (setNonce (bought s tx) tx.sender (evmNonce (bought s tx) tx.sender + 1)) tx.sender o.bal (o.nonce + 1) := by
        rw [hn]; exact holds_setNonce_self _ tx.sender o _ ho hos
      exact evmCall_sender _ tx t _ vm s2 gl f o.bal (o.nonce + 1) hh hat heff hr
  have := holds_add_self s2 tx.sender _ ((gasFinal tx vm gl : Int) * tx.price) _ hs2
  rw [hob, hon] at this
  exact this
/-! ## following a credited account -/

/-- `a` is not cached and the record holds `b`, or its cached object holds `b`, is not suicided,
    and — when it is clean — the record holds `b` as well -/
def Tracks (s : St) (a : Addr) (b : Int) : Prop :=
  (alookup a s.cache = none ∧ b = bal s.w.bal a) ∨
  (∃ o, alookup a s.cache = some o ∧ o.bal = b ∧ o.suicided = false ∧ (o.dirty = false → b = bal s.w.bal a))

theorem tracks_congr (s s' : St) (a : Addr) (b : Int) (hc : alookup a s'.cache = alookup a s.cache)
    (hw : s'.w = s.w) (h : Tracks s a b) : Tracks s' a b := by
  unfold Tracks at *
  rw [hc, hw]; exact h

/-- what `objOrNew` finds for a tracked address -/
theorem tracks_objOrNew (s : St) (a : Addr) (b : Int) (h : Tracks s a b) :
    (objOrNew s a).bal = b ∧ (objOrNew s a).suicided = false ∧
    ((objOrNew s a).dirty = false → b = bal s.w.bal a) := by
  rcases h with ⟨hn, hb⟩ | ⟨o, ho, hb, hs, hd⟩
  · unfold objOrNew peek
    rw [hn]
    simp only
    cases hl : loadAcct s.w a with
    | none => simp [freshObj, hb]
    | some o =>
      obtain ⟨h1, h2, h3⟩ := loadAcct_some s.w a o hl
      simp [h1, h3, hb]
  · rw [objOrNew_of_cache s a o ho]; exact ⟨hb, hs, hd⟩

theorem tracks_add_self (s : St) (a : Addr) (b v : Int) (h : Tracks s a b) :
    Tracks (addBalance s a v) a (b + v) := by
  obtain ⟨hb, hs, hd⟩ := tracks_objOrNew s a b h
  rw [addBalance_eq]
  refine Or.inr ⟨addF v (objOrNew s a), alookup_putObj_self _ _ _, ?_⟩
  unfold addF
  by_cases hv : v = 0
  · by_cases he : isEmpty (objOrNew s a) = true
    · simp [hv, he, hb, hs]
    · simp only [hv, he, if_true, Bool.false_eq_true, if_false, putObj_w]
      exact ⟨by omega, hs, fun hd' => by have := hd hd'; omega⟩
  · simp [hv, hb, hs]

theorem tracks_setNonce_self (s : St) (a : Addr) (b : Int) (k : Nat) (h : Tracks s a b) :
    Tracks (setNonce s a k) a b := by
  obtain ⟨hb, hs, -⟩ := tracks_objOrNew s a b h
  rw [setNonce_eq]
  exact Or.inr ⟨nonceF k (objOrNew s a), alookup_putObj_self _ _ _, by simp [nonceF, hb, hs]⟩

theorem tracks_setCode_self (s : St) (a : Addr) (b : Int) (h : Tracks s a b) :
    Tracks (setCode s a) a b := by
  obtain ⟨hb, hs, -⟩ := tracks_objOrNew s a b h
  rw [setCode_eq]
  exact Or.inr ⟨codeF (objOrNew s a), alookup_putObj_self _ _ _, by simp [codeF, hb, hs]⟩

theorem tracks_createAccount_self (s : St) (a : Addr) (b : Int) (h : Tracks s a b) :
    Tracks (createAccount s a) a b := by
  unfold createAccount
  cases hp : peek s a with
  | some p =>
    simp only
    refine Or.inr ⟨_, alookup_putObj_self _ _ _, ?_⟩
    have : p.bal = b := by
      have := (tracks_objOrNew s a b h).1
      simpa [objOrNew, hp] using this
    simp [freshObj, this]
  | none =>
    simp only
    refine Or.inr ⟨_, alookup_putObj_self _ _ _, ?_⟩
    have : (freshObj s a).bal = b := by
      have := (tracks_objOrNew s a b h).1
      simpa [objOrNew, hp] using this
    simp [freshObj] at this ⊢
    exact this

theorem tracks_callPrep (s : St) (a : Addr) (b : Int) (h : Tracks s a b) : Tracks (callPrep s a) a b := by
  unfold callPrep; split
  · exact h
  · exact tracks_createAccount_self s a b h

/-- the credited side of `core.Transfer` -/
theorem tracks_transfer_dst (s : St) (x a : Addr) (b v : Int) (hxa : a ≠ x) (h : Tracks s a b) :
    Tracks (transfer s x a v) a (b + v) := by
  unfold transfer
  exact tracks_add_self _ a b v (tracks_congr _ _ _ _ (subBalance_frame s x a v hxa) (subBalance_w s x v) h)

/-- `Finalise` writes a tracked balance (or leaves an equal record alone) -/
theorem tracks_finalise (s : St) (a : Addr) (b : Int) (hwf : WF s) (h : Tracks s a b) :
    bal (finalise s).w.bal a = b := by
  rw [finalise_w, finW_bal _ _ _ hwf]
  rcases h with ⟨hn, hb'⟩ | ⟨o, ho, hob, hs, hd⟩
  · rw [hn]; exact hb'.symm
  · rw [ho]
    simp only
    by_cases hg : gone o = true
    · simp only [hg, if_true]
      unfold gone isEmpty at hg
      simp only [hs, Bool.false_or, Bool.and_eq_true, beq_iff_eq, Bool.not_eq_true'] at hg
      omega
    · simp only [hg, Bool.false_eq_true, if_false]
      by_cases hdd : o.dirty = true
      · simp [hdd, hob]
      · simp only [hdd, Bool.false_eq_true, if_false]
        exact (hd (by simpa using hdd)).symm

/-- the recipient of a call after the run of the interpreter -/
theorem evmCall_recipient (s : St) (tx : Tx) (t : Addr) (gas : Nat) (vm : VmOut) (s2 : St) (gl : Nat) (f : Bool)
    (b : Int) (h : Tracks s t b) (hat : t ≠ tx.sender) (heff : ∀ e ∈ vm.effs, e.addr ≠ t)
    (hr : evmCall s tx t gas vm = some (s2, gl, f)) :
    Tracks s2 t (b + (if f = true then 0 else tx.value)) := by
  rcases evmCall_cases s tx t gas vm s2 gl f hr with
    ⟨rfl, -, rfl, -, -⟩ | ⟨rfl, -, rfl, -, hv⟩ | ⟨rfl, -, rfl, -⟩ | ⟨rfl, -, rfl, -⟩ | ⟨s3, he, rfl, -, rfl, -⟩
  · simpa using h
  · simpa [hv] using h
  · simpa using tracks_transfer_dst (callPrep s t) tx.sender t b tx.value hat (tracks_callPrep s t b h)
  · simpa using h
  · have h1 := tracks_transfer_dst (callPrep s t) tx.sender t b tx.value hat (tracks_callPrep s t b h)
    have h2 := tracks_congr _ s3 _ _ (applyEffs_frame _ s3 vm.effs t heff he) (applyEffs_w _ _ _ he) h1
    simpa using h2

/-- the created contract after the run of the init code -/
theorem evmCreate_recipient (env : Env) (s : St) (tx : Tx) (vm : VmOut) (gas : Nat) (s2 : St) (gl : Nat) (f : Bool)
    (b : Int) (h : Tracks s env.newAddr b) (hat : env.newAddr ≠ tx.sender)
    (heff : ∀ e ∈ vm.effs, e.addr ≠ env.newAddr)
    (hr : evmCreate env s tx vm gas = some (s2, gl, f)) :
    Tracks s2 env.newAddr (b + (if f = true then 0 else tx.value)) := by
  have h0 : Tracks (setNonce s tx.sender (evmNonce s tx.sender + 1)) env.newAddr b :=
    tracks_congr _ _ _ _ (setNonce_frame s tx.sender _ _ hat) (setNonce_w _ _ _) h
  rcases evmCreate_cases env s tx vm gas s2 gl f hr with
    ⟨rfl, -, rfl, -⟩ | ⟨rfl, -, rfl⟩ | ⟨rfl, -, rfl, -⟩ | ⟨s3, he, rfl, -, rfl, -, -, -⟩
  · simpa using h
  · simpa using h0
  · simpa using h0
  · have h1 : Tracks (createPrep (setNonce s tx.sender (evmNonce s tx.sender + 1)) tx env.newAddr) env.newAddr (b + tx.value) := by
      unfold createPrep
      exact tracks_transfer_dst _ tx.sender _ b tx.value hat
        (tracks_setNonce_self _ _ b 1 (tracks_createAccount_self _ _ b h0))
    have h2 := tracks_congr _ s3 _ _ (applyEffs_frame _ s3 vm.effs env.newAddr heff he) (applyEffs_w _ _ _ he) h1
    have h3 : Tracks (if vm.retCode = true then setCode s3 env.newAddr else s3) env.newAddr (b + tx.value) := by
      split
      · exact tracks_setCode_self s3 _ _ h2
      · exact h2
    simpa using h3

/-- the recipient (of a call: `tx.to`; of a creation: the new contract) when `TransitionDb` returns -/
theorem transitionDb_recipient (env : Env) (s s1 : St) (tx : Tx) (vm : VmOut) (er : ExecResult) (t : Addr)
    (h0 : s.cache = []) (ht : t = (match tx.to with | some x => x | none => env.newAddr))
    (hat : t ≠ tx.sender) (heff : ∀ e ∈ vm.effs, e.addr ≠ t)
    (h : transitionDb env s tx vm = some (s1, .ok er)) :
    Tracks s1 t (nativeBalance s.w t + (if er.failed = true then 0 else tx.value)) := by
  obtain ⟨s2, gl, f, -, hr, -, -, rfl, rfl⟩ := transitionDb_ok env s s1 tx vm er h
  have hb : Tracks (bought s tx) t (nativeBalance s.w t) := by
    refine Or.inl ⟨?_, ?_⟩
    · unfold bought; rw [subBalance_frame s tx.sender t _ hat, h0]; rfl
    · simp [bought_w, nativeBalance]
  have hs2 : Tracks s2 t (nativeBalance s.w t + (if f = true then 0 else tx.value)) := by
    unfold runVm at hr
    split at hr
    · rename_i hto
      simp only [hto] at ht
      subst ht
      exact evmCreate_recipient env _ tx vm _ s2 gl f _ hb hat heff hr
    · rename_i x hto
      simp only [hto] at ht
      subst ht
      have hc := tracks_congr _ (setNonce (bought s tx) tx.sender (evmNonce (bought s tx) tx.sender + 1)) _ _
        (setNonce_frame (bought s tx) tx.sender t _ hat) (setNonce_w _ _ _) hb
      exact evmCall_recipient _ tx t _ vm s2 gl f _ hc hat heff hr
  exact tracks_congr _ _ _ _ (addBalance_frame s2 tx.sender t _ hat) (addBalance_w _ _ _) hs2
/-! ## an account nobody names -/

theorem evmCall_bystander (s : St) (tx : Tx) (t : Addr) (gas : Nat) (vm : VmOut) (s2 : St) (gl : Nat) (f : Bool)
    (c : Addr) (b : Int) (h : Tracks s c b) (hcs : c ≠ tx.sender) (hct : c ≠ t)
    (heff : ∀ e ∈ vm.effs, e.addr ≠ c) (hr : evmCall s tx t gas vm = some (s2, gl, f)) : Tracks s2 c b := by
  have hpre : Tracks (transfer (callPrep s t) tx.sender t tx.value) c b := by
    unfold transfer
    refine tracks_congr _ _ _ _ ?_ (by simp [callPrep_w]) h
    rw [addBalance_frame _ t c _ hct, subBalance_frame _ tx.sender c _ hcs, callPrep_frame s t c hct]
  rcases evmCall_cases s tx t gas vm s2 gl f hr with
    ⟨rfl, -⟩ | ⟨rfl, -⟩ | ⟨rfl, -⟩ | ⟨rfl, -⟩ | ⟨s3, he, rfl, -⟩
  · exact h
  · exact h
  · exact hpre
  · exact h
  · exact tracks_congr _ s3 _ _ (applyEffs_frame _ s3 vm.effs c heff he) (applyEffs_w _ _ _ he) hpre

theorem evmCreate_bystander (env : Env) (s : St) (tx : Tx) (vm : VmOut) (gas : Nat) (s2 : St) (gl : Nat) (f : Bool)
    (c : Addr) (b : Int) (h : Tracks s c b) (hcs : c ≠ tx.sender) (hct : c ≠ env.newAddr)
    (heff : ∀ e ∈ vm.effs, e.addr ≠ c) (hr : evmCreate env s tx vm gas = some (s2, gl, f)) : Tracks s2 c b := by
  have h0 : Tracks (setNonce s tx.sender (evmNonce s tx.sender + 1)) c b :=
    tracks_congr _ _ _ _ (setNonce_frame s tx.sender _ _ hcs) (setNonce_w _ _ _) h
  have hpre : Tracks (createPrep (setNonce s tx.sender (evmNonce s tx.sender + 1)) tx env.newAddr) c b := by
    unfold createPrep transfer
    refine tracks_congr _ _ _ _ ?_ (by simp) h0
    rw [addBalance_frame _ env.newAddr c _ hct, subBalance_frame _ tx.sender c _ hcs,
      setNonce_frame _ env.newAddr c _ hct, createAccount_frame _ env.newAddr c hct]
  rcases evmCreate_cases env s tx vm gas s2 gl f hr with
    ⟨rfl, -⟩ | ⟨rfl, -⟩ | ⟨rfl, -⟩ | ⟨s3, he, rfl, -⟩
  · exact h
  · exact h0
  · exact h0
  · have h2 := tracks_congr _ s3 _ _ (applyEffs_frame _ s3 vm.effs c heff he) (applyEffs_w _ _ _ he) hpre
    split
    · exact tracks_congr _ _ _ _ (setCode_frame s3 env.newAddr c hct) (setCode_w _ _) h2
    · exact h2

theorem transitionDb_bystander (env : Env) (s s1 : St) (tx : Tx) (vm : VmOut) (er : ExecResult) (c : Addr)
    (h0 : s.cache = []) (hcs : c ≠ tx.sender) (hct : tx.to ≠ some c) (hcn : c ≠ env.newAddr)
    (heff : ∀ e ∈ vm.effs, e.addr ≠ c)
    (h : transitionDb env s tx vm = some (s1, .ok er)) : Tracks s1 c (nativeBalance s.w c) := by
  obtain ⟨s2, gl, f, -, hr, -, -, rfl, rfl⟩ := transitionDb_ok env s s1 tx vm er h
  have hb : Tracks (bought s tx) c (nativeBalance s.w c) := by
    refine Or.inl ⟨?_, ?_⟩
    · unfold bought; rw [subBalance_frame s tx.sender c _ hcs, h0]; rfl
    · simp [bought_w, nativeBalance]
  have hs2 : Tracks s2 c (nativeBalance s.w c) := by
    unfold runVm at hr
    split at hr
    · exact evmCreate_bystander env _ tx vm _ s2 gl f c _ hb hcs hcn heff hr
    · rename_i x hto
      have hcx : c ≠ x := by intro e; apply hct; rw [hto, e]
      have hc := tracks_congr _ (setNonce (bought s tx) tx.sender (evmNonce (bought s tx) tx.sender + 1)) _ _
        (setNonce_frame (bought s tx) tx.sender c _ hcs) (setNonce_w _ _ _) hb
      exact evmCall_bystander _ tx x _ vm s2 gl f c _ hc hcs hcx heff hr
  exact tracks_congr _ _ _ _ (addBalance_frame s2 tx.sender c _ hcs) (addBalance_w _ _ _) hs2
/-! ## accounting: what the object cache holds on top of the records -/

def pendL (w : World) : List (Addr × Obj) → Int
  | [] => 0
  | p :: t => (p.2.bal - bal w.bal p.1) + pendL w t

/-- Σ over the cached objects of (working balance − stored balance) -/
def pend (s : St) : Int := pendL s.w s.cache

theorem evmBalance_cases (s : St) (a : Addr) :
    evmBalance s a = match alookup a s.cache with
      | some o => o.bal
      | none => bal s.w.bal a := by
  unfold evmBalance peek
  cases hc : alookup a s.cache with
  | some o => rfl
  | none =>
    simp only
    cases hl : loadAcct s.w a with
    | none => simp [loadAcct_none s.w a hl]
    | some o => simp [(loadAcct_some s.w a o hl).1]

theorem pendL_upsert (w : World) (c : List (Addr × Obj)) (a : Addr) (o' : Obj) :
    pendL w (upsert c a o') = pendL w c +
      (o'.bal - (match alookup a c with
        | some o => o.bal
        | none => bal w.bal a)) := by
  induction c with
  | nil => simp [upsert, pendL, alookup]
  | cons hd t ih =>
    obtain ⟨k, o⟩ := hd
    by_cases hk : k = a
    · subst hk
      simp only [upsert, if_true, pendL, alookup]
      omega
    · simp only [upsert, hk, if_false, pendL, alookup, ih]
      omega

theorem pend_putObj (s : St) (a : Addr) (o' : Obj) :
    pend (putObj s a o') = pend s + (o'.bal - evmBalance s a) := by
  unfold pend putObj
  simp only
  rw [pendL_upsert, evmBalance_cases]

theorem pend_subBalance (s : St) (a : Addr) (n : Int) : pend (subBalance s a n) = pend s - n := by
  rw [subBalance_eq, pend_putObj, ← evmBalance_eq_objOrNew]
  unfold subF
  by_cases h : n = 0
  · simp [h]
  · simp [h]; omega

theorem pend_addBalance (s : St) (a : Addr) (n : Int) : pend (addBalance s a n) = pend s + n := by
  rw [addBalance_eq, pend_putObj, ← evmBalance_eq_objOrNew]
  unfold addF
  by_cases h : n = 0
  · by_cases he : isEmpty (objOrNew s a) = true <;> simp [h, he]
  · simp [h]; omega

theorem pend_setNonce (s : St) (a : Addr) (k : Nat) : pend (setNonce s a k) = pend s := by
  rw [setNonce_eq, pend_putObj, ← evmBalance_eq_objOrNew]; simp [nonceF]

theorem pend_setCode (s : St) (a : Addr) : pend (setCode s a) = pend s := by
  rw [setCode_eq, pend_putObj, ← evmBalance_eq_objOrNew]; simp [codeF]

theorem pend_createAccount (s : St) (a : Addr) : pend (createAccount s a) = pend s := by
  unfold createAccount
  cases hp : peek s a with
  | some p =>
    simp only
    rw [pend_putObj]
    have : evmBalance s a = p.bal := by simp [evmBalance, hp]
    simp [this]
  | none =>
    simp only
    rw [pend_putObj]
    have : (objOrNew s a).bal = evmBalance s a := evmBalance_eq_objOrNew s a
    simp only [objOrNew, hp] at this
    rw [this]; omega

theorem pend_transfer (s : St) (x y : Addr) (v : Int) : pend (transfer s x y v) = pend s := by
  unfold transfer; rw [pend_addBalance, pend_subBalance]; omega

theorem pend_callPrep (s : St) (t : Addr) : pend (callPrep s t) = pend s := by
  unfold callPrep; split
  · rfl
  · exact pend_createAccount s t

theorem pend_createPrep (s : St) (tx : Tx) (a : Addr) : pend (createPrep s tx a) = pend s := by
  unfold createPrep; rw [pend_transfer, pend_setNonce, pend_createAccount]

theorem pend_suicide (s : St) (a : Addr) : pend (suicide s a) = pend s - evmBalance s a := by
  unfold suicide
  cases hp : peek s a with
  | none => simp [evmBalance, hp]
  | some o =>
    simp only
    rw [pend_putObj]
    have : evmBalance s a = o.bal := by simp [evmBalance, hp]
    simp only [this]; omega

/-- the interpreter's calls change the sum of working balances by exactly `vmNet` -/
theorem pend_applyEffs (s s' : St) (l : List Eff) (he : applyEffs s l = some s') :
    pend s' = pend s + vmNet s l := by
  induction l generalizing s with
  | nil => simp [applyEffs] at he; subst he; simp [vmNet]
  | cons e t ih =>
    simp only [applyEffs] at he
    cases h1 : applyEff s e with
    | none => simp [h1] at he
    | some s1 =>
      simp only [h1] at he
      cases e with
      | sub a n =>
        simp only [applyEff] at h1
        split at h1
        · simp at h1
        · simp at h1; subst h1
          rw [ih _ he, pend_subBalance]; simp only [vmNet]; omega
      | add a n =>
        simp only [applyEff, Option.some.injEq] at h1; subst h1
        rw [ih _ he, pend_addBalance]; simp only [vmNet]; omega
      | suicide a =>
        simp only [applyEff, Option.some.injEq] at h1; subst h1
        rw [ih _ he, pend_suicide]; simp only [vmNet]; omega

/-- without `Suicide` calls the net is the state-independent sum of credits minus debits -/
theorem vmNet_noSuicide (s : St) (l : List Eff) (hn : noSuicide l = true) : vmNet s l = effSum l := by
  induction l generalizing s with
  | nil => rfl
  | cons e t ih =>
    cases e with
    | sub a n => simp only [vmNet, effSum]; rw [ih _ (by simpa [noSuicide] using hn)]
    | add a n => simp only [vmNet, effSum]; rw [ih _ (by simpa [noSuicide] using hn)]
    | suicide a => simp [noSuicide] at hn

theorem pend_evmCall (s : St) (tx : Tx) (t : Addr) (gas : Nat) (vm : VmOut) (s2 : St) (gl : Nat) (f : Bool)
    (hz : vmNet (transfer (callPrep s t) tx.sender t tx.value) vm.effs = 0)
    (hr : evmCall s tx t gas vm = some (s2, gl, f)) : pend s2 = pend s := by
  rcases evmCall_cases s tx t gas vm s2 gl f hr with
    ⟨rfl, -⟩ | ⟨rfl, -⟩ | ⟨rfl, -⟩ | ⟨rfl, -⟩ | ⟨s3, he, rfl, -⟩
  · rfl
  · rfl
  · rw [pend_transfer, pend_callPrep]
  · rfl
  · rw [pend_applyEffs _ _ _ he, pend_transfer, pend_callPrep, hz]; omega

theorem pend_evmCreate (env : Env) (s : St) (tx : Tx) (vm : VmOut) (gas : Nat) (s2 : St) (gl : Nat) (f : Bool)
    (hz : vmNet (createPrep (setNonce s tx.sender (evmNonce s tx.sender + 1)) tx env.newAddr) vm.effs = 0)
    (hr : evmCreate env s tx vm gas = some (s2, gl, f)) : pend s2 = pend s := by
  rcases evmCreate_cases env s tx vm gas s2 gl f hr with
    ⟨rfl, -⟩ | ⟨rfl, -⟩ | ⟨rfl, -⟩ | ⟨s3, he, rfl, -⟩
  · rfl
  · rw [pend_setNonce]
  · rw [pend_setNonce]
  · have h3 : pend s3 = pend s := by
      rw [pend_applyEffs _ _ _ he, pend_createPrep, pend_setNonce, hz]; omega
    split
    · rw [pend_setCode, h3]
    · exact h3

theorem pend_empty (s : St) (h : s.cache = []) : pend s = 0 := by simp [pend, h, pendL]

/-- what the cache holds on top of the records when `TransitionDb` returns: the sender has paid
    for the gas that was used, everything else nets to zero -/
theorem pend_transitionDb (env : Env) (s s1 : St) (tx : Tx) (vm : VmOut) (er : ExecResult)
    (h0 : s.cache = []) (hz : vmNet (vmInput env s tx) vm.effs = 0)
    (h : transitionDb env s tx vm = some (s1, .ok er)) :
    ∃ gf : Nat, er.usedGas = gasU tx - gf ∧
      pend s1 = - ((gasU tx : Int) * tx.price) + (gf : Int) * tx.price := by
  obtain ⟨s2, gl, f, -, hr, -, -, rfl, rfl⟩ := transitionDb_ok env s s1 tx vm er h
  refine ⟨gasFinal tx vm gl, rfl, ?_⟩
  have hs2 : pend s2 = pend (bought s tx) := by
    unfold runVm at hr
    unfold vmInput at hz
    split at hr
    · rename_i hto
      simp only [hto] at hz
      exact pend_evmCreate env _ tx vm _ s2 gl f hz hr
    · rename_i t hto
      simp only [hto] at hz
      rw [pend_evmCall _ tx _ _ vm s2 gl f hz hr, pend_setNonce]
      rfl
  rw [pend_addBalance, hs2]
  unfold bought
  rw [pend_subBalance, pend_empty s h0]; omega

/-! ## what `Finalise` does to the total -/

/-- Σ over the cached objects of what `Finalise` adds to the stored balance -/
def wsum (w : World) : List (Addr × Obj) → Int
  | [] => 0
  | p :: t => (if gone p.2 then - bal w.bal p.1 else if p.2.dirty then p.2.bal - bal w.bal p.1 else 0) + wsum w t

theorem wsum_congr (w w' : World) (c : List (Addr × Obj)) (h : ∀ a ∈ akeys c, bal w'.bal a = bal w.bal a) :
    wsum w' c = wsum w c := by
  induction c with
  | nil => rfl
  | cons hd t ih =>
    have h1 : bal w'.bal hd.1 = bal w.bal hd.1 := h hd.1 (by simp [akeys])
    have h2 := ih (fun a ha => h a (by simp [akeys] at ha ⊢; exact Or.inr ha))
    simp only [wsum, h1, h2]

theorem total_removeAccount (w : World) (a : Addr) :
    total (removeAccount w a).bal = total w.bal - bal w.bal a := by
  unfold removeAccount
  simp only
  split
  · omega
  · rw [total_setBal]; omega

theorem total_finaliseObj (w : World) (p : Addr × Obj) :
    total (finaliseObj w p).bal = total w.bal +
      (if gone p.2 then - bal w.bal p.1 else if p.2.dirty then p.2.bal - bal w.bal p.1 else 0) := by
  unfold finaliseObj
  split
  · rw [total_removeAccount]; omega
  · split
    · simp only [setAccount, total_setBal]; omega
    · simp

theorem total_finW (w : World) (c : List (Addr × Obj)) (hn : (akeys c).Nodup) :
    total (finW w c).bal = total w.bal + wsum w c := by
  induction c generalizing w with
  | nil => simp [finW, wsum]
  | cons hd t ih =>
    have hn' : hd.1 ∉ akeys t ∧ (akeys t).Nodup := by simpa [akeys] using hn
    have hstep : finW w (hd :: t) = finW (finaliseObj w hd) t := rfl
    rw [hstep, ih _ hn'.2, total_finaliseObj]
    have : wsum (finaliseObj w hd) t = wsum w t := by
      apply wsum_congr
      intro a ha
      apply finaliseObj_bal_ne
      intro e; subst e; exact hn'.1 ha
    rw [this]; simp only [wsum]; omega

/-- every clean cached object holds exactly the stored balance (it is what the keeper returned) -/
def Mirror (s : St) : Prop :=
  ∀ a o, alookup a s.cache = some o → o.dirty = false → o.bal = bal s.w.bal a

theorem alookup_of_mem_nodup (c : List (Addr × Obj)) (a : Addr) (o : Obj) (hm : (a, o) ∈ c)
    (hn : (akeys c).Nodup) : alookup a c = some o := by
  induction c with
  | nil => simp at hm
  | cons hd t ih =>
    obtain ⟨k, v⟩ := hd
    have hn' : k ∉ akeys t ∧ (akeys t).Nodup := by simpa [akeys] using hn
    simp only [List.mem_cons, Prod.mk.injEq] at hm
    rcases hm with ⟨rfl, rfl⟩ | hm
    · simp [alookup]
    · have hk : k ≠ a := by
        intro e; subst e
        apply hn'.1
        simp only [akeys, List.mem_map]
        exact ⟨(k, o), hm, rfl⟩
      simp [alookup, hk, ih hm hn'.2]

theorem wsum_eq_pendL (w : World) (c : List (Addr × Obj))
    (h : ∀ p ∈ c, p.2.dirty = false → p.2.bal = bal w.bal p.1) :
    wsum w c = pendL w c - burntAt c := by
  induction c with
  | nil => rfl
  | cons hd t ih =>
    have h1 := h hd (by simp)
    have h2 := ih (fun p hp => h p (List.mem_cons_of_mem _ hp))
    simp only [wsum, pendL, burntAt, h2]
    by_cases hg : gone hd.2 = true
    · simp only [hg, if_true]; omega
    · by_cases hd' : hd.2.dirty = true
      · simp only [hg, Bool.false_eq_true, if_false, hd', if_true]; omega
      · simp only [hg, Bool.false_eq_true, if_false, hd']
        have := h1 (by simpa using hd')
        omega

/-- `Finalise` moves into the records exactly what the cache held on top of them, except what the
    dropped objects held: that is gone -/
theorem total_finalise (s : St) (hwf : WF s) (hs : Mirror s) :
    total (finalise s).w.bal = total s.w.bal + pend s - burntAt s.cache := by
  rw [finalise_w, total_finW _ _ hwf, wsum_eq_pendL]
  · unfold pend; omega
  · intro p hp hq
    exact hs p.1 p.2 (alookup_of_mem_nodup _ _ _ hp hwf) hq

/-! ## the invariant behind value conservation: clean objects mirror the records -/

theorem mirror_putObj (s : St) (a : Addr) (o' : Obj) (h : Mirror s)
    (ho : o'.dirty = false → o'.bal = bal s.w.bal a) : Mirror (putObj s a o') := by
  intro b o hb hd
  rw [alookup_putObj] at hb
  by_cases hba : b = a
  · subst hba; simp at hb; subst hb; exact ho hd
  · simp [hba] at hb; exact h b o hb hd

theorem mirror_objOrNew (s : St) (a : Addr) (h : Mirror s) (hd : (objOrNew s a).dirty = false) :
    (objOrNew s a).bal = bal s.w.bal a := by
  cases hc : alookup a s.cache with
  | some o => rw [objOrNew_of_cache s a o hc] at hd ⊢; exact h a o hc hd
  | none =>
    have hp : peek s a = loadAcct s.w a := by simp [peek, hc]
    cases hl : loadAcct s.w a with
    | some o =>
      have ho : objOrNew s a = o := by simp [objOrNew, hp, hl]
      rw [ho]; exact (loadAcct_some s.w a o hl).1
    | none =>
      have ho : objOrNew s a = freshObj s a := by simp [objOrNew, hp, hl]
      rw [ho]; rfl

theorem mirror_subBalance (s : St) (a : Addr) (n : Int) (h : Mirror s) : Mirror (subBalance s a n) := by
  rw [subBalance_eq]
  apply mirror_putObj s a _ h
  unfold subF
  by_cases hn : n = 0
  · simp only [hn, if_true]; exact mirror_objOrNew s a h
  · simp [hn]

theorem mirror_addBalance (s : St) (a : Addr) (n : Int) (h : Mirror s) : Mirror (addBalance s a n) := by
  rw [addBalance_eq]
  apply mirror_putObj s a _ h
  unfold addF
  by_cases hn : n = 0
  · by_cases he : isEmpty (objOrNew s a) = true
    · simp [hn, he]
    · simp only [hn, he, if_true, Bool.false_eq_true, if_false]; exact mirror_objOrNew s a h
  · simp [hn]

theorem mirror_setNonce (s : St) (a : Addr) (k : Nat) (h : Mirror s) : Mirror (setNonce s a k) := by
  rw [setNonce_eq]; exact mirror_putObj s a _ h (by simp [nonceF])

theorem mirror_setCode (s : St) (a : Addr) (h : Mirror s) : Mirror (setCode s a) := by
  rw [setCode_eq]; exact mirror_putObj s a _ h (by simp [codeF])

theorem mirror_suicide (s : St) (a : Addr) (h : Mirror s) : Mirror (suicide s a) := by
  unfold suicide; split
  · exact h
  · exact mirror_putObj s a _ h (by simp)

theorem mirror_createAccount (s : St) (a : Addr) (h : Mirror s) : Mirror (createAccount s a) := by
  unfold createAccount; split <;> exact mirror_putObj s a _ h (by simp [freshObj])

theorem mirror_transfer (s : St) (x y : Addr) (v : Int) (h : Mirror s) : Mirror (transfer s x y v) :=
  mirror_addBalance _ _ _ (mirror_subBalance _ _ _ h)

theorem mirror_callPrep (s : St) (t : Addr) (h : Mirror s) : Mirror (callPrep s t) := by
  unfold callPrep; split
  · exact h
  · exact mirror_createAccount s t h

theorem mirror_createPrep (s : St) (tx : Tx) (a : Addr) (h : Mirror s) : Mirror (createPrep s tx a) :=
  mirror_transfer _ _ _ _ (mirror_setNonce _ _ _ (mirror_createAccount _ _ h))

theorem mirror_applyEffs (s s' : St) (l : List Eff) (h : Mirror s) (he : applyEffs s l = some s') :
    Mirror s' := by
  induction l generalizing s with
  | nil => simp [applyEffs] at he; subst he; exact h
  | cons e t ih =>
    simp only [applyEffs] at he
    cases h1 : applyEff s e with
    | none => simp [h1] at he
    | some s1 =>
      simp only [h1] at he
      apply ih s1 _ he
      cases e with
      | sub a n =>
        simp only [applyEff] at h1
        split at h1
        · simp at h1
        · simp at h1; subst h1; exact mirror_subBalance s a n h
      | add a n => simp only [applyEff, Option.some.injEq] at h1; subst h1; exact mirror_addBalance s a n h
      | suicide a => simp only [applyEff, Option.some.injEq] at h1; subst h1; exact mirror_suicide s a h

theorem mirror_evmCall (s : St) (tx : Tx) (t : Addr) (gas : Nat) (vm : VmOut) (s2 : St) (gl : Nat) (f : Bool)
    (h : Mirror s) (hr : evmCall s tx t gas vm = some (s2, gl, f)) : Mirror s2 := by
  have hpre := mirror_transfer _ tx.sender t tx.value (mirror_callPrep s t h)
  rcases evmCall_cases s tx t gas vm s2 gl f hr with
    ⟨rfl, -⟩ | ⟨rfl, -⟩ | ⟨rfl, -⟩ | ⟨rfl, -⟩ | ⟨s3, he, rfl, -⟩
  · exact h
  · exact h
  · exact hpre
  · exact h
  · exact mirror_applyEffs _ s3 vm.effs hpre he

theorem mirror_evmCreate (env : Env) (s : St) (tx : Tx) (vm : VmOut) (gas : Nat) (s2 : St) (gl : Nat) (f : Bool)
    (h : Mirror s) (hr : evmCreate env s tx vm gas = some (s2, gl, f)) : Mirror s2 := by
  have h0 := mirror_setNonce s tx.sender (evmNonce s tx.sender + 1) h
  rcases evmCreate_cases env s tx vm gas s2 gl f hr with
    ⟨rfl, -⟩ | ⟨rfl, -⟩ | ⟨rfl, -⟩ | ⟨s3, he, rfl, -⟩
  · exact h
  · exact h0
  · exact h0
  · have h3 := mirror_applyEffs _ s3 vm.effs (mirror_createPrep _ tx env.newAddr h0) he
    split
    · exact mirror_setCode s3 _ h3
    · exact h3

theorem mirror_of_empty (s : St) (h : s.cache = []) : Mirror s := by
  intro a o ha; rw [h] at ha; simp [alookup] at ha

/-- the invariant holds when `TransitionDb` returns -/
theorem mirror_transitionDb (env : Env) (s s1 : St) (tx : Tx) (vm : VmOut) (er : ExecResult)
    (h0 : s.cache = []) (h : transitionDb env s tx vm = some (s1, .ok er)) : Mirror s1 := by
  obtain ⟨s2, gl, f, -, hr, -, -, rfl, rfl⟩ := transitionDb_ok env s s1 tx vm er h
  have hb : Mirror (bought s tx) := mirror_subBalance s _ _ (mirror_of_empty s h0)
  have hs2 : Mirror s2 := by
    unfold runVm at hr
    split at hr
    · exact mirror_evmCreate env _ tx vm _ s2 gl f hb hr
    · exact mirror_evmCall _ tx _ _ vm s2 gl f (mirror_setNonce _ _ _ hb) hr
  exact mirror_addBalance s2 _ _ hs2

/-! ## what `Finalise` drops is never negative -/

/-- no cached object is suicided (true until the interpreter runs) -/
def NoSui (s : St) : Prop := ∀ a o, alookup a s.cache = some o → o.suicided = false

/-- a suicided cached object holds a non-negative balance and is not the sender's -/
def SuiOk (snd : Addr) (s : St) : Prop :=
  ∀ a o, alookup a s.cache = some o → o.suicided = true → 0 ≤ o.bal ∧ a ≠ snd

theorem objOrNew_suicided_of (s : St) (a : Addr) (h : alookup a s.cache = none) :
    (objOrNew s a).suicided = false := by
  have hp : peek s a = loadAcct s.w a := by simp [peek, h]
  cases hl : loadAcct s.w a with
  | some o => simp [objOrNew, hp, hl, (loadAcct_some s.w a o hl).2.2]
  | none => simp [objOrNew, hp, hl, freshObj]

theorem noSui_objOrNew (s : St) (a : Addr) (h : NoSui s) : (objOrNew s a).suicided = false := by
  cases hc : alookup a s.cache with
  | some o => rw [objOrNew_of_cache s a o hc]; exact h a o hc
  | none => exact objOrNew_suicided_of s a hc

theorem noSui_putObj (s : St) (a : Addr) (o' : Obj) (h : NoSui s) (ho : o'.suicided = false) :
    NoSui (putObj s a o') := by
  intro b o hb
  rw [alookup_putObj] at hb
  by_cases hba : b = a
  · simp [hba] at hb; subst hb; exact ho
  · simp [hba] at hb; exact h b o hb

theorem noSui_subBalance (s : St) (a : Addr) (n : Int) (h : NoSui s) : NoSui (subBalance s a n) := by
  rw [subBalance_eq]; apply noSui_putObj s a _ h
  have := noSui_objOrNew s a h
  unfold subF; split <;> simp [this]
theorem noSui_addBalance (s : St) (a : Addr) (n : Int) (h : NoSui s) : NoSui (addBalance s a n) := by
  rw [addBalance_eq]; apply noSui_putObj s a _ h
  have := noSui_objOrNew s a h
  unfold addF; split
  · split <;> simp [this]
  · simp [this]
theorem noSui_setNonce (s : St) (a : Addr) (k : Nat) (h : NoSui s) : NoSui (setNonce s a k) := by
  rw [setNonce_eq]; exact noSui_putObj s a _ h (by simp [nonceF, noSui_objOrNew s a h])
theorem noSui_createAccount (s : St) (a : Addr) (h : NoSui s) : NoSui (createAccount s a) := by
  unfold createAccount; split <;> exact noSui_putObj s a _ h (by simp [freshObj])
theorem noSui_transfer (s : St) (x y : Addr) (v : Int) (h : NoSui s) : NoSui (transfer s x y v) :=
  noSui_addBalance _ _ _ (noSui_subBalance _ _ _ h)
theorem noSui_callPrep (s : St) (t : Addr) (h : NoSui s) : NoSui (callPrep s t) := by
  unfold callPrep; split
  · exact h
  · exact noSui_createAccount s t h
theorem noSui_createPrep (s : St) (tx : Tx) (a : Addr) (h : NoSui s) : NoSui (createPrep s tx a) :=
  noSui_transfer _ _ _ _ (noSui_setNonce _ _ _ (noSui_createAccount _ _ h))
theorem noSui_of_empty (s : St) (h : s.cache = []) : NoSui s := by
  intro a o ha; rw [h] at ha; simp [alookup] at ha

theorem suiOk_of_noSui (snd : Addr) (s : St) (h : NoSui s) : SuiOk snd s := by
  intro a o ha hs; rw [h a o ha] at hs; simp at hs

theorem suiOk_putObj (snd : Addr) (s : St) (a : Addr) (o' : Obj) (h : SuiOk snd s)
    (ho : o'.suicided = true → 0 ≤ o'.bal ∧ a ≠ snd) : SuiOk snd (putObj s a o') := by
  intro b o hb hs
  rw [alookup_putObj] at hb
  by_cases hba : b = a
  · subst hba; simp at hb; subst hb; exact ho hs
  · simp [hba] at hb; exact h b o hb hs

/-- what `objOrNew` finds: a suicided object is a cached one -/
theorem suiOk_objOrNew (snd : Addr) (s : St) (a : Addr) (h : SuiOk snd s)
    (hs : (objOrNew s a).suicided = true) : 0 ≤ (objOrNew s a).bal ∧ a ≠ snd := by
  cases hc : alookup a s.cache with
  | some o => rw [objOrNew_of_cache s a o hc] at hs ⊢; exact h a o hc hs
  | none => rw [objOrNew_suicided_of s a hc] at hs; simp at hs

theorem suiOk_addBalance (snd : Addr) (s : St) (a : Addr) (n : Int) (h : SuiOk snd s) (hn : 0 ≤ n) :
    SuiOk snd (addBalance s a n) := by
  rw [addBalance_eq]; apply suiOk_putObj snd s a _ h
  intro hs
  unfold addF at hs ⊢
  by_cases hz : n = 0
  · by_cases he : isEmpty (objOrNew s a) = true
    · simp only [hz, he, if_true] at hs ⊢; exact suiOk_objOrNew snd s a h hs
    · simp only [hz, he, if_true, Bool.false_eq_true, if_false] at hs ⊢; exact suiOk_objOrNew snd s a h hs
  · simp only [hz, if_false] at hs ⊢
    have := suiOk_objOrNew snd s a h hs
    exact ⟨by omega, this.2⟩

theorem suiOk_setCode (snd : Addr) (s : St) (a : Addr) (h : SuiOk snd s) : SuiOk snd (setCode s a) := by
  rw [setCode_eq]; apply suiOk_putObj snd s a _ h
  intro hs; exact suiOk_objOrNew snd s a h hs

theorem suiOk_applyEffs (snd : Addr) (s s' : St) (l : List Eff) (h : SuiOk snd s)
    (hadd : ∀ a n, Eff.add a n ∈ l → 0 ≤ n) (hsnd : Eff.suicide snd ∉ l)
    (he : applyEffs s l = some s') : SuiOk snd s' := by
  induction l generalizing s with
  | nil => simp [applyEffs] at he; subst he; exact h
  | cons e t ih =>
    simp only [applyEffs] at he
    cases h1 : applyEff s e with
    | none => simp [h1] at he
    | some s1 =>
      simp only [h1] at he
      apply ih s1 _ (fun a n hm => hadd a n (List.mem_cons_of_mem _ hm))
        (fun hm => hsnd (List.mem_cons_of_mem _ hm)) he
      cases e with
      | sub a n =>
        simp only [applyEff] at h1
        split at h1
        · simp at h1
        · rename_i hge
          simp at h1; subst h1
          rw [subBalance_eq]; apply suiOk_putObj snd s a _ h
          intro hs
          unfold subF at hs ⊢
          by_cases hz : n = 0
          · simp only [hz, if_true] at hs ⊢; exact suiOk_objOrNew snd s a h hs
          · simp only [hz, if_false] at hs ⊢
            exact ⟨by omega, (suiOk_objOrNew snd s a h hs).2⟩
      | add a n =>
        simp only [applyEff, Option.some.injEq] at h1; subst h1
        exact suiOk_addBalance snd s a n h (hadd a n List.mem_cons_self)
      | suicide a =>
        simp only [applyEff, Option.some.injEq] at h1; subst h1
        have hne : a ≠ snd := by
          intro e; subst e; exact hsnd List.mem_cons_self
        unfold suicide
        split
        · exact h
        · exact suiOk_putObj snd s a _ h (fun _ => ⟨by simp, hne⟩)

theorem burntAt_nonneg (snd : Addr) (s : St) (hwf : WF s) (h : SuiOk snd s) : 0 ≤ burntAt s.cache := by
  have key : ∀ c : List (Addr × Obj), (∀ p ∈ c, p.2.suicided = true → 0 ≤ p.2.bal) → 0 ≤ burntAt c := by
    intro c
    induction c with
    | nil => intro _; simp [burntAt]
    | cons hd t ih =>
      intro hc
      have h1 := hc hd (by simp)
      have h2 := ih (fun p hp => hc p (List.mem_cons_of_mem _ hp))
      simp only [burntAt]
      by_cases hg : gone hd.2 = true
      · simp only [hg, if_true]
        by_cases hs : hd.2.suicided = true
        · have := h1 hs; omega
        · unfold gone isEmpty at hg
          simp only [hs, Bool.false_or, Bool.and_eq_true, beq_iff_eq, Bool.not_eq_true'] at hg
          omega
      · simp only [hg, Bool.false_eq_true, if_false]; omega
  apply key
  intro p hp hs
  exact (h p.1 p.2 (alookup_of_mem_nodup _ _ _ hp hwf) hs).1

/-- when `TransitionDb` returns, a suicided object holds a non-negative balance -/
theorem suiOk_transitionDb (env : Env) (s s1 : St) (tx : Tx) (vm : VmOut) (er : ExecResult)
    (h0 : s.cache = []) (hadd : ∀ a n, Eff.add a n ∈ vm.effs → 0 ≤ n) (hsnd : Eff.suicide tx.sender ∉ vm.effs)
    (h : transitionDb env s tx vm = some (s1, .ok er)) : SuiOk tx.sender s1 := by
  obtain ⟨s2, gl, f, -, hr, -, -, rfl, rfl⟩ := transitionDb_ok env s s1 tx vm er h
  have hb : NoSui (bought s tx) := noSui_subBalance s _ _ (noSui_of_empty s h0)
  have hs2 : SuiOk tx.sender s2 := by
    unfold runVm at hr
    split at hr
    · have hn0 := noSui_setNonce _ tx.sender (evmNonce (bought s tx) tx.sender + 1) hb
      rcases evmCreate_cases env _ tx vm _ s2 gl f hr with
        ⟨rfl, -⟩ | ⟨rfl, -⟩ | ⟨rfl, -⟩ | ⟨s3, he, rfl, -⟩
      · exact suiOk_of_noSui _ _ hb
      · exact suiOk_of_noSui _ _ hn0
      · exact suiOk_of_noSui _ _ hn0
      · have h3 := suiOk_applyEffs tx.sender _ s3 vm.effs
          (suiOk_of_noSui _ _ (noSui_createPrep _ tx env.newAddr hn0)) hadd hsnd he
        split
        · exact suiOk_setCode _ s3 _ h3
        · exact h3
    · rename_i t _
      have hn0 := noSui_setNonce _ tx.sender (evmNonce (bought s tx) tx.sender + 1) hb
      rcases evmCall_cases _ tx t _ vm s2 gl f hr with
        ⟨rfl, -⟩ | ⟨rfl, -⟩ | ⟨rfl, -⟩ | ⟨rfl, -⟩ | ⟨s3, he, rfl, -⟩
      · exact suiOk_of_noSui _ _ hn0
      · exact suiOk_of_noSui _ _ hn0
      · exact suiOk_of_noSui _ _ (noSui_transfer _ _ _ _ (noSui_callPrep _ t hn0))
      · exact suiOk_of_noSui _ _ hn0
      · exact suiOk_applyEffs tx.sender _ s3 vm.effs
          (suiOk_of_noSui _ _ (noSui_transfer _ _ _ _ (noSui_callPrep _ t hn0))) hadd hsnd he
  -- the refund goes to the sender, whose object is not suicided
  rw [addBalance_eq]
  apply suiOk_putObj tx.sender s2 tx.sender _ hs2
  intro hs
  exfalso
  unfold addF at hs
  have hcontra : (objOrNew s2 tx.sender).suicided = true := by
    by_cases hz : (gasFinal tx vm gl : Int) * tx.price = 0
    · simp only [hz, if_true] at hs
      by_cases he : isEmpty (objOrNew s2 tx.sender) = true
      · simpa [he] using hs
      · simpa [he] using hs
    · simpa [hz] using hs
  exact (suiOk_objOrNew tx.sender s2 tx.sender hs2 hcontra).2 rfl

theorem noSui_setCode (s : St) (a : Addr) (h : NoSui s) : NoSui (setCode s a) := by
  rw [setCode_eq]; exact noSui_putObj s a _ h (by simp [codeF, noSui_objOrNew s a h])

theorem noSui_applyEffs (s s' : St) (l : List Eff) (h : NoSui s) (hn : noSuicide l = true)
    (he : applyEffs s l = some s') : NoSui s' := by
  induction l generalizing s with
  | nil => simp [applyEffs] at he; subst he; exact h
  | cons e t ih =>
    simp only [applyEffs] at he
    cases h1 : applyEff s e with
    | none => simp [h1] at he
    | some s1 =>
      simp only [h1] at he
      cases e with
      | sub a n =>
        simp only [applyEff] at h1
        split at h1
        · simp at h1
        · simp at h1; subst h1
          exact ih _ (noSui_subBalance s a n h) (by simpa [noSuicide] using hn) he
      | add a n =>
        simp only [applyEff, Option.some.injEq] at h1; subst h1
        exact ih _ (noSui_addBalance s a n h) (by simpa [noSuicide] using hn) he
      | suicide a => simp [noSuicide] at hn

/-- without a surviving `Suicide` call no cached object is suicided when `TransitionDb` returns -/
theorem noSui_transitionDb (env : Env) (s s1 : St) (tx : Tx) (vm : VmOut) (er : ExecResult)
    (h0 : s.cache = []) (hn : noSuicide vm.effs = true)
    (h : transitionDb env s tx vm = some (s1, .ok er)) : NoSui s1 := by
  obtain ⟨s2, gl, f, -, hr, -, -, rfl, rfl⟩ := transitionDb_ok env s s1 tx vm er h
  have hb : NoSui (bought s tx) := noSui_subBalance s _ _ (noSui_of_empty s h0)
  have hn0 := noSui_setNonce _ tx.sender (evmNonce (bought s tx) tx.sender + 1) hb
  have hs2 : NoSui s2 := by
    unfold runVm at hr
    split at hr
    · rcases evmCreate_cases env _ tx vm _ s2 gl f hr with
        ⟨rfl, -⟩ | ⟨rfl, -⟩ | ⟨rfl, -⟩ | ⟨s3, he, rfl, -⟩
      · exact hb
      · exact hn0
      · exact hn0
      · have h3 := noSui_applyEffs _ s3 vm.effs (noSui_createPrep _ tx env.newAddr hn0) hn he
        split
        · exact noSui_setCode s3 _ h3
        · exact h3
    · rename_i t _
      rcases evmCall_cases _ tx t _ vm s2 gl f hr with
        ⟨rfl, -⟩ | ⟨rfl, -⟩ | ⟨rfl, -⟩ | ⟨rfl, -⟩ | ⟨s3, he, rfl, -⟩
      · exact hn0
      · exact hn0
      · exact noSui_transfer _ _ _ _ (noSui_callPrep _ t hn0)
      · exact hn0
      · exact noSui_applyEffs _ s3 vm.effs (noSui_transfer _ _ _ _ (noSui_callPrep _ t hn0)) hn he
  exact noSui_addBalance s2 _ _ hs2

/-- objects that are dropped without being suicided are empty: nothing is burnt -/
theorem burntAt_zero_of_noSui (s : St) (hwf : WF s) (h : NoSui s) : burntAt s.cache = 0 := by
  have key : ∀ c : List (Addr × Obj), (∀ p ∈ c, p.2.suicided = false) → burntAt c = 0 := by
    intro c
    induction c with
    | nil => intro _; rfl
    | cons hd t ih =>
      intro hc
      have h1 := hc hd (by simp)
      have h2 := ih (fun p hp => hc p (List.mem_cons_of_mem _ hp))
      simp only [burntAt, h2]
      by_cases hg : gone hd.2 = true
      · simp only [hg, if_true]
        unfold gone isEmpty at hg
        simp only [h1, Bool.false_or, Bool.and_eq_true, beq_iff_eq, Bool.not_eq_true'] at hg
        omega
      · simp [hg]
  apply key
  intro p hp
  exact h p.1 p.2 (alookup_of_mem_nodup _ _ _ hp hwf)

/-! ## the burnt amount of a whole transaction -/

theorem burnt_of_ok (env : Env) (s s1 : St) (tx : Tx) (vm : VmOut) (er : ExecResult)
    (hv : validate env s.w tx = none) (ht : transitionDb env s tx vm = some (s1, .ok er))
    (hne : er.usedGas ≠ 0) (hle : (er.usedGas : Int) ≤ tx.gas) (hfee : er.usedGas < env.feeGasLeft) :
    burnt env s tx vm = burntAt s1.cache := by
  unfold burnt
  rw [hv, ht]
  simp only
  have : ¬ (er.usedGas = 0 ∨ (er.usedGas : Int) > tx.gas ∨ env.feeGasLeft ≤ er.usedGas) := by
    intro h; rcases h with h | h | h
    · exact hne h
    · omega
    · omega
  rw [if_neg this]

theorem burnt_of_refused (env : Env) (s s' : St) (tx : Tx) (vm : VmOut) (r : Resp)
    (h : deliverOlvm env s tx vm = (s', r)) (hc : r.code ≠ 0) : burnt env s tx vm = 0 := by
  unfold burnt
  unfold deliverOlvm at h
  cases hv : validate env s.w tx with
  | some e => rfl
  | none =>
    rw [hv] at h
    simp only at h ⊢
    cases ht : transitionDb env s tx vm with
    | none => rfl
    | some res =>
      obtain ⟨s1, rr⟩ := res
      rw [ht] at h
      simp only at h ⊢
      cases rr with
      | error e => rfl
      | ok er =>
        simp only at h ⊢
        by_cases h1 : er.usedGas = 0
        · simp [h1]
        · rw [if_neg h1] at h
          by_cases h2 : (er.usedGas : Int) > tx.gas
          · simp [h2]
          · rw [if_neg h2] at h
            by_cases h3 : env.feeGasLeft ≤ er.usedGas
            · simp [h3]
            · rw [if_neg h3] at h
              simp only [Prod.mk.injEq] at h
              rw [← h.2] at hc; simp at hc

end OLP.Olvm

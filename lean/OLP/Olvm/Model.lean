/-
  Layer D — the OLVM transaction pipeline (C17): one ledger, exact gas charge.

  Statement-by-statement port of
    * data/balance/keeper.go      `GetAccount` (+ `legacyFix`), `NewAccountWithAddress`,
                                  `SetAccount`, `RemoveAccount`, `GetNonce`, `GetBalance`
    * vm/statedb.go, statedb_aux.go, state_objects.go
                                  `getStateObject`, `GetOrNewStateObject`, `createObject`,
                                  `CreateAccount`, `SubBalance`, `AddBalance` (zero-amount touch rule),
                                  `SetNonce`, `SetCode`, `Suicide`, `Finalise`, `deleteStateObject`, `Reset`
    * vm/journal.go               `RevertToSnapshot` restores the snapshot exactly (the undo of a
                                  balance entry no longer journals a new one, d411c44)
    * vm/state_transition.go      `IntrinsicGas`, `preCheck`, `buyGas`, `TransitionDb`, `refundGas`
    * go-ethereum core/vm/evm.go  the outer layer of `EVM.Call` and `EVM.create` (existence test,
                                  account creation, nonce bump, collision test, value transfer,
                                  revert to snapshot, code deposit)
    * vm/evm.go                   `EVMTransaction.Apply` (Finalise also after a consensus error)
    * action/olvm/handler.go      `Validate` (`validateSigner`, `validateEthTx`, memo = nonce),
                                  `ProcessCheck` (no execution), `runOLVM`, `ProcessFee`
    * action/base.go              `ValidateFee`, `ContractFeeHandling` (SkipFee / WrongFee / pool credit)
    * app/controller.go           the session rule of `txDeliverer` (commit iff ok ∧ feeOk), `blockEnder` (Reset)

  The run of the interpreter itself (go-ethereum, trusted: DESIGN §5) is a PARAMETER `VmOut`:
  gas left, refund counter, whether it ended in an error, whether a creation returned code, and
  the ordered list of balance-changing calls the interpreter made on the `StateDB` interface
  while running code (`SubBalance` / `AddBalance` / `Suicide`) that survived its own reverts.
  Signature recovery, chain-id comparison, JSON/RLP sizes are decoded facts of the transaction
  (`Tx.sigOk`, …); keccak (`crypto.CreateAddress`) is not modelled: the address of a created
  contract is an input (`Env.newAddr`).

  Amounts are unbounded integers; `uint64(Fee.Gas)` is the explicit wrap `gasU`.
  Not modelled (stated as limits in scripts/props.py): contract storage / code bytes / logs,
  precompile recipients, contracts that CREATE, payloads that fail to unmarshal, `deleted` flags (objects are deleted only inside
  Finalise, which drops the whole cache), the insertion of *unmodified* loaded objects into the
  live cache by pure reads (an unmodified object equals what the keeper returns and is never
  written back).
  Core-only.
-/
import OLP.Ledger.Model

namespace OLP.Olvm
open OLP OLP.Ledger

abbrev Addr := String

/-- `keeper_<a>`: the serialised `EthAccount` with its coins blanked (`SetAccount`) -/
structure KRec where
  nonce : Nat
  code  : Bool        -- CodeHash ≠ keccak256(nil)
  deriving DecidableEq, Repr

/-- the three record classes the pipeline touches -/
structure World where
  bal    : L                       -- `b_<a>_OLT` (absent = 0): THE balance, read by both views
  keeper : List (Addr × KRec)      -- `keeper_<a>`
  pool   : Int                     -- `f_<POOL_KEY>`: the fee pool
  deriving DecidableEq, Repr

/-- `stateObject`: the EVM's working copy of one account -/
structure Obj where
  bal      : Int
  nonce    : Nat
  code     : Bool
  dirty    : Bool     -- the journal holds a surviving entry for the address
  suicided : Bool
  deriving DecidableEq, Repr

/-- the application state the pipeline sees: persisted records + `CommitStateDB.stateObjects` -/
structure St where
  w     : World
  cache : List (Addr × Obj)
  deriving DecidableEq, Repr

/-! ## account keeper -/

/-- `NesterAccountKeeper.GetAccount`: the keeper record supplies nonce and code hash, the coins
    ALWAYS come from the balance store; without a record an address with a non-zero balance is a
    "legacy" account (`legacyFix`), with a zero balance it does not exist -/
def loadAcct (w : World) (a : Addr) : Option Obj :=
  match alookup a w.keeper with
  | some r => some ⟨bal w.bal a, r.nonce, r.code, false, false⟩
  | none => if bal w.bal a ≠ 0 then some ⟨bal w.bal a, 0, false, false, false⟩ else none

/-- `keeper.GetNonce` -/
def keeperNonce (w : World) (a : Addr) : Nat :=
  match loadAcct w a with
  | some o => o.nonce
  | none => 0

/-- `keeper.GetBalance` = `balances.GetBalanceForCurr(addr, OLT)`: the native view -/
def nativeBalance (w : World) (a : Addr) : Int := bal w.bal a

/-- `SetAccount`: keeper record without coins + `balances.SetBalance` -/
def setAccount (w : World) (a : Addr) (o : Obj) : World :=
  { w with keeper := upsert w.keeper a ⟨o.nonce, o.code⟩, bal := setBal w.bal a o.bal }

/-- `RemoveAccount` (as repaired by da864f3 / c90a103): deletes the keeper record and, because the
    coins live in the balance store, leaves a ZERO balance record whenever the stored amount is not
    zero. A removed account is gone with whatever it still holds: what a contract is paid after its
    SELFDESTRUCT is burnt, as in go-ethereum. -/
def removeAccount (w : World) (a : Addr) : World :=
  { w with keeper := aerase w.keeper a,
           bal := if bal w.bal a = 0 then w.bal else setBal w.bal a 0 }

/-! ## CommitStateDB -/

/-- `getStateObject`: live object first, then the keeper -/
def peek (s : St) (a : Addr) : Option Obj :=
  match alookup a s.cache with
  | some o => some o
  | none => loadAcct s.w a

/-- `StateDB.GetBalance`: the EVM view -/
def evmBalance (s : St) (a : Addr) : Int :=
  match peek s a with
  | some o => o.bal
  | none => 0

def evmNonce (s : St) (a : Addr) : Nat :=
  match peek s a with
  | some o => o.nonce
  | none => 0

/-- `GetCodeHash ∉ {emptyHash, Hash{}}` -/
def evmCode (s : St) (a : Addr) : Bool :=
  match peek s a with
  | some o => o.code
  | none => false

def evmExist (s : St) (a : Addr) : Bool := (peek s a).isSome

/-- `createObject`'s fresh object: `NewAccountWithAddress` reads the coins from the balance store;
    `setNonce(0)` + the journal entry make it dirty -/
def freshObj (s : St) (a : Addr) : Obj := ⟨bal s.w.bal a, 0, false, true, false⟩

/-- `GetOrNewStateObject` -/
def objOrNew (s : St) (a : Addr) : Obj :=
  match peek s a with
  | some o => o
  | none => freshObj s a

def putObj (s : St) (a : Addr) (o : Obj) : St := { s with cache := upsert s.cache a o }

/-- `stateObject.empty()` -/
def isEmpty (o : Obj) : Bool := o.nonce == 0 && o.bal == 0 && !o.code

/-- `SubBalance` (zero amounts change nothing but still run `GetOrNewStateObject`).
    `EthAccount.SubBalance` panics below zero: every use in the pipeline sits behind a balance
    guard; the interpreter's own calls go through `applyEff`, which checks. -/
def subBalance (s : St) (a : Addr) (n : Int) : St :=
  let o := objOrNew s a
  if n = 0 then putObj s a o else putObj s a { o with bal := o.bal - n, dirty := true }

/-- `AddBalance`: a zero amount touches an empty object (EIP-158), otherwise changes nothing -/
def addBalance (s : St) (a : Addr) (n : Int) : St :=
  let o := objOrNew s a
  if n = 0 then putObj s a (if isEmpty o then { o with dirty := true } else o)
  else putObj s a { o with bal := o.bal + n, dirty := true }

def setNonce (s : St) (a : Addr) (k : Nat) : St :=
  let o := objOrNew s a
  putObj s a { o with nonce := k, dirty := true }

/-- `SetCode` with non-empty code -/
def setCode (s : St) (a : Addr) : St :=
  let o := objOrNew s a
  putObj s a { o with code := true, dirty := true }

/-- `Suicide`: marks the object and clears its balance (no-op on a missing account) -/
def suicide (s : St) (a : Addr) : St :=
  match peek s a with
  | none => s
  | some o => putObj s a { o with suicided := true, bal := 0, dirty := true }

/-- `CreateAccount`: a fresh object; the balance of an existing object is carried over -/
def createAccount (s : St) (a : Addr) : St :=
  match peek s a with
  | some p => putObj s a { freshObj s a with bal := p.bal }
  | none => putObj s a (freshObj s a)

/-- `Finalise` drops the object: suicided, or dirty and empty (`deleteEmptyObjects`) -/
def gone (o : Obj) : Bool := o.suicided || (o.dirty && isEmpty o)

/-- one entry of `Finalise`'s loop over `stateObjects` -/
def finaliseObj (w : World) (p : Addr × Obj) : World :=
  if gone p.2 then removeAccount w p.1
  else if p.2.dirty then setAccount w p.1 p.2
  else w

/-- `Finalise(true)`: write the dirty objects, delete the suicided / dirty-and-empty ones, drop
    the whole object cache, journal and refund counter -/
def finalise (s : St) : St := ⟨s.cache.foldl finaliseObj s.w, []⟩

/-! ## the interpreter as a parameter -/

/-- a balance-changing call of the interpreter on the `StateDB` interface -/
inductive Eff where
  | sub (a : Addr) (n : Int)      -- `SubBalance` (source of an inner value transfer)
  | add (a : Addr) (n : Int)      -- `AddBalance` (destination; SELFDESTRUCT beneficiary)
  | suicide (a : Addr)            -- `Suicide`
  deriving DecidableEq, Repr

def Eff.addr : Eff → Addr
  | .sub a _ => a
  | .add a _ => a
  | .suicide a => a

structure VmOut where
  gasLeft : Nat          -- `leftOverGas` returned by `EVM.Call` / `EVM.Create`
  refund  : Nat          -- `StateDB.GetRefund()` after the run
  failed  : Bool         -- the returned error is non-nil (revert, out of gas, invalid opcode, …)
  retCode : Bool         -- creation only: the init code returned non-empty runtime code
  effs    : List Eff     -- the calls that survived (empty after a failed run)
  deriving DecidableEq, Repr

/-- `none` = the Go code panics ("Failed to minus balance", caught by `handlePanic`) -/
def applyEff (s : St) : Eff → Option St
  | .sub a n => if (objOrNew s a).bal - n < 0 then none else some (subBalance s a n)
  | .add a n => some (addBalance s a n)
  | .suicide a => some (suicide s a)

def applyEffs (s : St) : List Eff → Option St
  | [] => some s
  | e :: t =>
    match applyEff s e with
    | none => none
    | some s' => applyEffs s' t

/-! ## the transaction -/

structure Tx where
  sender   : Addr
  to       : Option Addr      -- `none` = contract creation
  nonce    : Nat              -- nonce of the payload
  value    : Int
  gas      : Int              -- `Fee.Gas` (int64)
  price    : Int              -- `Fee.Price.Value`
  nz       : Nat              -- non-zero bytes of the data
  z        : Nat              -- zero bytes of the data
  size     : Nat              -- `ethTx.Size()`
  memo     : Option Nat       -- `strconv.ParseUint(memo)`; `none` = does not parse
  sigs     : Nat              -- number of signatures
  sigOk    : Bool             -- the signature field holds 65 bytes
  chainOk  : Bool             -- payload chain id = the signer's chain id
  senderOk : Bool             -- the recovered address equals `From`
  feeCurOk : Bool             -- fee currency = the fee option's currency
  amtCurOk : Bool             -- amount currency is registered and is OLT
  addrOk   : Bool             -- `From.Err() == nil ∧ (To == nil ∨ To.Err() == nil)`
  chainNil : Bool             -- the payload carries no chain id
  payloadCanon : Bool         -- the payload bytes are what `Marshal` produces for the decoded value
  signerKeyOk : Bool          -- the handler address of `Signatures[0].Signer` equals `From`
  typeOk   : Bool             -- `TxType` is 0 (legacy) and there is no access list
  memoCanon : Bool            -- the memo string is exactly `FormatUint(nonce)`
  deriving DecidableEq, Repr

structure Env where
  enabled : Bool              -- `StateDB.Enabled()`: a block hash was set (from the fork height on)
  minFee  : Int               -- `FeePool.GetOpt().MinFee()`
  gasPool : Nat               -- `StateDB.GetAvailableGas()`: what is left of the block gas limit
  newAddr : Addr              -- `crypto.CreateAddress(from, state nonce)`
  meterShut : Bool            -- the gas meter of the state (block meter in DeliverTx, check meter in
                              -- CheckTx) is at or over its limit when the transaction arrives: every
                              -- metered read is refused (`State.Get` returns `ErrExceedGasLimit`)
  feeGasLeft : Nat            -- what the block meter has left when the fee step starts (the metered
                              -- reads between the gas-pool snapshot and the fee step are not modelled:
                              -- the level is an input)
  deriving DecidableEq, Repr

/-- `uint64(Fee.Gas)` -/
def gasU (tx : Tx) : Nat :=
  if tx.gas < 0 then (tx.gas + 18446744073709551616).toNat else tx.gas.toNat

def isCreate (tx : Tx) : Bool := tx.to.isNone

/-- `IntrinsicGas` (no access list; the uint64 overflow guards cannot trigger below `txMaxSize`) -/
def intrinsicGas (nz z : Nat) (create : Bool) : Nat :=
  (if create then 53000 else 21000) + nz * 16 + z * 4

/-- `vm.SimulationBlockGasLimit` -/
def simulationBlockGasLimit : Nat := 100000000
/-- `txMaxSize` -/
def txMaxSize : Nat := 131072

inductive VErr where
  | notEnabled | payloadEnc | sigCount | sigBad | chainId | sender | signerKey | txType | feeCurrency | feePrice | currency | address
  | oversized | negative | gasLimit | nonceLow | funds | intrinsic | memoParse | memoNonce
  deriving DecidableEq, Repr

/-- what `keeper.GetNonce` / `keeper.GetBalance` answer in `Validate`: a refused read is swallowed
    (`GetNonce` returns 0 on an error, `getOrCreateCurrencyBalance` ignores the error of the balance
    store and takes the zero coin), so on a shut meter the sender looks like an empty account -/
def seenNonce (env : Env) (w : World) (a : Addr) : Nat := if env.meterShut then 0 else keeperNonce w a
def seenBalance (env : Env) (w : World) (a : Addr) : Int := if env.meterShut then 0 else nativeBalance w a

/-- `olvmTx.Validate`, in the order of the Go code. All state reads go through the KEEPER
    (persisted records), not through the live object cache. -/
def validate (env : Env) (w : World) (tx : Tx) : Option VErr :=
  if !env.enabled then some .notEnabled
  -- only the encoding `Marshal` produces is admitted (the signature covers the decoded fields)
  else if !tx.payloadCanon then some .payloadEnc
  -- validateSigner
  else if tx.sigs ≠ 1 then some .sigCount
  else if tx.chainNil then some .chainId        -- checked before the pointer is used
  else if !tx.sigOk then some .sigBad           -- checked before `WithSignature` (which would panic)
  else if !tx.chainOk then some .chainId
  else if !tx.senderOk then some .sender
  else if !tx.signerKeyOk then some .signerKey  -- the envelope's public key is outside the signature
  -- type and access list are outside the signature too
  else if !tx.typeOk then some .txType
  -- ValidateFee
  else if !tx.feeCurOk then some .feeCurrency
  else if tx.price < env.minFee then some .feePrice
  -- amount / addresses
  else if !tx.amtCurOk || decide (tx.value < 0) then some .currency
  else if !tx.addrOk then some .address
  -- validateEthTx
  else if tx.size > txMaxSize then some .oversized
  else if tx.value < 0 then some .negative
  else if simulationBlockGasLimit < gasU tx then some .gasLimit
  else if seenNonce env w tx.sender > tx.nonce then some .nonceLow
  -- (the nonce-too-high test is commented out in the Go code)
  else if seenBalance env w tx.sender < tx.price * (gasU tx : Int) + tx.value then some .funds
  else if gasU tx < intrinsicGas tx.nz tx.z (isCreate tx) then some .intrinsic
  -- memo must be the nonce
  else match tx.memo with
    | none => some .memoParse
    | some m => if m ≠ tx.nonce ∨ tx.memoCanon = false then some .memoNonce else none

inductive TErr where
  | nonceLow | notEOA | funds | gasPool | intrinsic | fundsTransfer
  deriving DecidableEq, Repr

/-- `buyGas` -/
def buyGas (env : Env) (s : St) (tx : Tx) : Except TErr St :=
  let mgval := (gasU tx : Int) * tx.price
  if evmBalance s tx.sender < mgval then .error .funds
  else if env.gasPool < gasU tx then .error .gasPool        -- `gp.SubGas`
  else .ok (subBalance s tx.sender mgval)

/-- `preCheck` (the transaction is never "fake" on the consensus path) -/
def preCheck (env : Env) (s : St) (tx : Tx) : Except TErr St :=
  if evmNonce s tx.sender > tx.nonce then .error .nonceLow
  -- (the nonce-too-high test is commented out in the Go code)
  else if evmCode s tx.sender then .error .notEOA
  else buyGas env s tx

/-- `core.Transfer` -/
def transfer (s : St) (src dst : Addr) (v : Int) : St := addBalance (subBalance s src v) dst v

/-- `EVM.Call` after the existence test: a missing recipient is created -/
def callPrep (s : St) (to : Addr) : St := if evmExist s to then s else createAccount s to

/-- outer layer of `EVM.Call` at depth 0: state, gas left, error flag; `none` = panic -/
def evmCall (s : St) (tx : Tx) (to : Addr) (gas : Nat) (vm : VmOut) : Option (St × Nat × Bool) :=
  if tx.value ≠ 0 ∧ evmBalance s tx.sender < tx.value then some (s, gas, true)   -- ErrInsufficientBalance
  else if evmExist s to = false ∧ tx.value = 0 then some (s, gas, false)          -- EIP-158: nothing happens
  else if evmCode (transfer (callPrep s to) tx.sender to tx.value) to = false then
    some (transfer (callPrep s to) tx.sender to tx.value, gas, false)             -- no code: gas unchanged
  else if vm.failed = true then                                                   -- RevertToSnapshot
    some (s, vm.gasLeft, true)
  else match applyEffs (transfer (callPrep s to) tx.sender to tx.value) vm.effs with
    | none => none
    | some s3 => some (s3, vm.gasLeft, false)

/-- `EVM.create` after the collision test: fresh account (balance carried over), nonce 1 (EIP-158),
    value transfer -/
def createPrep (s : St) (tx : Tx) (a : Addr) : St :=
  transfer (setNonce (createAccount s a) a 1) tx.sender a tx.value

/-- `EVM.create` at depth 0 -/
def evmCreate (env : Env) (s : St) (tx : Tx) (vm : VmOut) (gas : Nat) : Option (St × Nat × Bool) :=
  if evmBalance s tx.sender < tx.value then some (s, gas, true)                   -- ErrInsufficientBalance
  else
    let s0 := setNonce s tx.sender (evmNonce s tx.sender + 1)
    let a := env.newAddr
    if evmNonce s0 a ≠ 0 ∨ evmCode s0 a = true then some (s0, 0, true)            -- ErrContractAddressCollision
    else if vm.failed = true then                                                 -- RevertToSnapshot
      some (s0, vm.gasLeft, true)
    else match applyEffs (createPrep s0 tx a) vm.effs with
      | none => none
      | some s3 => some (if vm.retCode = true then setCode s3 a else s3, vm.gasLeft, false)

structure ExecResult where
  usedGas : Nat
  failed  : Bool
  deriving DecidableEq, Repr

/-- `vm.RefundQuotientFrankenstein` -/
def refundQuotient : Nat := 3

/-- what `TransitionDb` hands to the interpreter once gas is bought (`sb`) and the intrinsic gas is
    taken off: a creation, or a call after the nonce bump -/
def runVm (env : Env) (sb : St) (tx : Tx) (vm : VmOut) : Option (St × Nat × Bool) :=
  match tx.to with
  | none => evmCreate env sb tx vm (gasU tx - intrinsicGas tx.nz tx.z (isCreate tx))
  | some to => evmCall (setNonce sb tx.sender (evmNonce sb tx.sender + 1)) tx to
      (gasU tx - intrinsicGas tx.nz tx.z (isCreate tx)) vm

/-- the state the interpreter is handed when code runs: gas bought, nonce bumped, missing recipient
    / new contract created, top-level value transferred -/
def vmInput (env : Env) (s : St) (tx : Tx) : St :=
  let sb := subBalance s tx.sender ((gasU tx : Int) * tx.price)
  match tx.to with
  | none => createPrep (setNonce sb tx.sender (evmNonce sb tx.sender + 1)) tx env.newAddr
  | some to => transfer (callPrep (setNonce sb tx.sender (evmNonce sb tx.sender + 1)) to) tx.sender to tx.value

/-- `st.gas` after `refundGas`: what the run left plus the capped refund. The refund counter is
    journaled, so after a failed run it is what the run left (0). -/
def gasFinal (tx : Tx) (vm : VmOut) (gasLeft : Nat) : Nat :=
  gasLeft + min ((gasU tx - gasLeft) / refundQuotient) vm.refund

/-- `TransitionDb`. The state is returned also with a consensus error: `buyGas` has already
    debited the sender when the intrinsic-gas / transfer-funds tests fail, and `Apply` finalises
    whatever is there. -/
def transitionDb (env : Env) (s : St) (tx : Tx) (vm : VmOut) : Option (St × Except TErr ExecResult) :=
  match preCheck env s tx with
  | .error e => some (s, .error e)
  | .ok sb =>
    if gasU tx < intrinsicGas tx.nz tx.z (isCreate tx) then some (sb, .error .intrinsic)
    else if tx.value > 0 ∧ evmBalance sb tx.sender < tx.value then some (sb, .error .fundsTransfer)
    else
      match runVm env sb tx vm with
      | none => none
      | some (s2, gasLeft, failed) =>
        -- refundGas: remaining gas goes back to the sender at the signed price
        some (addBalance s2 tx.sender ((gasFinal tx vm gasLeft : Int) * tx.price),
              .ok ⟨gasU tx - gasFinal tx vm gasLeft, failed⟩)

inductive Stage where
  | invalid (e : VErr)       -- Validate refused
  | consensus (e : TErr)     -- `Apply` returned an error: ResponseFailed(WrongFee)
  | panic                    -- the Go code panics; `handlePanic` closes the application
  | gasOverflow              -- ContractFeeHandling: gas used above the limit
  | feeRefused               -- ContractFeeHandling: the contract gas took the block meter to its limit,
                             -- `AddToPool` cannot read the pool record: the transaction fails as a whole
  | reverted                 -- executed, the interpreter ended in an error (status 0)
  | success                  -- executed (status 1)
  deriving DecidableEq, Repr

structure Resp where
  code      : Nat            -- 0 = CodeOK, 1 = CodeNotOK, 99 = panic
  gasUsed   : Int            -- ResponseDeliverTx.GasUsed
  gasWanted : Int            -- ResponseDeliverTx.GasWanted
  stage     : Stage
  deriving DecidableEq, Repr

/-- DeliverTx of an OLVM transaction: `Validate`, `runOLVM` (= `Apply` = `TransitionDb` +
    `Finalise`), `ContractFeeHandling`, then commit or discard of the tx session. On every failure
    the persisted records are those from before; the object cache is empty after `Finalise`. -/
def deliverOlvm (env : Env) (s : St) (tx : Tx) (vm : VmOut) : St × Resp :=
  match validate env s.w tx with
  | some e => (s, ⟨1, 0, 0, .invalid e⟩)
  | none =>
    match transitionDb env s tx vm with
    | none => (s, ⟨99, 0, 0, .panic⟩)
    | some (s1, r) =>
      let s2 := finalise s1
      match r with
      | .error e => (⟨s.w, []⟩, ⟨1, 0, tx.gas, .consensus e⟩)       -- WrongFee ⇒ fee step false ⇒ discard
      | .ok er =>
        -- ContractFeeHandling (`SkipFee` = -1 cannot come from a uint64; `WrongFee` = 0)
        if er.usedGas = 0 then (⟨s.w, []⟩, ⟨1, 0, tx.gas, .gasOverflow⟩)
        else if (er.usedGas : Int) > tx.gas then (⟨s.w, []⟩, ⟨1, er.usedGas, tx.gas, .gasOverflow⟩)
        -- `ConsumeContractGas(gasUsed)` may overflow the meter; `AddToPool` then reads a refused record
        else if env.feeGasLeft ≤ er.usedGas then (⟨s.w, []⟩, ⟨1, 0, tx.gas, .feeRefused⟩)
        else
          let w' := { s2.w with pool := s2.w.pool + tx.price * (er.usedGas : Int) }
          (⟨w', []⟩, ⟨0, er.usedGas, tx.gas, if er.failed then .reverted else .success⟩)

/-- CheckTx of an OLVM transaction: `Validate` only; `ProcessCheck` does not execute and returns
    `SkipFee`. `env.meterShut` is then about the check state's own meter. -/
def checkOlvm (env : Env) (s : St) (tx : Tx) : St × Nat :=
  match validate env s.w tx with
  | some _ => (s, 1)
  | none => (s, 0)

/-! ## what `Finalise` deletes -/

/-- what the objects `Finalise` drops still hold: this amount leaves the ledger (0 unless a
    contract was paid after its SELFDESTRUCT in the same transaction) -/
def burntAt : List (Addr × Obj) → Int
  | [] => 0
  | p :: t => (if gone p.2 then p.2.bal else 0) + burntAt t

/-- the amount an OLVM transaction burns: what the dropped objects hold when an executed
    transaction is finalised; nothing for a refused one -/
def burnt (env : Env) (s : St) (tx : Tx) (vm : VmOut) : Int :=
  match validate env s.w tx with
  | some _ => 0
  | none =>
    match transitionDb env s tx vm with
    | some (s1, .ok er) =>
      if er.usedGas = 0 ∨ (er.usedGas : Int) > tx.gas ∨ env.feeGasLeft ≤ er.usedGas then 0 else burntAt s1.cache
    | _ => 0

/-! ## histories -/

/-- what can happen between two observation points. A native transaction (any of the other 38
    kinds, and the block hooks) may rewrite balance records and the fee pool arbitrarily; it never
    writes keeper records and never touches the EVM object cache. -/
inductive Step where
  | native (newBal : L) (newPool : Int)
  | olvm (env : Env) (tx : Tx) (vm : VmOut)
  | check (env : Env) (tx : Tx)
  | endBlock                                   -- `blockEnder`: `stateDB.Reset()`

def step (s : St) : Step → St
  | .native nb np => { s with w := { s.w with bal := nb, pool := np } }
  | .olvm env tx vm => (deliverOlvm env s tx vm).1
  | .check env tx => (checkOlvm env s tx).1
  | .endBlock => { s with cache := [] }

def run (s : St) (steps : List Step) : St := steps.foldl step s

/-- sum of all credits minus sum of all debits of an effect list -/
def effSum : List Eff → Int
  | [] => 0
  | .sub _ n :: t => -n + effSum t
  | .add _ n :: t => n + effSum t
  | .suicide _ :: t => effSum t

/-- net change of the sum of all working balances caused by the interpreter's calls when they are
    applied from state `s`: an inner transfer is a debit and an equal credit; SELFDESTRUCT credits the
    beneficiary and then `Suicide` clears whatever the account holds at that moment -/
def vmNet (s : St) : List Eff → Int
  | [] => 0
  | .sub a n :: t => -n + vmNet (subBalance s a n) t
  | .add a n :: t => n + vmNet (addBalance s a n) t
  | .suicide a :: t => -(evmBalance s a) + vmNet (suicide s a) t

def noSuicide : List Eff → Bool
  | [] => true
  | .suicide _ :: _ => false
  | _ :: t => noSuicide t

end OLP.Olvm

/-
  Layer D model of the network-delegation pool (property C12).

  A statement-by-statement port of
    action/network_delegation/add_network_delegation.go   runNetworkDelegate
    action/network_delegation/network_undelegate.go       runUndelegate
    action/network_delegation/withdraw_rewards.go         runDeleWithdraw
    action/network_delegation/reinvest_rewards.go         runReinvest
    action/transfer/sendPool.go, send.go                  runSendPool / runTx   (donations to the pool)
    data/network_delegation/store.go, rewards_store.go    key shapes, Iterate*, Withdraw, MinusRewardsBalance
    app/controller.go   addMaturedAmountsToBalance, handleDelegationRewards (accrual loop),
                        matureDelegationRewards
  written against decoded records (address, integer amount, height).  The model follows what the
  code DOES: `Coin.Minus` only refuses a negative *result*, `Coin.Plus` refuses nothing.  The
  pending-undelegation range prefix is `deleg_p_<height>_` since commit 4adafc1 (switch
  `Cfg.sepPrefix = true`); before it was `deleg_p_<height>` without the trailing separator (S17,
  `sepPrefix = false`, kept so that the old behaviour and its exact arithmetic condition stay
  theorems); the pending-rewards prefix `delegRwz_pending_<height>_` was always exact.  The sign check on the
  amount of undelegate / withdraw / reinvest (`!coin.IsValid()`, added by commit 1db1c08; S5) is the
  switch `Cfg.checkSign`: `true` is the code as it is, `false` the code before that commit, kept so
  that the necessity of the check is a theorem.  Unknown / foreign currencies (S18) are not
  modelled here: every amount is an OLT amount (that belongs to C18).

  Core-only (no Mathlib): linked into the driver executable.
-/
import OLP.Base.Assoc

namespace OLP.Deleg
open OLP

/-! ## records -/

/-- value of a stored amount, 0 when the record is absent (`Store.get`, `DelegRewardStore.get`,
    `balance.Store.get` all default to a zero amount) -/
def getD {K : Type} [DecidableEq K] (l : List (K × Int)) (k : K) : Int := (alookup k l).getD 0

/-- sum of all amounts of a record family -/
def sumV {K : Type} : List (K × Int) → Int
  | [] => 0
  | (_, v) :: t => v + sumV t

/-- ghost logs: sum of the entries logged under a key -/
def sumKey {K : Type} [DecidableEq K] (k : K) : List (K × Int) → Int
  | [] => 0
  | (k', v) :: t => if k' = k then v + sumKey k t else sumKey k t

/-- the static facts a handler reads: pool address (`DELEGATION_POOL_KEY`), maturity
    (`GetNetworkDelegOptions().RewardsMaturityTime`), byte order of rendered addresses -/
structure Cfg (A : Type) where
  pool : A
  maturity : Nat
  addrLt : A → A → Bool
  /-- runUndelegate / runDeleWithdraw / runReinvest refuse `!coin.IsValid()` (commit 1db1c08) -/
  checkSign : Bool := true
  /-- `IteratePendingAmounts` ends its range prefix with the separator (commit 4adafc1) -/
  sepPrefix : Bool := true

/-- the records of the committed tree that the mechanism touches -/
structure St (A : Type) where
  bal : List (A × Int)               -- b_<addr>_OLT
  active : List (A × Int)            -- deleg_a_<addr>
  pending : List ((Nat × A) × Int)   -- deleg_p_<height>_<addr>
  rw : List (A × Int)                -- delegRwz_balance_<addr>
  rwTotal : Int                      -- delegRwz_total_rewards
  rwPending : List ((Nat × A) × Int) -- delegRwz_pending_<height>_<addr>
  deriving Repr

variable {A : Type} [DecidableEq A]

def St.empty (bal : List (A × Int)) : St A :=
  { bal := bal, active := [], pending := [], rw := [], rwTotal := 0, rwPending := [] }

def St.balOf (s : St A) (a : A) : Int := getD s.bal a
/-- `balance.Store.set` -/
def St.setBal (s : St A) (a : A) (v : Int) : St A := { s with bal := upsert s.bal a v }

/-- result codes of the handlers (the `status_codes` a failing `run*` wraps) -/
inductive Code
  | ok
  | invalidAmount   -- TxErrInvalidAmount         (runNetworkDelegate: !coin.IsValid())
  | notEnoughFund   -- TxErrInsufficientFunds     (runNetworkDelegate: CheckBalanceFromAddress)
  | deductActive    -- NetDelgErrDeductingActiveDelgAmount (runUndelegate: delegationCoin.Minus)
  | poolMinus       -- BalanceErrorAddFailed      (runUndelegate: MinusFromAddress(pool))
  | withdrawFail    -- NetDelgErrWithdraw         (runDeleWithdraw: Rewards.Withdraw)
  | reinvestFail    -- NetDelgErrReinvest         (runReinvest: MinusRewardsBalance)
  | sendFail        -- runSendPool / runTx: debit of the sender failed or amount invalid
  | feeFail         -- BasicFeeHandling: the fee could not be charged (whole tx discarded)
  deriving DecidableEq, Repr

def Code.name : Code → String
  | .ok => "ok" | .invalidAmount => "invalidAmount" | .notEnoughFund => "notEnoughFund"
  | .deductActive => "deductActive" | .poolMinus => "poolMinus" | .withdrawFail => "withdrawFail"
  | .reinvestFail => "reinvestFail" | .sendFail => "sendFail" | .feeFail => "feeFail"

/-! ## the four handlers (+ donations).  A failing handler's session is discarded by the
    controller (C06), so a failure carries no state. -/

/-- `runNetworkDelegate` -/
def delegate (c : Cfg A) (s : St A) (a : A) (amt : Int) : Except Code (St A) :=
  if amt < 0 then .error .invalidAmount                         -- !coin.IsValid()
  else if s.balOf a - amt < 0 then .error .notEnoughFund        -- CheckBalanceFromAddress
  else
    let s1 := s.setBal a (s.balOf a - amt)                      -- MinusFromAddress(delegator)
    let s2 := s1.setBal c.pool (s1.balOf c.pool + amt)          -- AddToAddress(pool)
    .ok { s2 with active := upsert s2.active a (getD s2.active a + amt) }

/-- `PendingExists` / `GetPendingAmount` / `SetPendingAmount` of runUndelegate -/
def pendAdd {K : Type} [DecidableEq K] (l : List (K × Int)) (k : K) (amt : Int) : List (K × Int) :=
  match alookup k l with
  | none => upsert l k amt
  | some old => upsert l k (old + amt)

/-- `runUndelegate` at block height `h` -/
def undelegate (c : Cfg A) (s : St A) (h : Nat) (a : A) (amt : Int) : Except Code (St A) :=
  let rem := getD s.active a - amt                              -- delegationCoin.Minus(undelegateCoin)
  if c.checkSign && decide (amt < 0) then .error .invalidAmount -- !undelegateCoin.IsValid()
  else if rem < 0 then .error .deductActive
  else
    let s1 := { s with active := upsert s.active a rem }
    let s2 := { s1 with pending := pendAdd s1.pending (h + c.maturity, a) amt }
    if s2.balOf c.pool - amt < 0 then .error .poolMinus         -- MinusFromAddress(pool)
    else .ok (s2.setBal c.pool (s2.balOf c.pool - amt))

/-- `runDeleWithdraw` = `DelegRewardStore.Withdraw` (MinusRewardsBalance + addPendingRewards) -/
def withdraw (c : Cfg A) (s : St A) (h : Nat) (a : A) (amt : Int) : Except Code (St A) :=
  let r := getD s.rw a - amt
  if c.checkSign && decide (amt < 0) then .error .invalidAmount -- !coinAmt.IsValid()
  else if r < 0 then .error .withdrawFail
  else
    let k := (h + c.maturity, a)
    .ok { s with rw := upsert s.rw a r, rwPending := upsert s.rwPending k (getD s.rwPending k + amt) }

/-- `runReinvest` -/
def reinvest (c : Cfg A) (s : St A) (a : A) (amt : Int) : Except Code (St A) :=
  let r := getD s.rw a - amt                                    -- MinusRewardsBalance
  if c.checkSign && decide (amt < 0) then .error .invalidAmount -- !coinAmt.IsValid()
  else if r < 0 then .error .reinvestFail
  else
    let s1 := { s with rw := upsert s.rw a r }
    let s2 := s1.setBal c.pool (s1.balOf c.pool + amt)          -- AddToAddress(pool): Plus, unchecked
    .ok { s2 with active := upsert s2.active a (getD s2.active a + amt) }

/-- a donation: SENDPOOL with PoolName = DelegationPool or SEND to the pool address.  `checked`:
    the sign of the amount is validated — by `runTx` itself for SEND, and for SENDPOOL by
    `sendPoolTx.Validate`, which `txDeliverer` runs since commit 626f990 (`runSendPool` alone,
    `checked = false`, validates nothing) -/
def donate (c : Cfg A) (s : St A) (a : A) (amt : Int) (checked : Bool) : Except Code (St A) :=
  if checked && decide (amt < 0) then .error .sendFail
  else if s.balOf a - amt < 0 then .error .sendFail              -- MinusFromAddress(sender)
  else
    let s1 := s.setBal a (s.balOf a - amt)
    .ok (s1.setBal c.pool (s1.balOf c.pool + amt))               -- AddToAddress(pool)

/-! ## key shapes -/

/-- (the OLD, un-separated prefix) `strconv.FormatInt h` is a byte prefix of
    `strconv.FormatInt h'`: dropping last digits of `h'` reaches `h`.  Fuel = `h'` (structural recursion so that the kernel can evaluate it). -/
def decPrefixAux : Nat → Nat → Nat → Bool
  | 0, h, h' => h' == h
  | fuel + 1, h, h' => if h' == h then true else if h' < 10 then false else decPrefixAux fuel h (h' / 10)

def decPrefix (h h' : Nat) : Bool := decPrefixAux h' h h'

/-- decimal digits, most significant first -/
def digitsAux : Nat → Nat → List Nat → List Nat
  | 0, _, acc => acc
  | fuel + 1, n, acc => if n < 10 then n :: acc else digitsAux fuel (n / 10) ((n % 10) :: acc)

def digits (n : Nat) : List Nat := digitsAux (n + 1) n []

/-- byte order of `<digits>_…`: the separator `_` (0x5f) sorts after every digit (0x30–0x39);
    `none` = the digit strings are equal -/
def digitsLt : List Nat → List Nat → Option Bool
  | [], [] => none
  | [], _ :: _ => some false
  | _ :: _, [] => some true
  | x :: xs, y :: ys => if x < y then some true else if y < x then some false else digitsLt xs ys

/-- byte order of the keys `<prefix><height>_<addr>` -/
def keyLt (c : Cfg A) (k k' : Nat × A) : Bool :=
  match digitsLt (digits k.1) (digits k'.1) with
  | some b => b
  | none => c.addrLt k.2 k'.2

def insertBy {K : Type} (lt : K → K → Bool) (x : K) : List K → List K
  | [] => [x]
  | y :: t => if lt x y then x :: y :: t else y :: insertBy lt x t

/-- insertion sort (the order in which the IAVL range iterator reports the keys) -/
def sortBy {K : Type} (lt : K → K → Bool) : List K → List K
  | [] => []
  | x :: t => insertBy lt x (sortBy lt t)

/-- keys reported by `Store.IteratePendingAmounts(height)`.  Since 4adafc1 the range is
    [`deleg_p_<h>_`, `deleg_p_<h>~`): exactly the keys of height `h`.  Before (`sepPrefix = false`)
    it was [`deleg_p_<h>`, `deleg_p_<h>~`): every key whose height *starts with* the digits of `h`. -/
def visitPending (c : Cfg A) (h : Nat) (pending : List ((Nat × A) × Int)) : List (Nat × A) :=
  sortBy (keyLt c) ((akeys pending).filter (fun k => if c.sepPrefix then k.1 == h else decPrefix h k.1))

/-- keys reported by `DelegRewardStore.IteratePD(height)`: range
    [`delegRwz_pending_<h>_`, `delegRwz_pending_<h>~`) — exactly the keys of height `h` -/
def visitRwPending (c : Cfg A) (h : Nat) (rwPending : List ((Nat × A) × Int)) : List (Nat × A) :=
  sortBy (keyLt c) ((akeys rwPending).filter (fun k => k.1 == h))

/-! ## BeginBlock hooks -/

/-- callback of `addMaturedAmountsToBalance`, for every reported key in order: the value is read
    at visit time (`State.IterateRange` collects the keys, then `Get`s each), credited to the
    address parsed from the key, and the entry *of the current height* for that address is zeroed.
    Returns the payment log (address, amount). -/
def payAll (h : Nat) : List (Nat × A) → St A → St A × List (A × Int)
  | [], s => (s, [])
  | k :: ks, s =>
    let v := getD s.pending k
    let s1 := s.setBal k.2 (s.balOf k.2 + v)                       -- AddToAddress(addr, coin)
    let s2 := { s1 with pending := upsert s1.pending (h, k.2) 0 }  -- SetPendingAmount(addr, height, 0)
    let r := payAll h ks s2
    (r.1, (k.2, v) :: r.2)

/-- `addMaturedAmountsToBalance` -/
def matureUndeleg (c : Cfg A) (s : St A) (h : Nat) : St A × List (A × Int) :=
  payAll h (visitPending c h s.pending) s

/-- callback of the loop in `handleDelegationRewards` + `AddRewardsBalance`:
    reward = DelegationRewards · active / DelegationPower (big.Int.Div, Euclidean) -/
def accrueAll (T P : Int) : List (A × Int) → St A → St A × List (A × Int)
  | [], s => (s, [])
  | e :: es, s =>
    let r := T * e.2 / P
    let s1 := { s with rw := upsert s.rw e.1 (getD s.rw e.1 + r), rwTotal := s.rwTotal + r }
    let q := accrueAll T P es s1
    (q.1, (e.1, r) :: q.2)

/-- callback of `matureDelegationRewards` -/
def payRwAll (h : Nat) : List (Nat × A) → St A → St A × List (A × Int)
  | [], s => (s, [])
  | k :: ks, s =>
    let v := getD s.rwPending k
    let s1 := s.setBal k.2 (s.balOf k.2 + v)
    let s2 := { s1 with rwPending := upsert s1.rwPending (h, k.2) 0 }
    let r := payRwAll h ks s2
    (r.1, (k.2, v) :: r.2)

def matureRewards (c : Cfg A) (s : St A) (h : Nat) : St A × List (A × Int) :=
  payRwAll h (visitRwPending c h s.rwPending) s

/-- what BeginBlock(h) did for the delegation subsystem -/
structure BeginOut (A : Type) where
  st : St A
  paid : List (A × Int)      -- matured undelegations credited, in order
  accrued : List (A × Int)   -- rewards credited to reward balances
  rwPaid : List (A × Int)    -- matured reward withdrawals credited

/-- the delegation part of `blockBeginner` at height `h`: addMaturedAmountsToBalance, then (inside
    handleBlockRewards) the accrual loop — run iff the pool balance (`delegationPower`) is positive,
    with `T` = `DelegationRewards` of this block (computed by the C13 machinery) — then
    matureDelegationRewards. -/
def beginBlock (c : Cfg A) (s : St A) (h : Nat) (T : Int) : BeginOut A :=
  let m := matureUndeleg c s h
  let P := m.1.balOf c.pool
  let acc := if 0 < P then accrueAll T P m.1.active m.1 else (m.1, [])
  let r := matureRewards c acc.1 h
  { st := r.1, paid := m.2, accrued := acc.2, rwPaid := r.2 }

/-! ## whole transactions (handler + fee step), used by the driver -/

inductive Tx (A : Type)
  | delegate (a : A) (amt : Int)
  | undelegate (a : A) (amt : Int)
  | withdraw (a : A) (amt : Int)
  | reinvest (a : A) (amt : Int)
  | donate (a : A) (amt : Int) (checked : Bool)
  deriving Repr

def Tx.actor : Tx A → A
  | .delegate a _ | .undelegate a _ | .withdraw a _ | .reinvest a _ | .donate a _ _ => a

def Tx.amount : Tx A → Int
  | .delegate _ x | .undelegate _ x | .withdraw _ x | .reinvest _ x | .donate _ x _ => x

def handler (c : Cfg A) (s : St A) (h : Nat) : Tx A → Except Code (St A)
  | .delegate a amt => delegate c s a amt
  | .undelegate a amt => undelegate c s h a amt
  | .withdraw a amt => withdraw c s h a amt
  | .reinvest a amt => reinvest c s a amt
  | .donate a amt ck => donate c s a amt ck

/-- `txDeliverer`: ProcessDeliver, then ProcessFee = `BasicFeeHandling` charging `fee` to the signer
    (`MinusFromAddress`); the session is committed only if both succeed. -/
def deliver (c : Cfg A) (s : St A) (h : Nat) (tx : Tx A) (fee : Int) : St A × Code :=
  match handler c s h tx with
  | .error e => (s, e)
  | .ok s1 =>
    if s1.balOf tx.actor - fee < 0 then (s, .feeFail)
    else (s1.setBal tx.actor (s1.balOf tx.actor - fee), .ok)

/-! ## histories (what the theorems quantify over) -/

inductive Op (A : Type)
  | tx (t : Tx A)
  /-- any other change of a non-pool balance: fees, transfers, stake, governance, … -/
  | env (a : A) (d : Int)
  /-- BeginBlock of the next height with this block's delegation reward `T` -/
  | beginBlock (T : Int)
  deriving Repr

/-- model state plus ghost logs (the logs are never read by the mechanism) -/
structure Hist (A : Type) where
  st : St A
  height : Nat
  paid : List ((Nat × A) × Int)     -- ghost: (height, addr) ↦ matured undelegation credited
  rwPaid : List ((Nat × A) × Int)   -- ghost: (height, addr) ↦ matured reward withdrawal credited
  ulog : List ((Nat × A) × Int)     -- ghost: (block, addr) ↦ amount of a successful undelegate
  wlog : List ((Nat × A) × Int)     -- ghost: (block, addr) ↦ amount of a successful reward withdraw
  rlog : List (A × Int)             -- ghost: addr ↦ amount of a successful reinvest
  alog : List (A × Int)             -- ghost: addr ↦ accrued reward
  donated : Int                     -- ghost: Σ successful donations

def Hist.init (bal : List (A × Int)) : Hist A :=
  { st := St.empty bal, height := 0, paid := [], rwPaid := [], ulog := [], wlog := [], rlog := [],
    alog := [], donated := 0 }

def tagH (h : Nat) (l : List (A × Int)) : List ((Nat × A) × Int) := l.map (fun e => ((h, e.1), e.2))

def step (c : Cfg A) (H : Hist A) : Op A → Hist A
  | .tx t =>
    match handler c H.st H.height t with
    | .error _ => H
    | .ok s' =>
      match t with
      | .delegate _ _ => { H with st := s' }
      | .undelegate a amt => { H with st := s', ulog := ((H.height, a), amt) :: H.ulog }
      | .withdraw a amt => { H with st := s', wlog := ((H.height, a), amt) :: H.wlog }
      | .reinvest a amt => { H with st := s', rlog := (a, amt) :: H.rlog }
      | .donate _ amt _ => { H with st := s', donated := H.donated + amt }
  | .env a d => { H with st := H.st.setBal a (H.st.balOf a + d) }
  | .beginBlock T =>
    let h := H.height + 1
    let o := beginBlock c H.st h T
    { H with st := o.st, height := h, paid := tagH h o.paid ++ H.paid, rwPaid := tagH h o.rwPaid ++ H.rwPaid,
             alog := o.accrued ++ H.alog }

def run (c : Cfg A) (H : Hist A) (ops : List (Op A)) : Hist A := ops.foldl (step c) H

/-! ## side conditions on histories (explicit, decidable hypotheses of the theorems) -/

/-- nobody acts *as* the pool address: it is the 20 ASCII bytes `00000000000000000001`, not the
    hash of any public key, so no transaction can carry its signature -/
def Op.wf (c : Cfg A) : Op A → Bool
  | .tx t => decide (t.actor ≠ c.pool)
  | .env a _ => decide (a ≠ c.pool)
  | .beginBlock _ => true

/-- the block's delegation reward is non-negative (a share of the pulled block reward, C13) -/
def Op.rewardNonneg : Op A → Bool
  | .beginBlock T => decide (0 ≤ T)
  | _ => true

def Op.isDonation : Op A → Bool
  | .tx (.donate _ _ _) => true
  | _ => false

/-- donations go through the sign-validating paths (true of SEND and, since 626f990, SENDPOOL) -/
def Op.donationChecked : Op A → Bool
  | .tx (.donate _ _ ck) => ck
  | _ => true

/-- Σ amounts logged under an address, over all heights -/
def sumAddr (a : A) : List ((Nat × A) × Int) → Int
  | [] => 0
  | ((_, a'), v) :: t => if a' = a then v + sumAddr a t else sumAddr a t

end OLP.Deleg

/-
  Helper lemmas for the delegation-pool model (property theorems are in OLP/Props/C12.lean).
-/
import OLP.Deleg.Model

namespace OLP.Deleg
open OLP

/-! ## association lists of amounts -/

section basic
variable {K : Type} [DecidableEq K]

theorem getD_upsert (l : List (K × Int)) (k k' : K) (v : Int) :
    getD (upsert l k v) k' = if k' = k then v else getD l k' := by
  unfold getD
  rw [alookup_upsert]
  by_cases h : k' = k <;> simp [h]

@[simp] theorem getD_upsert_self (l : List (K × Int)) (k : K) (v : Int) :
    getD (upsert l k v) k = v := by simp [getD_upsert]

theorem getD_upsert_ne (l : List (K × Int)) (k k' : K) (v : Int) (h : k' ≠ k) :
    getD (upsert l k v) k' = getD l k' := by simp [getD_upsert, h]

@[simp] theorem getD_nil (k : K) : getD ([] : List (K × Int)) k = 0 := rfl

theorem getD_of_not_mem (l : List (K × Int)) (k : K) (h : k ∉ akeys l) : getD l k = 0 := by
  unfold getD; rw [not_mem_akeys_alookup l k h]; rfl

theorem sumV_upsert (l : List (K × Int)) (k : K) (v : Int) :
    sumV (upsert l k v) = sumV l - getD l k + v := by
  induction l with
  | nil => simp [upsert, sumV, getD]
  | cons hd t ih =>
    obtain ⟨k', v'⟩ := hd
    by_cases hk : k' = k
    · subst hk
      simp [upsert, sumV, getD, alookup]
      omega
    · simp [upsert, sumV, hk, ih, getD, alookup]
      omega

theorem pendAdd_eq (l : List (K × Int)) (k : K) (amt : Int) :
    pendAdd l k amt = upsert l k (getD l k + amt) := by
  unfold pendAdd getD
  cases h : alookup k l <;> simp

theorem sumKey_cons (k k' : K) (v : Int) (t : List (K × Int)) :
    sumKey k ((k', v) :: t) = (if k' = k then v else 0) + sumKey k t := by
  by_cases h : k' = k <;> simp [sumKey, h]

theorem sumKey_append (k : K) (l₁ l₂ : List (K × Int)) :
    sumKey k (l₁ ++ l₂) = sumKey k l₁ + sumKey k l₂ := by
  induction l₁ with
  | nil => simp [sumKey]
  | cons hd t ih =>
    obtain ⟨k', v⟩ := hd
    by_cases h : k' = k <;> simp [sumKey, h, ih] <;> omega

theorem sumKey_of_not_mem (k : K) (l : List (K × Int)) (h : k ∉ akeys l) : sumKey k l = 0 := by
  induction l with
  | nil => rfl
  | cons hd t ih =>
    obtain ⟨k', v⟩ := hd
    have h1 : ¬ k' = k := by intro e; apply h; simp [akeys, e]
    have h2 : k ∉ akeys t := by intro m; apply h; simp [akeys] at m ⊢; exact Or.inr m
    simp [sumKey, h1, ih h2]

theorem mem_akeys_cons (k k' : K) (v : Int) (t : List (K × Int)) :
    k ∈ akeys ((k', v) :: t) ↔ k = k' ∨ k ∈ akeys t := by simp [akeys]

theorem alookup_isSome_of_mem (l : List (K × Int)) (k : K) (h : k ∈ akeys l) :
    ∃ v, alookup k l = some v := by
  have := (mem_akeys_iff_alookup l k).mp h
  cases h' : alookup k l with
  | none => simp [h'] at this
  | some v => exact ⟨v, rfl⟩

theorem mem_akeys_of_alookup (l : List (K × Int)) (k : K) (v : Int) (h : alookup k l = some v) :
    k ∈ akeys l := (mem_akeys_iff_alookup l k).mpr (by simp [h])

end basic

/-! ## insertion sort keeps the elements -/

section sort
variable {K : Type}

theorem mem_insertBy (lt : K → K → Bool) (x y : K) (l : List K) :
    y ∈ insertBy lt x l ↔ y = x ∨ y ∈ l := by
  induction l with
  | nil => simp [insertBy]
  | cons z t ih =>
    unfold insertBy
    by_cases h : lt x z = true
    · simp [h]
    · simp [h, ih]
      constructor
      · rintro (h1 | h1 | h1)
        · exact Or.inr (Or.inl h1)
        · exact Or.inl h1
        · exact Or.inr (Or.inr h1)
      · rintro (h1 | h1 | h1)
        · exact Or.inr (Or.inl h1)
        · exact Or.inl h1
        · exact Or.inr (Or.inr h1)

theorem mem_sortBy (lt : K → K → Bool) (y : K) (l : List K) : y ∈ sortBy lt l ↔ y ∈ l := by
  induction l with
  | nil => simp [sortBy]
  | cons x t ih => simp [sortBy, mem_insertBy, ih]

theorem nodup_insertBy (lt : K → K → Bool) (x : K) (l : List K) (hx : x ∉ l) (h : l.Nodup) :
    (insertBy lt x l).Nodup := by
  induction l with
  | nil => simp [insertBy]
  | cons z t ih =>
    have hz : z ∉ t ∧ t.Nodup := List.nodup_cons.mp h
    have hxz : x ≠ z := by intro e; apply hx; simp [e]
    have hxt : x ∉ t := by intro m; apply hx; simp [m]
    unfold insertBy
    by_cases hlt : lt x z = true
    · simp only [hlt, if_true]
      exact List.nodup_cons.mpr ⟨hx, h⟩
    · simp only [hlt]
      refine List.nodup_cons.mpr ⟨?_, ih hxt hz.2⟩
      rw [mem_insertBy]
      rintro (e | m)
      · exact hxz e.symm
      · exact hz.1 m

theorem nodup_sortBy (lt : K → K → Bool) (l : List K) (h : l.Nodup) : (sortBy lt l).Nodup := by
  induction l with
  | nil => simp [sortBy]
  | cons x t ih =>
    have hx : x ∉ t ∧ t.Nodup := List.nodup_cons.mp h
    exact nodup_insertBy lt x _ (by rw [mem_sortBy]; exact hx.1) (ih hx.2)

end sort

/-! ## the un-separated decimal prefix (S17) -/

theorem decPrefixAux_true (fuel h h' : Nat) (_hh : 1 ≤ h) (hf : decPrefixAux fuel h h' = true) :
    h' = h ∨ 10 * h ≤ h' := by
  induction fuel generalizing h' with
  | zero => left; simpa [decPrefixAux] using hf
  | succ n ih =>
    unfold decPrefixAux at hf
    by_cases e : h' = h
    · exact Or.inl e
    · have e' : (h' == h) = false := by simp [e]
      rw [e'] at hf
      by_cases hlt : h' < 10
      · simp [hlt] at hf
      · simp only [hlt] at hf
        right
        have := ih (h' / 10) (by simpa using hf)
        omega

theorem decPrefix_true (h h' : Nat) (hh : 1 ≤ h) (hf : decPrefix h h' = true) :
    h' = h ∨ 10 * h ≤ h' := decPrefixAux_true h' h h' hh hf

theorem decPrefix_self (h : Nat) : decPrefix h h = true := by
  unfold decPrefix
  cases h <;> simp [decPrefixAux]

theorem decPrefix_ten (h : Nat) (hh : 1 ≤ h) : decPrefix h (10 * h) = true := by
  unfold decPrefix
  obtain ⟨n, hn⟩ : ∃ n, 10 * h = n + 1 := ⟨10 * h - 1, by omega⟩
  rw [hn]
  unfold decPrefixAux
  have e : (n + 1 == h) = false := by simp; omega
  have hlt : ¬ (n + 1 < 10) := by omega
  have hd : (n + 1) / 10 = h := by omega
  simp only [e, hlt, hd]
  cases n <;> simp [decPrefixAux]

/-- a key of a later height is matched by the range of height `h` only from `10·h` on -/
theorem decPrefix_exact (h M h' : Nat) (hh : 1 ≤ h) (hM : M ≤ 9 * h) (h1 : h < h') (h2 : h' < h + M) :
    decPrefix h h' = false := by
  cases hd : decPrefix h h' with
  | false => rfl
  | true =>
    rcases decPrefix_true h h' hh hd with e | e <;> omega

theorem decPrefix_lt_false (h h' : Nat) (hh : 1 ≤ h) (hlt : h' < h) : decPrefix h h' = false := by
  cases hd : decPrefix h h' with
  | false => rfl
  | true => rcases decPrefix_true h h' hh hd with e | e <;> omega

/-! ## the handlers, spelled out -/

section handlers
variable {A : Type} [DecidableEq A]

theorem delegate_ok {c : Cfg A} {s s' : St A} {a : A} {amt : Int} (h : delegate c s a amt = .ok s') :
    0 ≤ amt ∧ amt ≤ s.balOf a ∧
    s' = { s with
      bal := upsert (upsert s.bal a (s.balOf a - amt)) c.pool
               (getD (upsert s.bal a (s.balOf a - amt)) c.pool + amt),
      active := upsert s.active a (getD s.active a + amt) } := by
  unfold delegate at h
  split at h
  · cases h
  · split at h
    · cases h
    · cases h
      refine ⟨by omega, by omega, ?_⟩
      simp [St.setBal, St.balOf]

theorem undelegate_ok {c : Cfg A} {s s' : St A} {h : Nat} {a : A} {amt : Int}
    (hk : undelegate c s h a amt = .ok s') :
    amt ≤ getD s.active a ∧ amt ≤ s.balOf c.pool ∧ (c.checkSign = true → 0 ≤ amt) ∧
    s' = { s with
      bal := upsert s.bal c.pool (s.balOf c.pool - amt),
      active := upsert s.active a (getD s.active a - amt),
      pending := upsert s.pending (h + c.maturity, a) (getD s.pending (h + c.maturity, a) + amt) } := by
  unfold undelegate at hk
  simp only [pendAdd_eq] at hk
  split at hk
  · cases hk
  · split at hk
    · cases hk
    · split at hk
      · cases hk
      · cases hk
        rename_i h1 h2 h3
        simp only [St.setBal, St.balOf] at *
        refine ⟨by omega, by omega, ?_, ?_⟩
        · intro e
          rw [e] at h1
          simp at h1
          exact h1
        · first | rfl | trivial

theorem withdraw_ok {c : Cfg A} {s s' : St A} {h : Nat} {a : A} {amt : Int}
    (hk : withdraw c s h a amt = .ok s') :
    amt ≤ getD s.rw a ∧ (c.checkSign = true → 0 ≤ amt) ∧
    s' = { s with
      rw := upsert s.rw a (getD s.rw a - amt),
      rwPending := upsert s.rwPending (h + c.maturity, a) (getD s.rwPending (h + c.maturity, a) + amt) } := by
  unfold withdraw at hk
  dsimp only at hk
  split at hk
  · cases hk
  · split at hk
    · cases hk
    · cases hk
      rename_i h1 h2
      refine ⟨by omega, ?_, rfl⟩
      intro e
      rw [e] at h1
      simp at h1
      exact h1

theorem reinvest_ok {c : Cfg A} {s s' : St A} {a : A} {amt : Int}
    (hk : reinvest c s a amt = .ok s') :
    amt ≤ getD s.rw a ∧ (c.checkSign = true → 0 ≤ amt) ∧
    s' = { s with
      rw := upsert s.rw a (getD s.rw a - amt),
      bal := upsert s.bal c.pool (s.balOf c.pool + amt),
      active := upsert s.active a (getD s.active a + amt) } := by
  unfold reinvest at hk
  dsimp only at hk
  split at hk
  · cases hk
  · split at hk
    · cases hk
    · cases hk
      rename_i h1 h2
      refine ⟨by omega, ?_, ?_⟩
      · intro e
        rw [e] at h1
        simp at h1
        exact h1
      · simp [St.setBal, St.balOf]

theorem donate_ok {c : Cfg A} {s s' : St A} {a : A} {amt : Int} {ck : Bool}
    (hk : donate c s a amt ck = .ok s') :
    amt ≤ s.balOf a ∧ (ck = true → 0 ≤ amt) ∧
    s' = { s with
      bal := upsert (upsert s.bal a (s.balOf a - amt)) c.pool
               (getD (upsert s.bal a (s.balOf a - amt)) c.pool + amt) } := by
  unfold donate at hk
  split at hk
  · cases hk
  · split at hk
    · cases hk
    · cases hk
      rename_i h1 h2
      refine ⟨by omega, ?_, ?_⟩
      · intro e
        subst e
        simp at h1
        exact h1
      · simp [St.setBal, St.balOf]

end handlers

/-! ## the BeginBlock loops -/

section loops
variable {A : Type} [DecidableEq A]

theorem payAll_frame (h : Nat) (ks : List (Nat × A)) (s : St A) :
    (payAll h ks s).1.active = s.active ∧ (payAll h ks s).1.rw = s.rw ∧
    (payAll h ks s).1.rwTotal = s.rwTotal ∧ (payAll h ks s).1.rwPending = s.rwPending := by
  induction ks generalizing s with
  | nil => simp [payAll]
  | cons k ks ih =>
    simp only [payAll]
    have := ih ({ s.setBal k.2 (s.balOf k.2 + getD s.pending k) with
      pending := upsert (s.setBal k.2 (s.balOf k.2 + getD s.pending k)).pending (h, k.2) 0 })
    simpa [St.setBal] using this

theorem payRwAll_frame (h : Nat) (ks : List (Nat × A)) (s : St A) :
    (payRwAll h ks s).1.active = s.active ∧ (payRwAll h ks s).1.rw = s.rw ∧
    (payRwAll h ks s).1.rwTotal = s.rwTotal ∧ (payRwAll h ks s).1.pending = s.pending := by
  induction ks generalizing s with
  | nil => simp [payRwAll]
  | cons k ks ih =>
    simp only [payRwAll]
    have := ih ({ s.setBal k.2 (s.balOf k.2 + getD s.rwPending k) with
      rwPending := upsert (s.setBal k.2 (s.balOf k.2 + getD s.rwPending k)).rwPending (h, k.2) 0 })
    simpa [St.setBal] using this

theorem accrueAll_frame (T P : Int) (es : List (A × Int)) (s : St A) :
    (accrueAll T P es s).1.active = s.active ∧ (accrueAll T P es s).1.bal = s.bal ∧
    (accrueAll T P es s).1.pending = s.pending ∧ (accrueAll T P es s).1.rwPending = s.rwPending := by
  induction es generalizing s with
  | nil => simp [accrueAll]
  | cons e es ih =>
    simp only [accrueAll]
    have := ih ({ s with rw := upsert s.rw e.1 (getD s.rw e.1 + T * e.2 / P), rwTotal := s.rwTotal + T * e.2 / P })
    simpa using this

/-- every credit of the loop is in its log, and nothing else changes a balance -/
theorem payAll_balOf (h : Nat) (ks : List (Nat × A)) (s : St A) (a : A) :
    (payAll h ks s).1.balOf a = s.balOf a + sumKey a (payAll h ks s).2 := by
  induction ks generalizing s with
  | nil => simp [payAll, sumKey]
  | cons k ks ih =>
    simp only [payAll]
    rw [ih, sumKey_cons]
    simp only [St.balOf, St.setBal, getD_upsert]
    by_cases e : a = k.2
    · subst e; simp; omega
    · have e' : ¬ k.2 = a := fun x => e x.symm
      simp [e, e']

theorem payRwAll_balOf (h : Nat) (ks : List (Nat × A)) (s : St A) (a : A) :
    (payRwAll h ks s).1.balOf a = s.balOf a + sumKey a (payRwAll h ks s).2 := by
  induction ks generalizing s with
  | nil => simp [payRwAll, sumKey]
  | cons k ks ih =>
    simp only [payRwAll]
    rw [ih, sumKey_cons]
    simp only [St.balOf, St.setBal, getD_upsert]
    by_cases e : a = k.2
    · subst e; simp; omega
    · have e' : ¬ k.2 = a := fun x => e x.symm
      simp [e, e']

theorem accrueAll_rw (T P : Int) (es : List (A × Int)) (s : St A) (a : A) :
    getD (accrueAll T P es s).1.rw a = getD s.rw a + sumKey a (accrueAll T P es s).2 := by
  induction es generalizing s with
  | nil => simp [accrueAll, sumKey]
  | cons e es ih =>
    simp only [accrueAll]
    rw [ih, sumKey_cons]
    simp only [getD_upsert]
    by_cases x : a = e.1
    · subst x; simp; omega
    · have x' : ¬ e.1 = a := fun y => x y.symm
      simp [x, x']

theorem accrueAll_log_nonneg (T P : Int) (hT : 0 ≤ T) (hP : 0 < P) (es : List (A × Int)) (s : St A)
    (hes : ∀ e ∈ es, 0 ≤ e.2) : ∀ e ∈ (accrueAll T P es s).2, 0 ≤ e.2 := by
  induction es generalizing s with
  | nil => simp [accrueAll]
  | cons e es ih =>
    simp only [accrueAll]
    intro x hx
    rcases List.mem_cons.mp hx with rfl | hx
    · exact Int.ediv_nonneg (Int.mul_nonneg hT (hes e (by simp))) (Int.le_of_lt hP)
    · exact ih _ (fun e he => hes e (by simp [he])) x hx

theorem sumKey_nonneg {K : Type} [DecidableEq K] (k : K) (l : List (K × Int)) (h : ∀ e ∈ l, 0 ≤ e.2) :
    0 ≤ sumKey k l := by
  induction l with
  | nil => simp [sumKey]
  | cons hd t ih =>
    obtain ⟨k', v⟩ := hd
    have hv : 0 ≤ v := h (k', v) (by simp)
    have ht := ih (fun e he => h e (by simp [he]))
    rw [sumKey_cons]
    by_cases e : k' = k <;> simp [e] <;> omega

/-- what the maturity loop does when the reported keys are exactly distinct keys of height `h` -/
theorem payAll_spec (h : Nat) (ks : List (Nat × A)) (s : St A) (hk : ∀ k ∈ ks, k.1 = h) (knd : ks.Nodup) :
    (payAll h ks s).2 = ks.map (fun k => (k.2, getD s.pending k)) ∧
    (∀ k', alookup k' (payAll h ks s).1.pending = if k' ∈ ks then some 0 else alookup k' s.pending) ∧
    ((akeys s.pending).Nodup → (akeys (payAll h ks s).1.pending).Nodup) := by
  induction ks generalizing s with
  | nil => simp [payAll]
  | cons k ks ih =>
    have hk1 : k.1 = h := hk k (by simp)
    have hkk : (h, k.2) = k := by rw [← hk1]
    have hnd : k ∉ ks ∧ ks.Nodup := List.nodup_cons.mp knd
    simp only [payAll]
    obtain ⟨i1, i2, i3⟩ := ih ({ s.setBal k.2 (s.balOf k.2 + getD s.pending k) with
      pending := upsert (s.setBal k.2 (s.balOf k.2 + getD s.pending k)).pending (h, k.2) 0 })
      (fun k' hk' => hk k' (by simp [hk'])) hnd.2
    simp only [St.setBal, hkk] at i1 i2 i3 ⊢
    refine ⟨?_, ?_, ?_⟩
    · rw [i1]
      simp only [List.map_cons]
      congr 1
      apply List.map_congr_left
      intro k' hk'
      have : k' ≠ k := fun e => hnd.1 (e ▸ hk')
      rw [getD_upsert_ne _ _ _ _ this]
    · intro k'
      rw [i2 k', alookup_upsert]
      by_cases e : k' = k
      · subst e; simp
      · simp [e]
    · intro hn
      exact i3 (nodup_akeys_upsert _ _ _ hn)

theorem payRwAll_spec (h : Nat) (ks : List (Nat × A)) (s : St A) (hk : ∀ k ∈ ks, k.1 = h) (knd : ks.Nodup) :
    (payRwAll h ks s).2 = ks.map (fun k => (k.2, getD s.rwPending k)) ∧
    (∀ k', alookup k' (payRwAll h ks s).1.rwPending = if k' ∈ ks then some 0 else alookup k' s.rwPending) ∧
    ((akeys s.rwPending).Nodup → (akeys (payRwAll h ks s).1.rwPending).Nodup) := by
  induction ks generalizing s with
  | nil => simp [payRwAll]
  | cons k ks ih =>
    have hk1 : k.1 = h := hk k (by simp)
    have hkk : (h, k.2) = k := by rw [← hk1]
    have hnd : k ∉ ks ∧ ks.Nodup := List.nodup_cons.mp knd
    simp only [payRwAll]
    obtain ⟨i1, i2, i3⟩ := ih ({ s.setBal k.2 (s.balOf k.2 + getD s.rwPending k) with
      rwPending := upsert (s.setBal k.2 (s.balOf k.2 + getD s.rwPending k)).rwPending (h, k.2) 0 })
      (fun k' hk' => hk k' (by simp [hk'])) hnd.2
    simp only [St.setBal, hkk] at i1 i2 i3 ⊢
    refine ⟨?_, ?_, ?_⟩
    · rw [i1]
      simp only [List.map_cons]
      congr 1
      apply List.map_congr_left
      intro k' hk'
      have : k' ≠ k := fun e => hnd.1 (e ▸ hk')
      rw [getD_upsert_ne _ _ _ _ this]
    · intro k'
      rw [i2 k', alookup_upsert]
      by_cases e : k' = k
      · subst e; simp
      · simp [e]
    · intro hn
      exact i3 (nodup_akeys_upsert _ _ _ hn)

/-- the loop never pays the pool when no reported key carries the pool address; the new keys it
    creates carry addresses of reported keys -/
theorem payAll_keys (h : Nat) (ks : List (Nat × A)) (s : St A) (k' : Nat × A)
    (hm : k' ∈ akeys (payAll h ks s).1.pending) :
    k' ∈ akeys s.pending ∨ ∃ k ∈ ks, k'.2 = k.2 := by
  induction ks generalizing s with
  | nil => left; simpa [payAll] using hm
  | cons k ks ih =>
    simp only [payAll] at hm
    rcases ih _ hm with m | ⟨k2, hk2, e⟩
    · simp only [St.setBal] at m
      rcases (mem_akeys_upsert _ _ _ _).mp m with e | m
      · right; exact ⟨k, by simp, by rw [e]⟩
      · left; exact m
    · right; exact ⟨k2, by simp [hk2], e⟩

theorem payRwAll_keys (h : Nat) (ks : List (Nat × A)) (s : St A) (k' : Nat × A)
    (hm : k' ∈ akeys (payRwAll h ks s).1.rwPending) :
    k' ∈ akeys s.rwPending ∨ ∃ k ∈ ks, k'.2 = k.2 := by
  induction ks generalizing s with
  | nil => left; simpa [payRwAll] using hm
  | cons k ks ih =>
    simp only [payRwAll] at hm
    rcases ih _ hm with m | ⟨k2, hk2, e⟩
    · simp only [St.setBal] at m
      rcases (mem_akeys_upsert _ _ _ _).mp m with e | m
      · right; exact ⟨k, by simp, by rw [e]⟩
      · left; exact m
    · right; exact ⟨k2, by simp [hk2], e⟩

theorem mem_visitPending (c : Cfg A) (h : Nat) (p : List ((Nat × A) × Int)) (k : Nat × A) :
    k ∈ visitPending c h p ↔
      k ∈ akeys p ∧ (if c.sepPrefix then (k.1 == h) else decPrefix h k.1) = true := by
  unfold visitPending
  rw [mem_sortBy, List.mem_filter]

theorem mem_visitRwPending (c : Cfg A) (h : Nat) (p : List ((Nat × A) × Int)) (k : Nat × A) :
    k ∈ visitRwPending c h p ↔ k ∈ akeys p ∧ k.1 = h := by
  unfold visitRwPending
  rw [mem_sortBy, List.mem_filter]
  simp

theorem nodup_visitPending (c : Cfg A) (h : Nat) (p : List ((Nat × A) × Int)) (hn : (akeys p).Nodup) :
    (visitPending c h p).Nodup :=
  nodup_sortBy _ _ (List.Nodup.sublist List.filter_sublist hn)

theorem nodup_visitRwPending (c : Cfg A) (h : Nat) (p : List ((Nat × A) × Int)) (hn : (akeys p).Nodup) :
    (visitRwPending c h p).Nodup :=
  nodup_sortBy _ _ (List.Nodup.sublist List.filter_sublist hn)

end loops

/-! ## a maturity queue: entries added at `height + M`, matured exactly at their height -/

section queue
variable {A : Type} [DecidableEq A]

/-- `Q` = the pending store, `L` = ghost log of the additions ((block, addr) ↦ amount),
    `Pd` = ghost log of the payments ((height, addr) ↦ amount) -/
structure QInv (M height : Nat) (Q L Pd : List ((Nat × A) × Int)) : Prop where
  nodup : (akeys Q).Nodup
  logle : ∀ k ∈ akeys L, k.1 ≤ height
  future : ∀ h' a, height < h' → alookup (h', a) Q =
      if M ≤ h' ∧ (h' - M, a) ∈ akeys L then some (sumKey (h' - M, a) L) else none
  past : ∀ h' a, h' ≤ height → alookup (h', a) Q = none ∨ alookup (h', a) Q = some 0
  pdNodup : (akeys Pd).Nodup
  pd : ∀ h a x, ((h, a), x) ∈ Pd ↔
      (M ≤ h ∧ h ≤ height ∧ (h - M, a) ∈ akeys L ∧ x = sumKey (h - M, a) L)

theorem QInv.init (M : Nat) : QInv (A := A) M 0 [] [] [] := by
  refine ⟨by simp [akeys], by simp [akeys], ?_, ?_, by simp [akeys], ?_⟩
  · intro h' a _; simp [akeys]
  · intro h' a _; left; rfl
  · intro h a x; simp [akeys]

theorem QInv.getD_future {M height : Nat} {Q L Pd : List ((Nat × A) × Int)} (inv : QInv M height Q L Pd)
    (hb : Nat) (a : A) (hlt : height < hb + M) : getD Q (hb + M, a) = sumKey (hb, a) L := by
  have h := inv.future (hb + M) a hlt
  simp only [Nat.add_sub_cancel, Nat.le_add_left, true_and] at h
  unfold getD
  rw [h]
  by_cases m : (hb, a) ∈ akeys L
  · simp [m]
  · simp [m, sumKey_of_not_mem _ _ m]

theorem QInv.add {M height : Nat} {Q L Pd : List ((Nat × A) × Int)} (hM : 1 ≤ M)
    (inv : QInv M height Q L Pd) (a : A) (amt : Int) :
    QInv M height (upsert Q (height + M, a) (getD Q (height + M, a) + amt)) (((height, a), amt) :: L) Pd := by
  have hg := inv.getD_future height a (by omega)
  refine ⟨nodup_akeys_upsert _ _ _ inv.nodup, ?_, ?_, ?_, inv.pdNodup, ?_⟩
  · intro k hk
    rcases (mem_akeys_cons _ _ _ _).mp hk with e | m
    · rw [e]; exact Nat.le_refl _
    · exact inv.logle k m
  · intro h' a' hlt
    by_cases hk : (h', a') = (height + M, a)
    · obtain ⟨e1, e2⟩ := Prod.mk.inj hk
      subst e1; subst e2
      rw [alookup_upsert_self]
      have m : (height + M - M, a') ∈ akeys (((height, a'), amt) :: L) := by
        rw [Nat.add_sub_cancel]; simp [akeys]
      rw [Nat.add_sub_cancel] at m
      simp only [Nat.add_sub_cancel, Nat.le_add_left, true_and, m, if_true, hg]
      congr 1
      simp only [sumKey, if_true]
      omega
    · rw [alookup_upsert_ne _ _ _ _ hk, inv.future h' a' hlt]
      by_cases hm : M ≤ h'
      · have hne : ¬ ((height, a) = (h' - M, a')) := by
          intro e
          obtain ⟨e1, e2⟩ := Prod.mk.inj e
          apply hk
          rw [← e2]
          congr 1
          omega
        have hne' : ¬ ((h' - M, a') = (height, a)) := fun e => hne e.symm
        simp only [mem_akeys_cons, hne', false_or, sumKey, hne, if_false]
      · simp [hm]
  · intro h' a' hle
    have hk : (h', a') ≠ (height + M, a) := by
      intro e
      have := (Prod.mk.inj e).1
      omega
    rw [alookup_upsert_ne _ _ _ _ hk]
    exact inv.past h' a' hle
  · intro h a' x
    rw [inv.pd h a' x]
    constructor
    · rintro ⟨h1, h2, h3, h4⟩
      have hne : ¬ ((height, a) = (h - M, a')) := by
        intro e
        have := (Prod.mk.inj e).1
        omega
      refine ⟨h1, h2, ?_, ?_⟩
      · rw [mem_akeys_cons]; exact Or.inr h3
      · simp only [sumKey, hne, if_false]; exact h4
    · rintro ⟨h1, h2, h3, h4⟩
      have hne : ¬ ((height, a) = (h - M, a')) := by
        intro e
        have := (Prod.mk.inj e).1
        omega
      have hne' : ¬ ((h - M, a') = (height, a)) := fun e => hne e.symm
      refine ⟨h1, h2, ?_, ?_⟩
      · rcases (mem_akeys_cons _ _ _ _).mp h3 with e | m
        · exact absurd e hne'
        · exact m
      · simpa only [sumKey, hne, if_false] using h4

theorem mem_akeys_exists {K : Type} [DecidableEq K] (l : List (K × Int)) (k : K) (h : k ∈ akeys l) :
    ∃ x, (k, x) ∈ l := by
  unfold akeys at h
  obtain ⟨e, he, rfl⟩ := List.mem_map.mp h
  exact ⟨e.2, he⟩

theorem mem_akeys_of_mem {K : Type} [DecidableEq K] (l : List (K × Int)) (k : K) (x : Int) (h : (k, x) ∈ l) :
    k ∈ akeys l := List.mem_map.mpr ⟨(k, x), h, rfl⟩

theorem QInv.mature {M height : Nat} {Q L Pd : List ((Nat × A) × Int)}
    (inv : QInv M height Q L Pd) (ks : List (Nat × A))
    (hks : ∀ k, k ∈ ks ↔ k ∈ akeys Q ∧ k.1 = height + 1) (knd : ks.Nodup)
    (Q' : List ((Nat × A) × Int))
    (hQ' : ∀ k', alookup k' Q' = if k' ∈ ks then some 0 else alookup k' Q) (hnd : (akeys Q').Nodup) :
    QInv M (height + 1) Q' L (ks.map (fun k => (k, getD Q k)) ++ Pd) := by
  refine ⟨hnd, fun k hk => Nat.le_succ_of_le (inv.logle k hk), ?_, ?_, ?_, ?_⟩
  · intro h' a hlt
    have hn : (h', a) ∉ ks := by
      intro m
      have := ((hks _).mp m).2
      simp at this; omega
    rw [hQ', if_neg hn]
    exact inv.future h' a (by omega)
  · intro h' a hle
    rw [hQ']
    by_cases m : (h', a) ∈ ks
    · right; simp [m]
    · simp only [m, if_false]
      by_cases hh : h' ≤ height
      · exact inv.past h' a hh
      · left
        apply not_mem_akeys_alookup
        intro mk
        apply m
        exact (hks _).mpr ⟨mk, by simp; omega⟩
  · have hk : akeys (ks.map (fun k => (k, getD Q k)) ++ Pd) = ks ++ akeys Pd := by
      simp [akeys, List.map_append, List.map_map, Function.comp_def]
    rw [hk, List.nodup_append]
    refine ⟨knd, inv.pdNodup, ?_⟩
    intro k1 hk1 k2 hk2 e
    subst e
    obtain ⟨x, hx⟩ := mem_akeys_exists _ _ hk2
    have h1 := ((hks _).mp hk1).2
    have h2 := ((inv.pd k1.1 k1.2 x).mp hx).2.1
    omega
  · intro h a x
    rw [List.mem_append]
    constructor
    · rintro (m | m)
      · obtain ⟨k, hk, e⟩ := List.mem_map.mp m
        obtain ⟨e1, e2⟩ := Prod.mk.inj e
        subst e1
        obtain ⟨mq, hh⟩ := (hks _).mp hk
        simp only at hh
        have hf := inv.future h a (by omega)
        obtain ⟨v, hv⟩ := alookup_isSome_of_mem _ _ mq
        rw [hv] at hf
        by_cases cnd : M ≤ h ∧ (h - M, a) ∈ akeys L
        · rw [if_pos cnd] at hf
          refine ⟨cnd.1, by omega, cnd.2, ?_⟩
          rw [← e2]
          unfold getD
          rw [hv]
          simpa using hf
        · rw [if_neg cnd] at hf
          cases hf
      · obtain ⟨h1, h2, h3, h4⟩ := (inv.pd h a x).mp m
        exact ⟨h1, by omega, h3, h4⟩
    · rintro ⟨h1, h2, h3, h4⟩
      by_cases hh : h ≤ height
      · right; exact (inv.pd h a x).mpr ⟨h1, hh, h3, h4⟩
      · left
        have he : h = height + 1 := by omega
        have hf := inv.future h a (by omega)
        rw [if_pos ⟨h1, h3⟩] at hf
        have mq : (h, a) ∈ akeys Q := mem_akeys_of_alookup _ _ _ hf
        have mk : (h, a) ∈ ks := (hks _).mpr ⟨mq, he⟩
        apply List.mem_map.mpr
        refine ⟨(h, a), mk, ?_⟩
        congr 1
        unfold getD
        rw [hf, h4]
        rfl

end queue

/-! ## BeginBlock as a whole -/

section begin
variable {A : Type} [DecidableEq A]

/-- the state after the accrual phase -/
def accPhase (c : Cfg A) (s : St A) (h : Nat) (T : Int) : St A × List (A × Int) :=
  let m := matureUndeleg c s h
  if 0 < m.1.balOf c.pool then accrueAll T (m.1.balOf c.pool) m.1.active m.1 else (m.1, [])

theorem beginBlock_eq (c : Cfg A) (s : St A) (h : Nat) (T : Int) :
    beginBlock c s h T =
      { st := (matureRewards c (accPhase c s h T).1 h).1, paid := (matureUndeleg c s h).2,
        accrued := (accPhase c s h T).2, rwPaid := (matureRewards c (accPhase c s h T).1 h).2 } := rfl

theorem accPhase_frame (c : Cfg A) (s : St A) (h : Nat) (T : Int) :
    (accPhase c s h T).1.active = (matureUndeleg c s h).1.active ∧
    (accPhase c s h T).1.bal = (matureUndeleg c s h).1.bal ∧
    (accPhase c s h T).1.pending = (matureUndeleg c s h).1.pending ∧
    (accPhase c s h T).1.rwPending = (matureUndeleg c s h).1.rwPending := by
  unfold accPhase
  dsimp only
  split
  · exact accrueAll_frame _ _ _ _
  · exact ⟨rfl, rfl, rfl, rfl⟩

theorem accPhase_rw (c : Cfg A) (s : St A) (h : Nat) (T : Int) (a : A) :
    getD (accPhase c s h T).1.rw a = getD s.rw a + sumKey a (accPhase c s h T).2 := by
  unfold accPhase
  dsimp only
  split
  · rw [accrueAll_rw]
    unfold matureUndeleg
    rw [(payAll_frame _ _ _).2.1]
  · unfold matureUndeleg
    rw [(payAll_frame _ _ _).2.1]
    simp [sumKey]

theorem beginBlock_active (c : Cfg A) (s : St A) (h : Nat) (T : Int) :
    (beginBlock c s h T).st.active = s.active := by
  rw [beginBlock_eq]
  unfold matureRewards
  simp only
  rw [(payRwAll_frame _ _ _).1, (accPhase_frame c s h T).1]
  unfold matureUndeleg
  exact (payAll_frame _ _ _).1

theorem beginBlock_rw (c : Cfg A) (s : St A) (h : Nat) (T : Int) (a : A) :
    getD (beginBlock c s h T).st.rw a = getD s.rw a + sumKey a (beginBlock c s h T).accrued := by
  rw [beginBlock_eq]
  unfold matureRewards
  simp only
  rw [(payRwAll_frame _ _ _).2.1, accPhase_rw]

theorem beginBlock_pending (c : Cfg A) (s : St A) (h : Nat) (T : Int) :
    (beginBlock c s h T).st.pending = (matureUndeleg c s h).1.pending := by
  rw [beginBlock_eq]
  unfold matureRewards
  simp only
  rw [(payRwAll_frame _ _ _).2.2.2, (accPhase_frame c s h T).2.2.1]

theorem accPhase_rwPending (c : Cfg A) (s : St A) (h : Nat) (T : Int) :
    (accPhase c s h T).1.rwPending = s.rwPending := by
  rw [(accPhase_frame c s h T).2.2.2]
  unfold matureUndeleg
  exact (payAll_frame _ _ _).2.2.2

/-- every balance change of BeginBlock is a logged maturity payment -/
theorem beginBlock_balOf (c : Cfg A) (s : St A) (h : Nat) (T : Int) (a : A) :
    (beginBlock c s h T).st.balOf a =
      s.balOf a + sumKey a (beginBlock c s h T).paid + sumKey a (beginBlock c s h T).rwPaid := by
  rw [beginBlock_eq]
  unfold matureRewards
  simp only
  rw [payRwAll_balOf]
  have h1 : (accPhase c s h T).1.balOf a = (matureUndeleg c s h).1.balOf a := by
    unfold St.balOf; rw [(accPhase_frame c s h T).2.1]
  rw [h1]
  unfold matureUndeleg
  rw [payAll_balOf]

theorem payAll_log_addr (h : Nat) (ks : List (Nat × A)) (s : St A) :
    ∀ e ∈ (payAll h ks s).2, ∃ k ∈ ks, e.1 = k.2 := by
  induction ks generalizing s with
  | nil => simp [payAll]
  | cons k ks ih =>
    simp only [payAll]
    intro e he
    rcases List.mem_cons.mp he with rfl | he
    · exact ⟨k, by simp, rfl⟩
    · obtain ⟨k2, hk2, e2⟩ := ih _ e he
      exact ⟨k2, by simp [hk2], e2⟩

theorem payRwAll_log_addr (h : Nat) (ks : List (Nat × A)) (s : St A) :
    ∀ e ∈ (payRwAll h ks s).2, ∃ k ∈ ks, e.1 = k.2 := by
  induction ks generalizing s with
  | nil => simp [payRwAll]
  | cons k ks ih =>
    simp only [payRwAll]
    intro e he
    rcases List.mem_cons.mp he with rfl | he
    · exact ⟨k, by simp, rfl⟩
    · obtain ⟨k2, hk2, e2⟩ := ih _ e he
      exact ⟨k2, by simp [hk2], e2⟩

theorem sumKey_zero_of_forall {K : Type} [DecidableEq K] (k : K) (l : List (K × Int)) (h : ∀ e ∈ l, e.1 ≠ k) :
    sumKey k l = 0 := by
  apply sumKey_of_not_mem
  intro m
  obtain ⟨x, hx⟩ := mem_akeys_exists _ _ m
  exact h _ hx rfl

/-- BeginBlock leaves the pool balance alone when no pending key carries the pool address -/
theorem beginBlock_pool (c : Cfg A) (s : St A) (h : Nat) (T : Int)
    (h1 : ∀ k ∈ akeys s.pending, k.2 ≠ c.pool) (h2 : ∀ k ∈ akeys s.rwPending, k.2 ≠ c.pool) :
    (beginBlock c s h T).st.balOf c.pool = s.balOf c.pool := by
  rw [beginBlock_balOf]
  have z1 : sumKey c.pool (beginBlock c s h T).paid = 0 := by
    apply sumKey_zero_of_forall
    intro e he
    rw [beginBlock_eq] at he
    obtain ⟨k, hk, ek⟩ := payAll_log_addr _ _ _ e he
    rw [ek]
    exact h1 k ((mem_visitPending c h _ k).mp hk).1
  have z2 : sumKey c.pool (beginBlock c s h T).rwPaid = 0 := by
    apply sumKey_zero_of_forall
    intro e he
    rw [beginBlock_eq] at he
    unfold matureRewards at he
    obtain ⟨k, hk, ek⟩ := payRwAll_log_addr _ _ _ e he
    rw [ek]
    have := ((mem_visitRwPending c h _ k).mp hk).1
    rw [accPhase_rwPending] at this
    exact h2 k this
  rw [z1, z2]; omega

theorem beginBlock_pending_keys (c : Cfg A) (s : St A) (h : Nat) (T : Int)
    (h1 : ∀ k ∈ akeys s.pending, k.2 ≠ c.pool) :
    ∀ k ∈ akeys (beginBlock c s h T).st.pending, k.2 ≠ c.pool := by
  intro k hk
  rw [beginBlock_pending] at hk
  unfold matureUndeleg at hk
  rcases payAll_keys _ _ _ _ hk with m | ⟨k2, hk2, e⟩
  · exact h1 k m
  · rw [e]; exact h1 k2 ((mem_visitPending c h _ k2).mp hk2).1

theorem beginBlock_rwPending_keys (c : Cfg A) (s : St A) (h : Nat) (T : Int)
    (h2 : ∀ k ∈ akeys s.rwPending, k.2 ≠ c.pool) :
    ∀ k ∈ akeys (beginBlock c s h T).st.rwPending, k.2 ≠ c.pool := by
  intro k hk
  rw [beginBlock_eq] at hk
  unfold matureRewards at hk
  simp only at hk
  rcases payRwAll_keys _ _ _ _ hk with m | ⟨k2, hk2, e⟩
  · rw [accPhase_rwPending] at m; exact h2 k m
  · rw [e]
    have := ((mem_visitRwPending c h _ k2).mp hk2).1
    rw [accPhase_rwPending] at this
    exact h2 k2 this

end begin

/-! ## invariants of histories -/

section history
variable {A : Type} [DecidableEq A]

theorem run_nil (c : Cfg A) (H : Hist A) : run c H [] = H := rfl

theorem run_append (c : Cfg A) (H : Hist A) (l₁ l₂ : List (Op A)) :
    run c H (l₁ ++ l₂) = run c (run c H l₁) l₂ := by
  unfold run; rw [List.foldl_append]

theorem run_snoc (c : Cfg A) (H : Hist A) (l : List (Op A)) (op : Op A) :
    run c H (l ++ [op]) = step c (run c H l) op := by
  rw [run_append]; rfl

/-- induction principle: a predicate kept by every step holds after every history -/
theorem run_induct (c : Cfg A) (P : Hist A → Prop) (Ok : Op A → Prop)
    (hstep : ∀ H op, Ok op → P H → P (step c H op)) (H : Hist A) (h0 : P H) (ops : List (Op A))
    (hok : ∀ op ∈ ops, Ok op) : P (run c H ops) := by
  induction ops generalizing H with
  | nil => exact h0
  | cons op t ih =>
    show P (run c (step c H op) t)
    exact ih _ (hstep H op (hok op (by simp)) h0) (fun o ho => hok o (by simp [ho]))

/-! ### pool balance = Σ active + donations -/

structure PoolInv (c : Cfg A) (d0 : Int) (H : Hist A) : Prop where
  eq : H.st.balOf c.pool = sumV H.st.active + d0 + H.donated
  pk : ∀ k ∈ akeys H.st.pending, k.2 ≠ c.pool
  rk : ∀ k ∈ akeys H.st.rwPending, k.2 ≠ c.pool

theorem step_poolInv (c : Cfg A) (d0 : Int) (H : Hist A) (op : Op A) (hw : op.wf c = true)
    (inv : PoolInv c d0 H) : PoolInv c d0 (step c H op) := by
  obtain ⟨eq, pk, rk⟩ := inv
  cases op with
  | tx t =>
    simp only [step]
    cases hh : handler c H.st H.height t with
    | error e => exact ⟨eq, pk, rk⟩
    | ok s' =>
      cases t with
      | delegate a amt =>
        have ha : a ≠ c.pool := of_decide_eq_true hw
        have ha' : c.pool ≠ a := fun e => ha e.symm
        obtain ⟨_, _, rfl⟩ := delegate_ok (by simpa [handler] using hh)
        refine ⟨?_, pk, rk⟩
        simp only [St.balOf, getD_upsert_self, getD_upsert_ne _ _ _ _ ha', sumV_upsert] at eq ⊢
        omega
      | undelegate a amt =>
        have ha : a ≠ c.pool := of_decide_eq_true hw
        obtain ⟨_, _, _, rfl⟩ := undelegate_ok (by simpa [handler] using hh)
        refine ⟨?_, ?_, rk⟩
        · simp only [St.balOf, getD_upsert_self, sumV_upsert] at eq ⊢
          omega
        · intro k hk
          rcases (mem_akeys_upsert _ _ _ _).mp hk with e | m
          · rw [e]; exact ha
          · exact pk k m
      | withdraw a amt =>
        have ha : a ≠ c.pool := of_decide_eq_true hw
        obtain ⟨_, _, rfl⟩ := withdraw_ok (by simpa [handler] using hh)
        refine ⟨eq, pk, ?_⟩
        intro k hk
        rcases (mem_akeys_upsert _ _ _ _).mp hk with e | m
        · rw [e]; exact ha
        · exact rk k m
      | reinvest a amt =>
        obtain ⟨_, _, rfl⟩ := reinvest_ok (by simpa [handler] using hh)
        refine ⟨?_, pk, rk⟩
        simp only [St.balOf, getD_upsert_self, sumV_upsert] at eq ⊢
        omega
      | donate a amt ck =>
        have ha : a ≠ c.pool := of_decide_eq_true hw
        have ha' : c.pool ≠ a := fun e => ha e.symm
        obtain ⟨_, _, rfl⟩ := donate_ok (by simpa [handler] using hh)
        refine ⟨?_, pk, rk⟩
        simp only [St.balOf, getD_upsert_self, getD_upsert_ne _ _ _ _ ha'] at eq ⊢
        omega
  | env a d =>
    have ha : a ≠ c.pool := by simpa [Op.wf, decide_eq_true_eq] using hw
    have ha' : c.pool ≠ a := fun e => ha e.symm
    refine ⟨?_, pk, rk⟩
    simp only [step, St.balOf, St.setBal, getD_upsert_ne _ _ _ _ ha'] at eq ⊢
    exact eq
  | beginBlock T =>
    simp only [step]
    refine ⟨?_, beginBlock_pending_keys c _ _ _ pk, beginBlock_rwPending_keys c _ _ _ rk⟩
    simp only
    rw [beginBlock_pool c _ _ _ pk rk, beginBlock_active]
    exact eq

/-! ### both maturity queues -/

/-- the undelegation queue and the reward-withdrawal queue of a history -/
def UndInv (c : Cfg A) (H : Hist A) : Prop := QInv c.maturity H.height H.st.pending H.ulog H.paid
def RwdInv (c : Cfg A) (H : Hist A) : Prop := QInv c.maturity H.height H.st.rwPending H.wlog H.rwPaid

theorem tagH_map (h : Nat) (ks : List (Nat × A)) (f : Nat × A → Int) (hk : ∀ k ∈ ks, k.1 = h) :
    tagH h (ks.map (fun k => (k.2, f k))) = ks.map (fun k => (k, f k)) := by
  unfold tagH
  rw [List.map_map]
  apply List.map_congr_left
  intro k m
  have := hk k m
  simp only [Function.comp]
  rw [← this]

/-- with the separated prefix — or, with the old one, under the exactness condition — the range of
    height `h = height+1` reports exactly the keys of height `h` -/
theorem visitPending_exact (c : Cfg A) (H : Hist A) (hex : c.sepPrefix = true ∨ c.maturity ≤ 9)
    (inv : QInv c.maturity H.height H.st.pending H.ulog H.paid) (k : Nat × A) :
    k ∈ visitPending c (H.height + 1) H.st.pending ↔ k ∈ akeys H.st.pending ∧ k.1 = H.height + 1 := by
  rw [mem_visitPending]
  by_cases hs : c.sepPrefix = true
  · simp [hs]
  have hM9 : c.maturity ≤ 9 := by
    rcases hex with e | e
    · exact absurd e hs
    · exact e
  have hs' : c.sepPrefix = false := by simpa using hs
  simp only [hs', Bool.false_eq_true, if_false]
  constructor
  · rintro ⟨m, d⟩
    refine ⟨m, ?_⟩
    by_cases h1 : k.1 < H.height + 1
    · rw [decPrefix_lt_false _ _ (by omega) h1] at d; cases d
    · by_cases h2 : k.1 = H.height + 1
      · exact h2
      · exfalso
        obtain ⟨v, hv⟩ := alookup_isSome_of_mem _ _ m
        have hf := inv.future k.1 k.2 (by omega)
        rw [show (k.1, k.2) = k from rfl, hv] at hf
        by_cases cnd : c.maturity ≤ k.1 ∧ (k.1 - c.maturity, k.2) ∈ akeys H.ulog
        · have hl := inv.logle _ cnd.2
          simp only at hl
          rw [decPrefix_exact (H.height + 1) c.maturity k.1 (by omega) (by omega) (by omega) (by omega)] at d
          cases d
        · rw [if_neg cnd] at hf; cases hf
  · rintro ⟨m, e⟩
    exact ⟨m, by rw [e]; exact decPrefix_self _⟩

theorem step_undInv (c : Cfg A) (hM : 1 ≤ c.maturity) (hM9 : c.sepPrefix = true ∨ c.maturity ≤ 9)
    (H : Hist A) (op : Op A)
    (und : UndInv c H) : UndInv c (step c H op) := by
  unfold UndInv at und ⊢
  cases op with
  | tx t =>
    simp only [step]
    cases hh : handler c H.st H.height t with
    | error e => exact und
    | ok s' =>
      cases t with
      | delegate a amt =>
        obtain ⟨_, _, rfl⟩ := delegate_ok (by simpa [handler] using hh)
        exact und
      | undelegate a amt =>
        obtain ⟨_, _, _, rfl⟩ := undelegate_ok (by simpa [handler] using hh)
        exact und.add hM a amt
      | withdraw a amt =>
        obtain ⟨_, _, rfl⟩ := withdraw_ok (by simpa [handler] using hh)
        exact und
      | reinvest a amt =>
        obtain ⟨_, _, rfl⟩ := reinvest_ok (by simpa [handler] using hh)
        exact und
      | donate a amt ck =>
        obtain ⟨_, _, rfl⟩ := donate_ok (by simpa [handler] using hh)
        exact und
  | env a d => exact und
  | beginBlock T =>
    simp only [step]
    have hks := visitPending_exact c H hM9 und
    have knd := nodup_visitPending c (H.height + 1) H.st.pending und.nodup
    have hk1 : ∀ k ∈ visitPending c (H.height + 1) H.st.pending, k.1 = H.height + 1 :=
      fun k m => ((hks k).mp m).2
    obtain ⟨s1, s2, s3⟩ := payAll_spec (H.height + 1) _ H.st hk1 knd
    have := und.mature _ hks knd (matureUndeleg c H.st (H.height + 1)).1.pending s2 (s3 und.nodup)
    rw [beginBlock_pending, beginBlock_eq]
    simp only
    unfold matureUndeleg
    rw [s1, tagH_map _ _ _ hk1]
    exact this

theorem step_rwdInv (c : Cfg A) (hM : 1 ≤ c.maturity) (H : Hist A) (op : Op A)
    (rwd : RwdInv c H) : RwdInv c (step c H op) := by
  unfold RwdInv at rwd ⊢
  cases op with
  | tx t =>
    simp only [step]
    cases hh : handler c H.st H.height t with
    | error e => exact rwd
    | ok s' =>
      cases t with
      | delegate a amt =>
        obtain ⟨_, _, rfl⟩ := delegate_ok (by simpa [handler] using hh)
        exact rwd
      | undelegate a amt =>
        obtain ⟨_, _, _, rfl⟩ := undelegate_ok (by simpa [handler] using hh)
        exact rwd
      | withdraw a amt =>
        obtain ⟨_, _, rfl⟩ := withdraw_ok (by simpa [handler] using hh)
        exact rwd.add hM a amt
      | reinvest a amt =>
        obtain ⟨_, _, rfl⟩ := reinvest_ok (by simpa [handler] using hh)
        exact rwd
      | donate a amt ck =>
        obtain ⟨_, _, rfl⟩ := donate_ok (by simpa [handler] using hh)
        exact rwd
  | env a d => exact rwd
  | beginBlock T =>
    simp only [step]
    have e0 := accPhase_rwPending c H.st (H.height + 1) T
    have hks : ∀ k, k ∈ visitRwPending c (H.height + 1) H.st.rwPending ↔
        k ∈ akeys H.st.rwPending ∧ k.1 = H.height + 1 := fun k => mem_visitRwPending c _ _ k
    have knd := nodup_visitRwPending c (H.height + 1) H.st.rwPending rwd.nodup
    have hk1 : ∀ k ∈ visitRwPending c (H.height + 1) H.st.rwPending, k.1 = H.height + 1 :=
      fun k m => ((hks k).mp m).2
    obtain ⟨s1, s2, s3⟩ := payRwAll_spec (H.height + 1) _ (accPhase c H.st (H.height + 1) T).1 hk1 knd
    rw [e0] at s1 s2 s3
    have := rwd.mature _ hks knd _ s2 (s3 rwd.nodup)
    rw [beginBlock_eq]
    simp only
    unfold matureRewards
    rw [e0, s1, tagH_map _ _ _ hk1]
    exact this

theorem undInv_init (c : Cfg A) (bal : List (A × Int)) : UndInv c (Hist.init bal) := QInv.init _
theorem rwdInv_init (c : Cfg A) (bal : List (A × Int)) : RwdInv c (Hist.init bal) := QInv.init _

/-! ### reward accounting -/

theorem sumAddr_cons (a : A) (k : Nat × A) (v : Int) (t : List ((Nat × A) × Int)) :
    sumAddr a ((k, v) :: t) = (if k.2 = a then v else 0) + sumAddr a t := by
  obtain ⟨h, a'⟩ := k
  by_cases e : a' = a <;> simp [sumAddr, e]

def RwInv (H : Hist A) : Prop :=
  ∀ a, getD H.st.rw a = sumKey a H.alog - sumAddr a H.wlog - sumKey a H.rlog

theorem step_rwInv (c : Cfg A) (H : Hist A) (op : Op A) (inv : RwInv H) : RwInv (step c H op) := by
  cases op with
  | tx t =>
    simp only [step]
    cases hh : handler c H.st H.height t with
    | error e => exact inv
    | ok s' =>
      cases t with
      | delegate a amt =>
        obtain ⟨_, _, rfl⟩ := delegate_ok (by simpa [handler] using hh)
        exact inv
      | undelegate a amt =>
        obtain ⟨_, _, _, rfl⟩ := undelegate_ok (by simpa [handler] using hh)
        exact inv
      | withdraw a amt =>
        obtain ⟨_, _, rfl⟩ := withdraw_ok (by simpa [handler] using hh)
        intro a'
        have := inv a'
        simp only [getD_upsert, sumAddr_cons]
        by_cases e : a' = a
        · subst e; simp; omega
        · have e' : ¬ a = a' := fun x => e x.symm
          simp [e, e']; omega
      | reinvest a amt =>
        obtain ⟨_, _, rfl⟩ := reinvest_ok (by simpa [handler] using hh)
        intro a'
        have := inv a'
        simp only [getD_upsert, sumKey_cons]
        by_cases e : a' = a
        · subst e; simp; omega
        · have e' : ¬ a = a' := fun x => e x.symm
          simp [e, e']; omega
      | donate a amt ck =>
        obtain ⟨_, _, rfl⟩ := donate_ok (by simpa [handler] using hh)
        exact inv
  | env a d => exact inv
  | beginBlock T =>
    intro a
    simp only [step]
    rw [beginBlock_rw, sumKey_append, inv a]
    omega

/-- sign facts that hold when every amount is non-negative -/
structure SignInv (H : Hist A) : Prop where
  act : ∀ e ∈ H.st.active, 0 ≤ e.2
  rw : ∀ a, 0 ≤ getD H.st.rw a
  rl : ∀ e ∈ H.rlog, 0 ≤ e.2

theorem mem_upsert {K : Type} [DecidableEq K] (l : List (K × Int)) (k : K) (v : Int) (e : K × Int)
    (h : e ∈ upsert l k v) : e ∈ l ∨ e = (k, v) := by
  induction l with
  | nil => right; simpa [upsert] using h
  | cons hd t ih =>
    obtain ⟨k', v'⟩ := hd
    by_cases hk : k' = k
    · simp only [upsert, hk, if_true] at h
      rcases List.mem_cons.mp h with e1 | m
      · right; exact e1
      · left; simp [m]
    · simp only [upsert, hk, if_false] at h
      rcases List.mem_cons.mp h with e1 | m
      · left; simp [e1]
      · rcases ih m with m' | e2
        · left; simp [m']
        · right; exact e2

theorem getD_nonneg {K : Type} [DecidableEq K] (l : List (K × Int)) (k : K) (h : ∀ e ∈ l, 0 ≤ e.2) :
    0 ≤ getD l k := by
  induction l with
  | nil => simp
  | cons hd t ih =>
    obtain ⟨k', v'⟩ := hd
    unfold getD
    by_cases hk : k' = k
    · simp only [alookup, hk, if_true, Option.getD_some]
      exact h (k', v') (by simp)
    · simp only [alookup, hk, if_false]
      exact ih (fun e he => h e (by simp [he]))

theorem getD_le_sumV {K : Type} [DecidableEq K] (l : List (K × Int)) (k : K) (h : ∀ e ∈ l, 0 ≤ e.2) :
    getD l k ≤ sumV l := by
  induction l with
  | nil => simp [sumV]
  | cons hd t ih =>
    obtain ⟨k', v'⟩ := hd
    have hv : 0 ≤ v' := h (k', v') (by simp)
    have ht : ∀ e ∈ t, 0 ≤ e.2 := fun e he => h e (by simp [he])
    have h1 := ih ht
    have h2 := getD_nonneg t k ht
    unfold getD at *
    by_cases hk : k' = k
    · simp only [alookup, hk, if_true, Option.getD_some, sumV]
      have : 0 ≤ sumV t := by omega
      omega
    · simp only [alookup, hk, if_false, sumV]
      omega

theorem all_upsert_nonneg {K : Type} [DecidableEq K] (l : List (K × Int)) (k : K) (v : Int)
    (h : ∀ e ∈ l, 0 ≤ e.2) (hv : 0 ≤ v) : ∀ e ∈ upsert l k v, 0 ≤ e.2 := by
  intro e he
  rcases mem_upsert _ _ _ _ he with m | rfl
  · exact h e m
  · exact hv

theorem step_signInv (c : Cfg A) (hc : c.checkSign = true) (H : Hist A) (op : Op A)
    (hn : op.rewardNonneg = true) (inv : SignInv H) : SignInv (step c H op) := by
  obtain ⟨act, rw, rl⟩ := inv
  cases op with
  | tx t =>
    simp only [step]
    cases hh : handler c H.st H.height t with
    | error e => exact ⟨act, rw, rl⟩
    | ok s' =>
      cases t with
      | delegate a amt =>
        obtain ⟨h0, _, rfl⟩ := delegate_ok (by simpa [handler] using hh)
        refine ⟨all_upsert_nonneg _ _ _ act ?_, rw, rl⟩
        have := getD_nonneg H.st.active a act
        omega
      | undelegate a amt =>
        obtain ⟨h0, _, _, rfl⟩ := undelegate_ok (by simpa [handler] using hh)
        exact ⟨all_upsert_nonneg _ _ _ act (by omega), rw, rl⟩
      | withdraw a amt =>
        obtain ⟨h0, _, rfl⟩ := withdraw_ok (by simpa [handler] using hh)
        refine ⟨act, ?_, rl⟩
        intro a'
        simp only [getD_upsert]
        by_cases e : a' = a
        · simp [e]; omega
        · simp [e]; exact rw a'
      | reinvest a amt =>
        obtain ⟨h0, hs, rfl⟩ := reinvest_ok (by simpa [handler] using hh)
        have hamt : 0 ≤ amt := hs hc
        refine ⟨all_upsert_nonneg _ _ _ act ?_, ?_, ?_⟩
        · have := getD_nonneg H.st.active a act
          omega
        · intro a'
          simp only [getD_upsert]
          by_cases e : a' = a
          · simp [e]; omega
          · simp [e]; exact rw a'
        · intro e he
          rcases List.mem_cons.mp he with rfl | m
          · exact hamt
          · exact rl e m
      | donate a amt ck =>
        obtain ⟨_, _, rfl⟩ := donate_ok (by simpa [handler] using hh)
        exact ⟨act, rw, rl⟩
  | env a d => exact ⟨act, rw, rl⟩
  | beginBlock T =>
    have hT : 0 ≤ T := of_decide_eq_true hn
    simp only [step]
    refine ⟨by rw [beginBlock_active]; exact act, ?_, rl⟩
    intro a
    rw [beginBlock_rw]
    have h1 := rw a
    suffices 0 ≤ sumKey a (beginBlock c H.st (H.height + 1) T).accrued by omega
    apply sumKey_nonneg
    rw [beginBlock_eq]
    simp only
    unfold accPhase
    dsimp only
    split
    · rename_i hP
      apply accrueAll_log_nonneg T _ hT hP
      unfold matureUndeleg
      rw [(payAll_frame _ _ _).1]
      exact act
    · simp

end history

end OLP.Deleg

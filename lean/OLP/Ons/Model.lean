/-
  ONS (domain names) — executable model of action/ons/*.go over data/ons/{domain,store,types}.go.
  Core-only (linked into the driver executable).

  A statement-by-statement port of the seven `run*` handlers *as they are*, including:
  * `ctx.State.Version()` (= height-1, `Env.version`) is what create / purchase / send / renew
    compare with `ExpireHeight`, while sale uses `ctx.Header.Height` (`Env.height`);
  * `DomainStore.IterateSubDomain` goes through `storage.State.IterateRangeAll` (/repo 487c936),
    which visits every key of the range that `Get` would find: committed keys and keys written
    earlier in the same block or transaction, minus pending deletes.  All four sub-name loops of
    action/ons (update-deactivate, renew, purchase's and deleteSub's DeleteAllSubdomains) go
    through it, and nothing else in the handlers iterates, so the iteration is over the registry a
    reader sees (`St.recs`), filtered by the key prefix (`visSub`); block boundaries (`Ev.commit`)
    do not matter to the registry (`State.IterateRange`, committed keys only, is not used here);
  * `ResetAfterSale` stamps `LastUpdateHeight` with the *version*, the other handlers with the
    header height; the parent's `SetLastUpdatedHeight` in deleteSub is never stored;
  * the block count a payment buys goes through `blocksFor` (action/ons/create.go): the quotient
    is refused ("Buying price too high") unless it and `from + quotient` fit an int64 and
    `from ≥ 0`, so the int64 additions that follow cannot wrap and are plain integer additions;
  * a zero per-block fee divides by zero (Go panic) = `Err.crash`;
  * DeliverTx calls `handler.Validate` before `ProcessDeliver` (app/controller.go txDeliverer):
    `validate` ports its state-independent checks (signer field = address of the signing key,
    signature verifies, fee price ≥ minimum, name well-formed, payment in the chain currency,
    amount validity); a rejected transaction runs neither the handler nor the fee step.
    Balances are per (address, currency): DOMAIN_SEND may pay in any registered currency.
  The fee step (`action.BasicFeeHandling`) charges `Fee.Price * usedGas` to the first signer;
  gas metering itself is layer K, so the used gas / fee-step failure class is an input (`FeeObs`).
-/
import OLP.Base.Assoc

namespace OLP.Ons
open OLP

abbrev Addr := String          -- lower-case hex of the address bytes; "" = empty / nil address
abbrev Name := List String     -- labels, e.g. ["sub","foo","ol"] for "sub.foo.ol"
abbrev Cur := String           -- currency name
abbrev Acct := Addr × Cur      -- a balance record `b_<addr>_<currency>`

/-- data/ons/domain.go `Domain` (the name is the key) -/
structure Domain where
  owner : Addr
  benef : Addr
  creation : Int
  lastUpdate : Int
  expire : Int
  active : Bool
  onSale : Bool
  salePrice : Option Int
  uri : String
deriving DecidableEq, Repr, Inhabited

/-- data/ons/genesis.go `Options` (the part the handlers read) -/
structure Opts where
  base : Int
  perBlock : Int
  tlds : List String
deriving DecidableEq, Repr

/-- what `BasicFeeHandling` was observed to do with the gas meter -/
inductive FeeObs
  | used (gas : Int)     -- gas consumed by the transaction (≤ Fee.Gas)
  | gasOverflow          -- used > Fee.Gas
  | noFunds              -- the charge could not be debited
deriving DecidableEq, Repr

structure Env where
  height : Int           -- ctx.Header.Height
  version : Int          -- ctx.State.Version()
  opts : Opts            -- ctx.GovernanceStore.GetONSOptions()
  feePrice : Int         -- signedTx.Fee.Price (OLT)
  fee : FeeObs
  payer : Addr           -- address of signedTx.Signatures[0].Signer (the key that signed)
  sigValid : Bool        -- that key's signature verifies over the raw transaction (crypto is a parameter)
  minFee : Int           -- fees.FeeOption.MinFee()
  olt : Cur              -- name of currency id 0 (= the fee currency)
  currencies : List Cur  -- registered currencies
deriving Repr

structure St where
  recs : List (Name × Domain)   -- what a reader of the deliver state sees under `d_`
  bals : List (Acct × Int)      -- balances `b_<addr>_<currency>`
  pool : Int                    -- fee pool `f_00000000000000000000`
deriving Repr

def St.empty : St := ⟨[], [], 0⟩

inductive Tx
  | create (owner benef : Addr) (name : Name) (uri : String) (uriOk : Bool) (price : Int) (cur : Cur)
  | update (owner benef : Addr) (name : Name) (active : Bool) (uri : String) (uriOk : Bool)
  | sale (owner : Addr) (name : Name) (price : Int) (cur : Cur) (cancel : Bool)
  | purchase (buyer account : Addr) (name : Name) (offering : Int) (cur : Cur)
  | send (sender : Addr) (name : Name) (amount : Int) (cur : Cur)
  | renew (owner : Addr) (name : Name) (price : Int) (cur : Cur)
  | deleteSub (owner : Addr) (name : Name)
deriving DecidableEq, Repr

/-- `Signers()` of the message -/
def Tx.signer : Tx → Addr
  | .create o .. => o
  | .update o .. => o
  | .sale o .. => o
  | .purchase b .. => b
  | .send f .. => f
  | .renew o .. => o
  | .deleteSub o _ => o

def Tx.name : Tx → Name
  | .create _ _ n .. => n
  | .update _ _ n .. => n
  | .sale _ n .. => n
  | .purchase _ _ n .. => n
  | .send _ n .. => n
  | .renew _ n .. => n
  | .deleteSub _ n => n

/-- the currency of the payment a kind carries for the name itself (send is a plain transfer) -/
def Tx.payCur : Tx → Option Cur
  | .create _ _ _ _ _ _ c => some c
  | .sale _ _ _ c _ => some c
  | .purchase _ _ _ _ c => some c
  | .renew _ _ _ c => some c
  | _ => none

inductive Err
  | priceTooLow      -- create: price ≤ base; sale / renew: price ≤ perBlock; expired purchase: offering < base
  | priceTooHigh     -- blocksFor: the bought block count (added to the height it extends) leaves int64
  | exists_          -- create: ErrDomainExists
  | debit            -- MinusFromAddress failed (handler)
  | badName          -- create: verifyDomainName
  | badUri
  | noParent         -- create / deleteSub: parent record absent
  | parentNotOwned   -- create
  | notFound
  | notChangeable    -- IsChangeable(header height) false
  | notOwner
  | isSub            -- sale / renew / purchase of a sub-domain
  | expired
  | notForSale       -- purchase: neither on sale nor expired
  | offerTooLow      -- purchase: sale price > offering
  | invalidAmount    -- send / sale: negative amount
  | inactive         -- send
  | noBeneficiary    -- send
  | vSigner          -- Validate: signer field ≠ address of the signing key (ErrUnmatchSigner)
  | vSignature       -- Validate: signature does not verify
  | vFee             -- Validate: fee price below the minimum
  | vMissing         -- Validate: empty name (ErrMissingData)
  | vBadName         -- Validate: ErrInvalidDomain (ill-formed name; sub-name for sale / renew)
  | vBadAmount       -- Validate: ErrInvalidAmount (not the chain currency; unregistered currency or negative amount)
  | feeGas           -- fee step: gas overflow
  | feeDebit         -- fee step: charge not covered
  | crash            -- Go panic (division by zero, nil sale price)
deriving DecidableEq, Repr

inductive Res
  | ok
  | fail (e : Err)
deriving DecidableEq, Repr

/-! ## integers -/

def maxInt64 : Int := 9223372036854775807
def minInt64 : Int := -9223372036854775808

/-- action/ons/create.go `blocksFor amount pricePerBlock from` (callers have excluded a zero price):
    `none` is the refusal "Buying price too high" -/
def blocksFor (amount perBlock «from» : Int) : Option Int :=
  let q := amount / perBlock
  if q < minInt64 ∨ maxInt64 < q ∨ «from» < 0 ∨ maxInt64 - «from» < q then none else some q

/-! ## names (data/ons/types.go) -/

def labelOk (s : String) : Bool := !s.toList.isEmpty && s.toList.all Char.isAlphanum

def tldOk (s : String) : Bool := s.toList.all Char.isAlpha && 2 ≤ s.toList.length && s.toList.length ≤ 11

/-- byte length of the dotted form -/
def nameLen (n : Name) : Nat := (n.map (fun s => s.toList.length)).sum + (n.length - 1)

/-- `Name.IsValid`: at most 256 bytes and `^([a-zA-Z0-9]+\.)*[a-zA-Z0-9]+\.[a-zA-Z]{2,11}?$` -/
def validName (n : Name) : Bool :=
  2 ≤ n.length && nameLen n ≤ 256 && n.all labelOk && (match n.getLast? with | some t => tldOk t | none => false)

/-- `Name.IsSub`: `^([a-zA-Z0-9]+\.)+[a-zA-Z0-9]+\.[a-zA-Z]{2,11}?$` (no length limit) -/
def isSub (n : Name) : Bool :=
  3 ≤ n.length && n.all labelOk && (match n.getLast? with | some t => tldOk t | none => false)

/-- `Name.GetParentName`: the last two labels -/
def parentOf (n : Name) : Name := n.drop (n.length - 2)

/-- the key of `n` starts with the iteration prefix of `root`: `n` ends in "." ++ `root` -/
def isSubOf (n root : Name) : Bool := root.length < n.length && n.drop (n.length - root.length) == root

/-- `Options.IsNameAllowed` -/
def nameAllowed (o : Opts) (n : Name) : Bool :=
  match n.getLast? with
  | some t => o.tlds.contains t
  | none => false

/-! ## registry primitives -/

/-- the filter of `DomainStore.IterateSubDomain root`: every visible name under the key prefix of `root` -/
def visSub (root : Name) (n : Name) : Bool := isSubOf n root

/-- iterate-and-`Set`: apply `f` to every record selected by `p` -/
def mapSel (p : Name → Bool) (f : Domain → Domain) : List (Name × Domain) → List (Name × Domain)
  | [] => []
  | (n, d) :: t => (if p n then (n, f d) else (n, d)) :: mapSel p f t

/-- iterate-and-`Delete` -/
def eraseSel (p : Name → Bool) : List (Name × Domain) → List (Name × Domain)
  | [] => []
  | (n, d) :: t => if p n then eraseSel p t else (n, d) :: eraseSel p t

/-! ## balances -/

def bal (b : List (Acct × Int)) (a : Acct) : Int := (alookup a b).getD 0

/-- balance.Store.MinusFromAddress / Coin.Minus: refuses a negative result -/
def debit (b : List (Acct × Int)) (a : Acct) (x : Int) : Option (List (Acct × Int)) :=
  if bal b a - x < 0 then none else some (upsert b a (bal b a - x))

def credit (b : List (Acct × Int)) (a : Acct) (x : Int) : List (Acct × Int) := upsert b a (bal b a + x)

/-! ## domain.go helpers -/

/-- `Domain.IsChangeable` with HEIGHT_INTERVAL = 1 -/
def changeable (d : Domain) (h : Int) : Bool := decide (d.lastUpdate + 1 ≤ h)

/-- `Domain.IsExpired` -/
def expiredAt (d : Domain) (h : Int) : Bool := decide (d.expire < h)

/-- `Domain.IsActive` -/
def activeAt (d : Domain) (h : Int) : Bool := d.active && decide (h < d.expire)

/-- what a payment buys: `(payment − base) / perBlock` blocks -/
def blocksBought (payment base perBlock : Int) : Int := (payment - base) / perBlock

/-! ## the handlers -/

/-- action/ons/create.go runCreate -/
def runCreate (env : Env) (s : St) (owner benef : Addr) (name : Name) (uri : String) (uriOk : Bool)
    (price : Int) (cur : Cur) : Except Err St :=
  if price ≤ env.opts.base then .error .priceTooLow else
  if (alookup name s.recs).isSome then .error .exists_ else
  match debit s.bals (owner, cur) price with
  | none => .error .debit
  | some b1 =>
    if !(nameAllowed env.opts name && validName name) then .error .badName else
    if !uri.isEmpty && !uriOk then .error .badUri else
    let mk (expiry : Int) : Except Err St :=
      let d : Domain := { owner := owner, benef := if benef.isEmpty then owner else benef,
                          creation := env.height, lastUpdate := env.height, expire := expiry,
                          active := true, onSale := false, salePrice := none, uri := uri }
      .ok { s with recs := upsert s.recs name d, bals := b1, pool := s.pool + price }
    if isSub name then
      match alookup (parentOf name) s.recs with
      | none => .error .noParent
      | some p =>
        if p.owner ≠ owner then .error .parentNotOwned else
        if price < env.opts.base then .error .priceTooLow else
        mk p.expire
    else
      if price < env.opts.base then .error .priceTooLow else
      if env.opts.perBlock = 0 then .error .crash else
      match blocksFor (price - env.opts.base) env.opts.perBlock env.version with
      | none => .error .priceTooHigh
      | some q => mk (env.version + q)

/-- action/ons/update.go runUpdate -/
def runUpdate (env : Env) (s : St) (owner benef : Addr) (name : Name) (active : Bool) (uri : String)
    (uriOk : Bool) : Except Err St :=
  match alookup name s.recs with
  | none => .error .notFound
  | some d =>
    if !changeable d env.height then .error .notChangeable else
    if d.owner ≠ owner then .error .notOwner else
    if !uri.isEmpty && !uriOk then .error .badUri else
    let d' : Domain := { d with benef := benef, active := active, lastUpdate := env.height, uri := uri }
    let recs1 := if !active && !isSub name then
        mapSel (visSub name) (fun x => { x with active := false }) s.recs else s.recs
    .ok { s with recs := upsert recs1 name d' }

/-- action/ons/sale.go runDomainSale -/
def runSale (env : Env) (s : St) (owner : Addr) (name : Name) (price : Int) (cur : Cur) (cancel : Bool) :
    Except Err St :=
  if price ≤ env.opts.perBlock then .error .priceTooLow else
  if price < 0 || !env.currencies.contains cur then .error .invalidAmount else
  if isSub name then .error .isSub else
  match alookup name s.recs with
  | none => .error .notFound
  | some d =>
    if d.owner ≠ owner then .error .notOwner else
    if !changeable d env.height then .error .notChangeable else
    if expiredAt d env.height then .error .expired else
    let d' : Domain := if cancel then { d with onSale := false, salePrice := none, lastUpdate := env.height }
      else { d with active := false, onSale := true, salePrice := some price, lastUpdate := env.height }
    .ok { s with recs := upsert s.recs name d' }

/-- `Domain.ResetAfterSale` -/
def resetAfterSale (d : Domain) (buyer account : Addr) (nBlocks cur : Int) : Domain :=
  { d with benef := account, expire := (if cur < d.expire then d.expire else cur) + nBlocks,
           owner := buyer, salePrice := none, lastUpdate := cur, active := true, uri := "", onSale := false }

/-- action/ons/purchase.go runPurchaseDomain -/
def runPurchase (env : Env) (s : St) (buyer account : Addr) (name : Name) (offering : Int) (cur : Cur) :
    Except Err St :=
  match alookup name s.recs with
  | none => .error .notFound
  | some d =>
    if !d.onSale && decide (env.version ≤ d.expire) then .error .notForSale else
    if isSub name then .error .isSub else
    let finish (b1 : List (Acct × Int)) (remain extend : Int) : Except Err St :=
      match debit b1 (buyer, cur) remain with
      | none => .error .debit
      | some b2 =>
        let d' := resetAfterSale d buyer account extend env.version
        .ok { s with recs := upsert (eraseSel (visSub name) s.recs) name d',
                     bals := b2, pool := s.pool + remain }
    if decide (env.version ≤ d.expire) && d.onSale then
      match d.salePrice with
      | none => .error .crash
      | some sale =>
        if !decide (sale ≤ offering) then .error .offerTooLow else
        match debit s.bals (buyer, cur) sale with
        | none => .error .debit
        | some b0 =>
          let b1 := credit b0 (d.owner, cur) sale
          if env.opts.perBlock = 0 then .error .crash else
          match blocksFor (offering - sale) env.opts.perBlock d.expire with
          | none => .error .priceTooHigh
          | some q => finish b1 (offering - sale) q
    else
      if offering < env.opts.base then .error .priceTooLow else
      if env.opts.perBlock = 0 then .error .crash else
      match blocksFor (offering - env.opts.base) env.opts.perBlock env.version with
      | none => .error .priceTooHigh
      | some q => finish s.bals offering q

/-- action/ons/send.go runDomainSend -/
def runSend (env : Env) (s : St) (sender : Addr) (name : Name) (amount : Int) (cur : Cur) : Except Err St :=
  if amount < 0 || !env.currencies.contains cur then .error .invalidAmount else
  match alookup name s.recs with
  | none => .error .notFound
  | some d =>
    if !changeable d env.height then .error .notChangeable else
    if expiredAt d env.version then .error .expired else
    if !activeAt d env.version then .error .inactive else
    if d.benef.isEmpty then .error .noBeneficiary else
    match debit s.bals (sender, cur) amount with
    | none => .error .debit
    | some b1 => .ok { s with bals := credit b1 (d.benef, cur) amount }

/-- action/ons/renew.go runRenew -/
def runRenew (env : Env) (s : St) (owner : Addr) (name : Name) (price : Int) (cur : Cur) : Except Err St :=
  if price ≤ env.opts.perBlock then .error .priceTooLow else
  if isSub name then .error .isSub else
  match alookup name s.recs with
  | none => .error .notFound
  | some d =>
    if !changeable d env.height then .error .notChangeable else
    if expiredAt d env.version then .error .expired else
    if d.owner ≠ owner then .error .notOwner else
    match debit s.bals (owner, cur) price with
    | none => .error .debit
    | some b1 =>
      if price < env.opts.perBlock then .error .priceTooLow else
      if env.opts.perBlock = 0 then .error .crash else
      match blocksFor price env.opts.perBlock d.expire with
      | none => .error .priceTooHigh
      | some q =>
        let e' := d.expire + q
        let d' : Domain := { d with expire := e', lastUpdate := env.height }
        .ok { s with recs := mapSel (visSub name) (fun x => { x with expire := e' }) (upsert s.recs name d'),
                     bals := b1, pool := s.pool + price }

/-- action/ons/deleteSub.go runDeleteSub -/
def runDeleteSub (env : Env) (s : St) (owner : Addr) (name : Name) : Except Err St :=
  let parentName := if isSub name then parentOf name else name
  match alookup parentName s.recs with
  | none => .error .noParent
  | some p =>
    if !changeable p env.height then .error .notChangeable else
    if p.owner ≠ owner then .error .notOwner else
    if isSub name then
      match alookup name s.recs with
      | none => .error .notFound
      | some _ => .ok { s with recs := aerase s.recs name }
    else
      .ok { s with recs := eraseSel (visSub name) s.recs }

def handler (env : Env) (s : St) : Tx → Except Err St
  | .create o b n u uo p c => runCreate env s o b n u uo p c
  | .update o b n a u uo => runUpdate env s o b n a u uo
  | .sale o n p cu c => runSale env s o n p cu c
  | .purchase b a n o c => runPurchase env s b a n o c
  | .send f n a c => runSend env s f n a c
  | .renew o n p c => runRenew env s o n p c
  | .deleteSub o n => runDeleteSub env s o n

/-- `Amount.IsValid`: registered currency and a non-negative value -/
def amountValid (env : Env) (x : Int) (cur : Cur) : Bool := env.currencies.contains cur && decide (0 ≤ x)

/-- the kind-specific part of `Validate` (action/ons/*.go), in the order of the Go code -/
def validateKind (env : Env) : Tx → Except Err Unit
  | .create _ _ n _ _ _ cur =>
    if n = [""] then .error .vMissing else
    if !validName n then .error .vBadName else
    if cur ≠ env.olt then .error .vBadAmount else .ok ()
  | .update _ _ n _ _ _ =>
    if n = [""] then .error .vMissing else
    if !validName n then .error .vBadName else .ok ()
  | .sale _ n p cur _ =>
    if !amountValid env p cur then .error .vBadAmount else
    if n = [""] then .error .vMissing else
    if !validName n || isSub n then .error .vBadName else
    if cur ≠ env.olt then .error .vBadAmount else .ok ()
  | .purchase _ _ n _ cur =>
    if cur ≠ env.olt then .error .vBadAmount else
    if n = [""] then .error .vMissing else
    if !validName n then .error .vBadName else .ok ()
  | .send _ n a cur =>
    if !amountValid env a cur then .error .vBadAmount else
    if n = [""] then .error .vMissing else .ok ()
  | .renew _ n _ cur =>
    if n = [""] then .error .vMissing else
    if !validName n || isSub n then .error .vBadName else
    if cur ≠ env.olt then .error .vBadAmount else .ok ()
  | .deleteSub _ n =>
    if n = [""] then .error .vMissing else
    if !validName n then .error .vBadName else .ok ()

/-- `Validate`: action.ValidateBasic (one signer: the signer field must be the address of the key
    that signed, and the signature must verify), action.ValidateFee, then the kind's own checks -/
def validate (env : Env) (tx : Tx) : Except Err Unit :=
  if env.payer ≠ tx.signer then .error .vSigner else
  if !env.sigValid then .error .vSignature else
  if env.feePrice < env.minFee then .error .vFee else
  validateKind env tx

/-- action/base.go BasicFeeHandling (gas metering observed, see `FeeObs`) -/
def feeStep (env : Env) (s : St) : Except Err St :=
  match env.fee with
  | .gasOverflow => .error .feeGas
  | .noFunds => .error .feeDebit
  | .used g =>
    match debit s.bals (env.payer, env.olt) (env.feePrice * g) with
    | none => .error .feeDebit
    | some b1 => .ok { s with bals := b1, pool := s.pool + env.feePrice * g }

/-- one DeliverTx: Validate, handler, fee step; any failure discards the session
    (app/controller.go txDeliverer) -/
def step (env : Env) (s : St) (tx : Tx) : Res × St :=
  match validate env tx with
  | .error e => (.fail e, s)
  | .ok _ =>
    match handler env s tx with
    | .error e => (.fail e, s)
    | .ok s1 =>
      match feeStep env s1 with
      | .error e => (.fail e, s)
      | .ok s2 => (.ok, s2)

/-! ## histories -/

inductive Ev
  | tx (env : Env) (t : Tx)
  | commit                      -- end of block: the block overlay is written into the tree

/-- Commit writes the overlay into the tree; what a reader (and a sub-name iteration) sees is unchanged -/
def St.commit (s : St) : St := s

def applyEv (s : St) : Ev → St
  | .tx env t => (step env s t).2
  | .commit => s.commit

def run (s : St) (evs : List Ev) : St := evs.foldl applyEv s

/-! ## specification vocabulary (used by the statements in OLP/Props/C20.lean) -/

/-- the name whose owner has authority over `n`: `n` itself, or the parent of a sub-name -/
def rootOf (n : Name) : Name := if 3 ≤ n.length then parentOf n else n

/-- registry invariant: stored names are valid, and a sub-name carries its parent's owner and
    expiry height (one owner per name, a sub-name expires with its parent) -/
def RegInv (s : St) : Prop :=
  ∀ n d, alookup n s.recs = some d →
    validName n = true ∧
    (3 ≤ n.length → ∃ p, alookup (parentOf n) s.recs = some p ∧ p.owner = d.owner ∧ p.expire = d.expire)

def recOk (recs : List (Name × Domain)) (p : Name × Domain) : Bool :=
  validName p.1 && (decide (p.1.length < 3) ||
    match alookup (parentOf p.1) recs with
    | some q => q.owner == p.2.owner && q.expire == p.2.expire
    | none => false)

/-- executable form of `RegInv` -/
def invB (s : St) : Bool := s.recs.all (recOk s.recs)

/-- why a successful transaction `tx` was entitled to change (create, modify, delete) record `n` -/
inductive Auth (env : Env) (s : St) (tx : Tx) (n : Name) : Prop
  /-- signed by the recorded owner of the record itself -/
  | ownRecord (d : Domain) : alookup n s.recs = some d → d.owner = tx.signer → Auth env s tx n
  /-- signed by the recorded owner of a name `r` that `n` is a sub-name of -/
  | ownerAbove (r : Name) (p : Domain) : isSubOf n r = true → alookup r s.recs = some p →
      p.owner = tx.signer → Auth env s tx n
  /-- first registration of an absent, non-sub name; the signer becomes the owner -/
  | registration (b : Addr) (u : String) (uo : Bool) (p : Int) (c : Cur) : alookup n s.recs = none →
      isSub n = false → tx = .create tx.signer b n u uo p c → Auth env s tx n
  /-- purchase of the name (or of the name `n` is a sub-name of) that is on sale or expired -/
  | purchase (b a : Addr) (r : Name) (o : Int) (c : Cur) (d : Domain) : tx = .purchase b a r o c →
      (r = n ∨ isSubOf n r = true) → isSub r = false → alookup r s.recs = some d →
      (d.onSale = true ∨ d.expire < env.version) → Auth env s tx n

end OLP.Ons

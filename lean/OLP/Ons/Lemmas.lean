/-
  Helper lemmas for the ONS model (OLP/Ons/Model.lean).  Property statements live in
  OLP/Props/C20.lean only.
-/
import OLP.Ons.Model

namespace OLP.Ons
open OLP

/-! ## registry primitives -/

theorem alookup_mapSel (p : Name → Bool) (f : Domain → Domain) (l : List (Name × Domain)) (k : Name) :
    alookup k (mapSel p f l) = (alookup k l).map (fun d => if p k then f d else d) := by
  induction l with
  | nil => rfl
  | cons hd t ih =>
    obtain ⟨n, d⟩ := hd
    by_cases hk : n = k
    · subst hk
      by_cases hp : p n <;> simp [mapSel, alookup, hp]
    · by_cases hp : p n <;> simp [mapSel, alookup, hp, hk, ih]

theorem alookup_eraseSel (p : Name → Bool) (l : List (Name × Domain)) (k : Name) :
    alookup k (eraseSel p l) = if p k then none else alookup k l := by
  induction l with
  | nil => simp [eraseSel]
  | cons hd t ih =>
    obtain ⟨n, d⟩ := hd
    by_cases hp : p n
    · by_cases hk : n = k
      · subst hk; simp [eraseSel, hp, ih]
      · simp [eraseSel, hp, ih, alookup, hk]
    · by_cases hk : n = k
      · subst hk; simp [eraseSel, hp, alookup]
      · simp [eraseSel, hp, ih, alookup, hk]

theorem akeys_mapSel (p : Name → Bool) (f : Domain → Domain) (l : List (Name × Domain)) :
    akeys (mapSel p f l) = akeys l := by
  induction l with
  | nil => rfl
  | cons hd t ih =>
    obtain ⟨n, d⟩ := hd
    have ih' : List.map (fun x => x.1) (mapSel p f t) = List.map (fun x => x.1) t := ih
    by_cases hp : p n <;> simp [mapSel, akeys, hp, ih']

theorem akeys_eraseSel (p : Name → Bool) (l : List (Name × Domain)) :
    akeys (eraseSel p l) = (akeys l).filter (fun n => !p n) := by
  induction l with
  | nil => rfl
  | cons hd t ih =>
    obtain ⟨n, d⟩ := hd
    have ih' : List.map (fun x => x.1) (eraseSel p t) = List.filter (fun n => !p n) (List.map (fun x => x.1) t) := ih
    by_cases hp : p n <;> simp [eraseSel, akeys, hp, ih']

theorem akeys_aerase (l : List (Name × Domain)) (k : Name) :
    akeys (aerase l k) = (akeys l).filter (fun n => !decide (n = k)) := by
  induction l with
  | nil => rfl
  | cons hd t ih =>
    obtain ⟨n, d⟩ := hd
    have ih' : List.map (fun x => x.1) (aerase t k) = List.filter (fun n => !decide (n = k)) (List.map (fun x => x.1) t) := ih
    by_cases hk : n = k <;> simp [aerase, akeys, hk, ih']

theorem alookup_some_mem {V : Type} (l : List (Name × V)) (k : Name) (v : V) (h : alookup k l = some v) : (k, v) ∈ l := by
  induction l with
  | nil => simp at h
  | cons hd t ih =>
    obtain ⟨n, d⟩ := hd
    by_cases hk : n = k
    · subst hk
      simp [alookup] at h
      subst h
      simp
    · simp [alookup, hk] at h
      exact List.mem_cons_of_mem _ (ih h)

/-! ## integers -/

/-- a block count accepted by `blocksFor` is the exact quotient, and adding it to `from` stays an int64 -/
theorem blocksFor_some {a pb f q : Int} (h : blocksFor a pb f = some q) :
    q = a / pb ∧ 0 ≤ f ∧ f + q ≤ maxInt64 ∧ minInt64 ≤ f + q := by
  unfold blocksFor at h
  simp only [] at h
  split at h
  · cases h
  · rename_i hn
    cases h
    simp only [maxInt64, minInt64, not_or, Int.not_lt] at hn ⊢
    refine ⟨trivial, ?_, ?_, ?_⟩ <;> omega

theorem blocksFor_none {a pb f : Int} (h : blocksFor a pb f = none) :
    a / pb < minInt64 ∨ maxInt64 < a / pb ∨ f < 0 ∨ maxInt64 < f + a / pb := by
  unfold blocksFor at h
  simp only [] at h
  split at h
  · rename_i hn
    simp only [maxInt64, minInt64] at *
    omega
  · cases h

/-! ## names -/

theorem validName_length {n : Name} (h : validName n = true) : 2 ≤ n.length := by
  simp [validName] at h
  exact h.1.1.1

theorem isSub_length {n : Name} (h : isSub n = true) : 3 ≤ n.length := by
  simp [isSub] at h
  exact h.1.1

theorem isSub_of_valid {n : Name} (h : validName n = true) (h3 : 3 ≤ n.length) : isSub n = true := by
  simp [validName] at h
  simp [isSub, h3, h.2]
  exact h.1.2

theorem length_two_of_valid_not_sub {n : Name} (h : validName n = true) (hs : isSub n = false) : n.length = 2 := by
  have h2 := validName_length h
  by_cases h3 : 3 ≤ n.length
  · rw [isSub_of_valid h h3] at hs; cases hs
  · omega

theorem parentOf_length {n : Name} (h : 2 ≤ n.length) : (parentOf n).length = 2 := by
  simp [parentOf]
  omega

theorem isSubOf_parent {n : Name} (h : 3 ≤ n.length) : isSubOf n (parentOf n) = true := by
  have hl : (parentOf n).length = 2 := parentOf_length (by omega)
  simp only [isSubOf, hl, Bool.and_eq_true, decide_eq_true_eq, beq_iff_eq]
  exact ⟨by omega, rfl⟩

theorem isSubOf_length {n r : Name} (h : isSubOf n r = true) : r.length < n.length := by
  simp [isSubOf] at h
  exact h.1

theorem isSubOf_drop {n r : Name} (h : isSubOf n r = true) : n.drop (n.length - r.length) = r := by
  simp [isSubOf] at h
  exact h.2

theorem parentOf_of_isSubOf {n r : Name} (h : isSubOf n r = true) (h2 : 2 ≤ r.length) : parentOf n = parentOf r := by
  have hl := isSubOf_length h
  have hd := isSubOf_drop h
  unfold parentOf
  rw [← hd, List.drop_drop, List.length_drop]
  congr 1
  omega

theorem parentOf_eq_of_isSubOf {n r : Name} (h : isSubOf n r = true) (h2 : r.length = 2) : parentOf n = r := by
  have hd := isSubOf_drop h
  unfold parentOf
  rw [← h2]
  exact hd

theorem isSubOf_irrefl (n : Name) : isSubOf n n = false := by
  simp [isSubOf]

theorem parentOf_ne_of_length {k n : Name} (hk : 2 ≤ k.length) (hn : 3 ≤ n.length) : parentOf k ≠ n := by
  intro e
  have := parentOf_length hk
  rw [e] at this
  omega

/-! ## balances -/

theorem bal_upsert (b : List (Acct × Int)) (a x : Acct) (v : Int) :
    bal (upsert b a v) x = if x = a then v else bal b x := by
  unfold bal
  rw [alookup_upsert]
  by_cases h : x = a <;> simp [h]

theorem bal_debit {b b1 : List (Acct × Int)} {a : Acct} {x : Int} (h : debit b a x = some b1) (y : Acct) :
    bal b1 y = bal b y - (if y = a then x else 0) ∧ x ≤ bal b a := by
  unfold debit at h
  split at h
  · cases h
  · cases h
    rw [bal_upsert]
    by_cases hy : y = a
    · subst hy; simp; omega
    · simp [hy]; omega

theorem bal_credit (b : List (Acct × Int)) (a : Acct) (x : Int) (y : Acct) :
    bal (credit b a x) y = bal b y + (if y = a then x else 0) := by
  unfold credit
  rw [bal_upsert]
  by_cases hy : y = a
  · subst hy; simp
  · simp [hy]

/-! ## what a successful handler did (one lemma per `run*`) -/

theorem runCreate_ok {env : Env} {s s' : St} {o b : Addr} {n : Name} {u : String} {uo : Bool} {p : Int} {c : Cur}
    (h : runCreate env s o b n u uo p c = .ok s') :
    env.opts.base < p ∧ alookup n s.recs = none ∧ validName n = true ∧ nameAllowed env.opts n = true ∧
    debit s.bals (o, c) p = some s'.bals ∧ s'.pool = s.pool + p ∧
    ∃ d, s'.recs = upsert s.recs n d ∧ d.owner = o ∧ d.onSale = false ∧ d.creation = env.height ∧
      (if isSub n = true then ∃ par, alookup (parentOf n) s.recs = some par ∧ par.owner = o ∧ d.expire = par.expire
       else env.opts.perBlock ≠ 0 ∧ ∃ q, blocksFor (p - env.opts.base) env.opts.perBlock env.version = some q ∧
              d.expire = env.version + q) := by
  unfold runCreate at h
  split at h
  · cases h
  rename_i hp
  split at h
  · cases h
  rename_i hex
  split at h
  · cases h
  rename_i b1 hb
  split at h
  · cases h
  rename_i hname
  split at h
  · cases h
  rename_i huri
  simp only [] at h
  have hex' : alookup n s.recs = none := by
    cases hh : alookup n s.recs with
    | none => rfl
    | some v => simp [hh] at hex
  have hname' : nameAllowed env.opts n = true ∧ validName n = true := by
    simpa using hname
  split at h
  · rename_i hsub
    split at h
    · cases h
    rename_i par hpar
    split at h
    · cases h
    rename_i hown
    split at h
    · cases h
    cases h
    refine ⟨by omega, hex', hname'.2, hname'.1, hb, rfl, _, rfl, rfl, rfl, rfl, ?_⟩
    simp only [hsub, if_true]
    exact ⟨par, hpar, by simpa using hown, rfl⟩
  · rename_i hsub
    split at h
    · cases h
    split at h
    · cases h
    rename_i hpb
    split at h
    · cases h
    rename_i q hq
    cases h
    refine ⟨by omega, hex', hname'.2, hname'.1, hb, rfl, _, rfl, rfl, rfl, rfl, ?_⟩
    simp only [hsub, Bool.false_eq_true, if_false]
    exact ⟨hpb, q, hq, rfl⟩

theorem runCreate_offSale {env : Env} {s s' : St} {o b : Addr} {n : Name} {u : String} {uo : Bool} {p : Int} {c : Cur}
    (h : runCreate env s o b n u uo p c = .ok s') :
    ∃ d, s'.recs = upsert s.recs n d ∧ d.onSale = false ∧ d.salePrice = none := by
  unfold runCreate at h
  split at h
  · cases h
  rename_i hp
  split at h
  · cases h
  rename_i hex
  split at h
  · cases h
  rename_i b1 hb
  split at h
  · cases h
  rename_i hname
  split at h
  · cases h
  rename_i huri
  simp only [] at h
  have hex' : alookup n s.recs = none := by
    cases hh : alookup n s.recs with
    | none => rfl
    | some v => simp [hh] at hex
  have hname' : nameAllowed env.opts n = true ∧ validName n = true := by
    simpa using hname
  split at h
  · rename_i hsub
    split at h
    · cases h
    rename_i par hpar
    split at h
    · cases h
    rename_i hown
    split at h
    · cases h
    cases h
    exact ⟨_, rfl, rfl, rfl⟩
  · rename_i hsub
    split at h
    · cases h
    split at h
    · cases h
    rename_i hpb
    split at h
    · cases h
    cases h
    exact ⟨_, rfl, rfl, rfl⟩

theorem runUpdate_ok {env : Env} {s s' : St} {o b : Addr} {n : Name} {a : Bool} {u : String} {uo : Bool}
    (h : runUpdate env s o b n a u uo = .ok s') :
    ∃ d, alookup n s.recs = some d ∧ d.owner = o ∧ changeable d env.height = true ∧
      s'.bals = s.bals ∧ s'.pool = s.pool ∧
      s'.recs = upsert (if (!a && !isSub n) = true then
          mapSel (visSub n) (fun x => { x with active := false }) s.recs else s.recs) n
        { d with benef := b, active := a, lastUpdate := env.height, uri := u } := by
  unfold runUpdate at h
  split at h
  · cases h
  rename_i d hd
  split at h
  · cases h
  rename_i hch
  split at h
  · cases h
  rename_i hown
  split at h
  · cases h
  cases h
  exact ⟨d, hd, by simpa using hown, by simpa using hch, rfl, rfl, rfl⟩

theorem runSale_ok {env : Env} {s s' : St} {o : Addr} {n : Name} {p : Int} {cu : Cur} {c : Bool}
    (h : runSale env s o n p cu c = .ok s') :
    ∃ d, alookup n s.recs = some d ∧ d.owner = o ∧ isSub n = false ∧ env.opts.perBlock < p ∧
      expiredAt d env.height = false ∧ s'.bals = s.bals ∧ s'.pool = s.pool ∧
      ∃ d', s'.recs = upsert s.recs n d' ∧ d'.owner = d.owner ∧ d'.expire = d.expire ∧ d'.benef = d.benef ∧
        d'.creation = d.creation ∧
        (c = false → d'.onSale = true ∧ d'.salePrice = some p ∧ d'.active = false) ∧
        (c = true → d'.onSale = false ∧ d'.salePrice = none ∧ d'.active = d.active) := by
  unfold runSale at h
  split at h
  · cases h
  rename_i hp
  split at h
  · cases h
  split at h
  · cases h
  rename_i hsub
  split at h
  · cases h
  rename_i d hd
  split at h
  · cases h
  rename_i hown
  split at h
  · cases h
  split at h
  · cases h
  rename_i hexp
  cases h
  refine ⟨d, hd, by simpa using hown, by simpa using hsub, by omega, by simpa using hexp, rfl, rfl, _, rfl, ?_⟩
  cases c <;> simp

theorem runPurchase_ok {env : Env} {s s' : St} {buyer acct : Addr} {n : Name} {off : Int} {c : Cur}
    (h : runPurchase env s buyer acct n off c = .ok s') :
    ∃ d, alookup n s.recs = some d ∧ isSub n = false ∧ (d.onSale = true ∨ d.expire < env.version) ∧
      env.opts.perBlock ≠ 0 ∧
      ((env.version ≤ d.expire ∧ d.onSale = true ∧ ∃ sale b0 q, d.salePrice = some sale ∧ sale ≤ off ∧
          debit s.bals (buyer, c) sale = some b0 ∧
          debit (credit b0 (d.owner, c) sale) (buyer, c) (off - sale) = some s'.bals ∧ s'.pool = s.pool + (off - sale) ∧
          blocksFor (off - sale) env.opts.perBlock d.expire = some q ∧
          s'.recs = upsert (eraseSel (visSub n) s.recs) n (resetAfterSale d buyer acct q env.version))
       ∨ (¬(env.version ≤ d.expire ∧ d.onSale = true) ∧ env.opts.base ≤ off ∧ ∃ q,
          debit s.bals (buyer, c) off = some s'.bals ∧ s'.pool = s.pool + off ∧
          blocksFor (off - env.opts.base) env.opts.perBlock env.version = some q ∧
          s'.recs = upsert (eraseSel (visSub n) s.recs) n (resetAfterSale d buyer acct q env.version))) := by
  unfold runPurchase at h
  split at h
  · cases h
  rename_i d hd
  split at h
  · cases h
  rename_i hfs
  split at h
  · cases h
  rename_i hsub
  simp only [] at h
  have hfs' : d.onSale = true ∨ d.expire < env.version := by
    simp at hfs
    by_cases hs : d.onSale = true
    · exact Or.inl hs
    · right
      have := hfs (by simpa using hs)
      omega
  split at h
  · rename_i hbr
    simp at hbr
    split at h
    · cases h
    rename_i sale hsale
    split at h
    · cases h
    rename_i hoff
    split at h
    · cases h
    rename_i b0 hb0
    split at h
    · cases h
    rename_i hpb
    split at h
    · cases h
    rename_i q hq
    split at h
    · cases h
    rename_i b2 hb2
    cases h
    refine ⟨d, hd, by simpa using hsub, hfs', hpb, Or.inl ⟨hbr.1, hbr.2, sale, b0, q, hsale, by simpa using hoff, hb0, hb2, rfl, hq, rfl⟩⟩
  · rename_i hbr
    simp at hbr
    split at h
    · cases h
    rename_i hbase
    split at h
    · cases h
    rename_i hpb
    split at h
    · cases h
    rename_i q hq
    split at h
    · cases h
    rename_i b2 hb2
    cases h
    refine ⟨d, hd, by simpa using hsub, hfs', hpb, Or.inr ⟨?_, by omega, q, hb2, rfl, hq, rfl⟩⟩
    intro ⟨h1, h2⟩
    have := hbr h1
    simp [h2] at this

theorem runSend_ok {env : Env} {s s' : St} {f : Addr} {n : Name} {amt : Int} {c : Cur}
    (h : runSend env s f n amt c = .ok s') :
    ∃ d b1, alookup n s.recs = some d ∧ 0 ≤ amt ∧ d.benef.isEmpty = false ∧ activeAt d env.version = true ∧
      expiredAt d env.version = false ∧ debit s.bals (f, c) amt = some b1 ∧ s'.bals = credit b1 (d.benef, c) amt ∧
      s'.recs = s.recs ∧ s'.pool = s.pool := by
  unfold runSend at h
  split at h
  · cases h
  rename_i hamt
  split at h
  · cases h
  rename_i d hd
  split at h
  · cases h
  split at h
  · cases h
  rename_i hexp
  split at h
  · cases h
  rename_i hact
  split at h
  · cases h
  rename_i hben
  split at h
  · cases h
  rename_i b1 hb1
  cases h
  have hamt' : 0 ≤ amt := by
    simp only [Bool.or_eq_true, decide_eq_true_eq, not_or] at hamt
    omega
  exact ⟨d, b1, hd, hamt', by simpa using hben, by simpa using hact, by simpa using hexp, hb1, rfl, rfl, rfl⟩

theorem runRenew_ok {env : Env} {s s' : St} {o : Addr} {n : Name} {p : Int} {c : Cur}
    (h : runRenew env s o n p c = .ok s') :
    ∃ d, alookup n s.recs = some d ∧ d.owner = o ∧ isSub n = false ∧ env.opts.perBlock < p ∧
      env.opts.perBlock ≠ 0 ∧ expiredAt d env.version = false ∧
      debit s.bals (o, c) p = some s'.bals ∧ s'.pool = s.pool + p ∧
      ∃ q, blocksFor p env.opts.perBlock d.expire = some q ∧
      s'.recs = mapSel (visSub n) (fun x => { x with expire := d.expire + q })
          (upsert s.recs n { d with expire := d.expire + q, lastUpdate := env.height }) := by
  unfold runRenew at h
  split at h
  · cases h
  rename_i hp
  split at h
  · cases h
  rename_i hsub
  split at h
  · cases h
  rename_i d hd
  split at h
  · cases h
  split at h
  · cases h
  rename_i hexp
  split at h
  · cases h
  rename_i hown
  split at h
  · cases h
  rename_i b1 hb1
  split at h
  · cases h
  split at h
  · cases h
  rename_i hpb
  split at h
  · cases h
  rename_i q hq
  cases h
  exact ⟨d, hd, by simpa using hown, by simpa using hsub, by omega, hpb, by simpa using hexp, hb1, rfl, q, hq, rfl⟩

theorem runDeleteSub_ok {env : Env} {s s' : St} {o : Addr} {n : Name}
    (h : runDeleteSub env s o n = .ok s') :
    ∃ par, alookup (if isSub n = true then parentOf n else n) s.recs = some par ∧ par.owner = o ∧
      s'.bals = s.bals ∧ s'.pool = s.pool ∧
      (if isSub n = true then (alookup n s.recs).isSome = true ∧ s'.recs = aerase s.recs n
       else s'.recs = eraseSel (visSub n) s.recs) := by
  unfold runDeleteSub at h
  simp only [] at h
  split at h
  · cases h
  rename_i par hpar
  split at h
  · cases h
  split at h
  · cases h
  rename_i hown
  split at h
  · rename_i hsub
    split at h
    · cases h
    rename_i x hx
    cases h
    refine ⟨par, hpar, by simpa using hown, rfl, rfl, ?_⟩
    simp [hsub, hx]
  · rename_i hsub
    cases h
    refine ⟨par, hpar, by simpa using hown, rfl, rfl, ?_⟩
    simp [hsub]

theorem feeStep_ok {env : Env} {s s' : St} (h : feeStep env s = .ok s') :
    ∃ g, env.fee = .used g ∧ debit s.bals (env.payer, env.olt) (env.feePrice * g) = some s'.bals ∧
      s'.pool = s.pool + env.feePrice * g ∧ s'.recs = s.recs := by
  unfold feeStep at h
  split at h
  · cases h
  · cases h
  rename_i g hg
  split at h
  · cases h
  rename_i b1 hb1
  cases h
  exact ⟨g, hg, hb1, rfl, rfl⟩

theorem validate_ok {env : Env} {tx : Tx} (h : validate env tx = .ok ()) :
    env.payer = tx.signer ∧ env.sigValid = true ∧ env.minFee ≤ env.feePrice ∧ validateKind env tx = .ok () := by
  unfold validate at h
  split at h
  · cases h
  rename_i h1
  split at h
  · cases h
  rename_i h2
  split at h
  · cases h
  rename_i h3
  exact ⟨by simpa using h1, by simpa using h2, by omega, h⟩

theorem validateKind_ok {env : Env} {tx : Tx} (h : validateKind env tx = .ok ()) :
    (∀ c, tx.payCur = some c → c = env.olt) ∧ ((∀ f a c, tx ≠ .send f tx.name a c) → validName tx.name = true) := by
  cases tx with
  | create o b n u uo p c =>
    simp only [validateKind] at h
    split at h
    · cases h
    split at h
    · cases h
    rename_i hv
    split at h
    · cases h
    rename_i hc
    exact ⟨fun c' hc' => by simp [Tx.payCur] at hc'; subst hc'; simpa using hc, fun _ => by simpa [Tx.name] using hv⟩
  | update o b n a u uo =>
    simp only [validateKind] at h
    split at h
    · cases h
    split at h
    · cases h
    rename_i hv
    exact ⟨fun c' hc' => by simp [Tx.payCur] at hc', fun _ => by simpa [Tx.name] using hv⟩
  | sale o n p c ca =>
    simp only [validateKind] at h
    split at h
    · cases h
    split at h
    · cases h
    split at h
    · cases h
    rename_i hv
    split at h
    · cases h
    rename_i hc
    simp only [Bool.or_eq_true, Bool.not_eq_true', not_or] at hv
    exact ⟨fun c' hc' => by simp [Tx.payCur] at hc'; subst hc'; simpa using hc, fun _ => by simpa [Tx.name] using hv.1⟩
  | purchase b a n o c =>
    simp only [validateKind] at h
    split at h
    · cases h
    rename_i hc
    split at h
    · cases h
    split at h
    · cases h
    rename_i hv
    exact ⟨fun c' hc' => by simp [Tx.payCur] at hc'; subst hc'; simpa using hc, fun _ => by simpa [Tx.name] using hv⟩
  | send f n a c =>
    exact ⟨fun c' hc' => by simp [Tx.payCur] at hc', fun hne => absurd rfl (hne f a c)⟩
  | renew o n p c =>
    simp only [validateKind] at h
    split at h
    · cases h
    split at h
    · cases h
    rename_i hv
    split at h
    · cases h
    rename_i hc
    simp only [Bool.or_eq_true, Bool.not_eq_true', not_or] at hv
    exact ⟨fun c' hc' => by simp [Tx.payCur] at hc'; subst hc'; simpa using hc, fun _ => by simpa [Tx.name] using hv.1⟩
  | deleteSub o n =>
    simp only [validateKind] at h
    split at h
    · cases h
    split at h
    · cases h
    rename_i hv
    exact ⟨fun c' hc' => by simp [Tx.payCur] at hc', fun _ => by simpa [Tx.name] using hv⟩

theorem step_ok {env : Env} {s s' : St} {tx : Tx} (h : step env s tx = (.ok, s')) :
    validate env tx = .ok () ∧ ∃ s1, handler env s tx = .ok s1 ∧ feeStep env s1 = .ok s' := by
  unfold step at h
  split at h
  · cases h
  rename_i u hv
  split at h
  · cases h
  rename_i s1 h1
  split at h
  · cases h
  rename_i s2 h2
  cases h
  exact ⟨hv, s1, h1, h2⟩

theorem step_ok_intro {env : Env} {s : St} {tx : Tx} (h : (step env s tx).1 = .ok) :
    step env s tx = (.ok, (step env s tx).2) := by rw [← h]

theorem step_fail {env : Env} {s : St} {tx : Tx} (h : (step env s tx).1 ≠ .ok) : (step env s tx).2 = s := by
  unfold step at h ⊢
  cases hv : validate env tx with
  | error e => simp
  | ok u =>
    cases h1 : handler env s tx with
    | error e => simp
    | ok s1 =>
      cases h2 : feeStep env s1 with
      | error e => simp [h2]
      | ok s2 => simp [hv, h1, h2] at h

/-! ## the registry invariant -/

theorem inv_of_invB {s : St} (h : invB s = true) : RegInv s := by
  intro n d hd
  have hm := alookup_some_mem s.recs n d hd
  have := (List.all_eq_true.mp h) (n, d) hm
  simp only [recOk, Bool.and_eq_true, Bool.or_eq_true, decide_eq_true_eq] at this
  refine ⟨this.1, fun h3 => ?_⟩
  rcases this.2 with hl | hp
  · omega
  · split at hp
    · rename_i q hq
      simp at hp
      exact ⟨q, hq, hp.1, hp.2⟩
    · cases hp

theorem inv_empty : RegInv St.empty := by
  intro n d hd
  simp [St.empty] at hd

/-- a step that keeps the owner and expiry of every record keeps the invariant -/
theorem inv_of_core {s s' : St}
    (hc : ∀ k, (alookup k s'.recs).map (fun d => (d.owner, d.expire)) =
               (alookup k s.recs).map (fun d => (d.owner, d.expire)))
    (hi : RegInv s) : RegInv s' := by
  intro n d hd
  have h1 := hc n
  rw [hd] at h1
  cases h0 : alookup n s.recs with
  | none => simp [h0] at h1
  | some d0 =>
    simp [h0] at h1
    obtain ⟨hv, hp⟩ := hi n d0 h0
    refine ⟨hv, fun h3 => ?_⟩
    obtain ⟨p, hpl, hpo, hpe⟩ := hp h3
    have h2 := hc (parentOf n)
    rw [hpl] at h2
    cases h4 : alookup (parentOf n) s'.recs with
    | none => simp [h4] at h2
    | some p' =>
      simp [h4] at h2
      exact ⟨p', rfl, by rw [h2.1, hpo, h1.1], by rw [h2.2, hpe, h1.2]⟩

/-- deleting sub-names only keeps the invariant -/
theorem inv_of_erase {s s' : St} (q : Name → Bool) (hq : ∀ k, q k = true → 3 ≤ k.length)
    (hl : ∀ k, alookup k s'.recs = if q k = true then none else alookup k s.recs) (hi : RegInv s) : RegInv s' := by
  intro n d hd
  rw [hl n] at hd
  split at hd
  · cases hd
  obtain ⟨hv, hp⟩ := hi n d hd
  refine ⟨hv, fun h3 => ?_⟩
  obtain ⟨p, hpl, hpo, hpe⟩ := hp h3
  refine ⟨p, ?_, hpo, hpe⟩
  rw [hl (parentOf n)]
  have : q (parentOf n) ≠ true := by
    intro hq'
    have := hq _ hq'
    rw [parentOf_length (validName_length hv)] at this
    omega
  simp [this, hpl]

theorem visSub_isSubOf {r k : Name} (h : visSub r k = true) : isSubOf k r = true := h

theorem inv_create {env : Env} {s s' : St} {o b : Addr} {n : Name} {u : String} {uo : Bool} {p : Int} {c : Cur}
    (h : runCreate env s o b n u uo p c = .ok s') (hi : RegInv s) : RegInv s' := by
  obtain ⟨_, habs, hval, _, _, _, d, hrecs, hown, _, _, hexp⟩ := runCreate_ok h
  intro k dk hk
  rw [hrecs, alookup_upsert] at hk
  split at hk
  · rename_i hkn
    subst hkn
    cases hk
    refine ⟨hval, fun h3 => ?_⟩
    have hsub := isSub_of_valid hval h3
    simp only [hsub, if_true] at hexp
    obtain ⟨par, hpar, hpo, hpe⟩ := hexp
    refine ⟨par, ?_, by rw [hpo, hown], hpe.symm⟩
    rw [hrecs, alookup_upsert_ne _ _ _ _ (parentOf_ne_of_length (validName_length hval) h3)]
    exact hpar
  · rename_i hkn
    obtain ⟨hv, hp⟩ := hi k dk hk
    refine ⟨hv, fun h3 => ?_⟩
    obtain ⟨q, hq, hqo, hqe⟩ := hp h3
    refine ⟨q, ?_, hqo, hqe⟩
    rw [hrecs, alookup_upsert_ne]
    · exact hq
    · intro e
      rw [e, habs] at hq
      cases hq

theorem inv_renew {env : Env} {s s' : St} {o : Addr} {n : Name} {p : Int} {c : Cur}
    (h : runRenew env s o n p c = .ok s') (hi : RegInv s) : RegInv s' := by
  obtain ⟨d, hd, _, hsub, _, _, _, _, _, q, _, hrecs⟩ := runRenew_ok h
  have hvn := (hi n d hd).1
  have hn2 : n.length = 2 := length_two_of_valid_not_sub hvn hsub
  intro k dk hk
  rw [hrecs, alookup_mapSel, alookup_upsert] at hk
  by_cases hkn : k = n
  · subst hkn
    simp [visSub, isSubOf_irrefl] at hk
    refine ⟨hvn, fun h3 => by omega⟩
  · simp only [hkn, if_false] at hk
    cases hk0 : alookup k s.recs with
    | none => simp [hk0] at hk
    | some dk0 =>
      simp only [hk0, Option.map_some, Option.some.injEq] at hk
      obtain ⟨hv, hp⟩ := hi k dk0 hk0
      refine ⟨hv, fun h3 => ?_⟩
      obtain ⟨q, hq, hqo, hqe⟩ := hp h3
      by_cases hpar : parentOf k = n
      · -- k is a sub-name of the renewed name: the iteration reached it
        have hsk : isSubOf k n = true := hpar ▸ isSubOf_parent h3
        have hvis : visSub n k = true := hsk
        rw [hpar, hd] at hq
        cases hq
        refine ⟨{ d with expire := d.expire + q, lastUpdate := env.height }, ?_, ?_, ?_⟩
        · rw [hrecs, alookup_mapSel, alookup_upsert, hpar]
          simp [visSub, isSubOf_irrefl]
        · rw [← hk]; simp [hvis]; exact hqo
        · rw [← hk]; simp [hvis]
      · have hnv : visSub n k = false := by
          cases hv' : visSub n k with
          | false => rfl
          | true => exact absurd (parentOf_eq_of_isSubOf (visSub_isSubOf hv') hn2) hpar
        have hnvp : visSub n (parentOf k) = false := by
          cases hv' : visSub n (parentOf k) with
          | false => rfl
          | true =>
            have := isSubOf_length (visSub_isSubOf hv')
            rw [parentOf_length (validName_length hv)] at this
            omega
        refine ⟨q, ?_, ?_, ?_⟩
        · rw [hrecs, alookup_mapSel, alookup_upsert]
          simp [hpar, hq, hnvp]
        · rw [← hk]; simp [hnv]; exact hqo
        · rw [← hk]; simp [hnv]; exact hqe

theorem inv_purchase {env : Env} {s s' : St} {buyer acct : Addr} {n : Name} {off : Int} {c : Cur}
    (h : runPurchase env s buyer acct n off c = .ok s') (hi : RegInv s) : RegInv s' := by
  obtain ⟨d, hd, hsub, _, _, hbr⟩ := runPurchase_ok h
  have hvn := (hi n d hd).1
  have hn2 : n.length = 2 := length_two_of_valid_not_sub hvn hsub
  have hrecs : ∃ d', s'.recs = upsert (eraseSel (visSub n) s.recs) n d' := by
    rcases hbr with ⟨_, _, _, _, _, _, _, _, _, _, _, hr⟩ | ⟨_, _, _, _, _, _, hr⟩
    · exact ⟨_, hr⟩
    · exact ⟨_, hr⟩
  obtain ⟨d', hrecs⟩ := hrecs
  intro k dk hk
  rw [hrecs, alookup_upsert] at hk
  by_cases hkn : k = n
  · subst hkn
    exact ⟨hvn, fun h3 => by omega⟩
  · simp only [hkn, if_false] at hk
    rw [alookup_eraseSel] at hk
    split at hk
    · cases hk
    rename_i hnv
    obtain ⟨hv, hp⟩ := hi k dk hk
    refine ⟨hv, fun h3 => ?_⟩
    obtain ⟨q, hq, hqo, hqe⟩ := hp h3
    have hpar : parentOf k ≠ n := by
      intro hpar
      have hsk : isSubOf k n = true := hpar ▸ isSubOf_parent h3
      exact hnv hsk
    have hnvp : visSub n (parentOf k) ≠ true := by
      intro hv'
      have := isSubOf_length (visSub_isSubOf hv')
      rw [parentOf_length (validName_length hv)] at this
      omega
    refine ⟨q, ?_, hqo, hqe⟩
    rw [hrecs, alookup_upsert_ne _ _ _ _ hpar, alookup_eraseSel]
    simp [hnvp, hq]

theorem inv_update {env : Env} {s s' : St} {o b : Addr} {n : Name} {a : Bool} {u : String} {uo : Bool}
    (h : runUpdate env s o b n a u uo = .ok s') (hi : RegInv s) : RegInv s' := by
  obtain ⟨d, hd, _, _, _, _, hrecs⟩ := runUpdate_ok h
  refine inv_of_core (fun k => ?_) hi
  rw [hrecs, alookup_upsert]
  by_cases hk : k = n
  · subst hk; simp [hd]
  · simp only [hk, if_false]
    split
    · rw [alookup_mapSel]
      cases alookup k s.recs with
      | none => rfl
      | some x => by_cases hv : visSub n k = true <;> simp [hv]
    · rfl

theorem inv_sale {env : Env} {s s' : St} {o : Addr} {n : Name} {p : Int} {cu : Cur} {c : Bool}
    (h : runSale env s o n p cu c = .ok s') (hi : RegInv s) : RegInv s' := by
  obtain ⟨d, hd, _, _, _, _, _, _, d', hrecs, ho, he, _⟩ := runSale_ok h
  refine inv_of_core (fun k => ?_) hi
  rw [hrecs, alookup_upsert]
  by_cases hk : k = n
  · subst hk; simp [hd, ho, he]
  · simp [hk]

theorem inv_send {env : Env} {s s' : St} {f : Addr} {n : Name} {amt : Int} {c : Cur}
    (h : runSend env s f n amt c = .ok s') (hi : RegInv s) : RegInv s' := by
  obtain ⟨_, _, _, _, _, _, _, _, _, hrecs, _⟩ := runSend_ok h
  exact inv_of_core (fun k => by rw [hrecs]) hi

theorem inv_deleteSub {env : Env} {s s' : St} {o : Addr} {n : Name}
    (h : runDeleteSub env s o n = .ok s') (hi : RegInv s) : RegInv s' := by
  obtain ⟨par, hpar, _, _, _, hrecs⟩ := runDeleteSub_ok h
  by_cases hsub : isSub n = true
  · simp only [hsub, if_true] at hrecs hpar
    refine inv_of_erase (fun k => decide (k = n)) (fun k hk => ?_) (fun k => ?_) hi
    · simp at hk; subst hk; exact isSub_length hsub
    · rw [hrecs.2, alookup_aerase]; simp
  · simp only [hsub] at hrecs hpar
    have hvn := (hi n par hpar).1
    refine inv_of_erase (visSub n) (fun k hk => ?_) (fun k => ?_) hi
    · have := isSubOf_length (visSub_isSubOf hk)
      have := validName_length hvn
      omega
    · rw [hrecs, alookup_eraseSel]

theorem inv_feeStep {env : Env} {s s' : St} (h : feeStep env s = .ok s') (hi : RegInv s) : RegInv s' := by
  obtain ⟨_, _, _, _, hrecs⟩ := feeStep_ok h
  exact inv_of_core (fun k => by rw [hrecs]) hi

theorem inv_handler {env : Env} {s s' : St} {tx : Tx} (h : handler env s tx = .ok s') (hi : RegInv s) : RegInv s' := by
  cases tx with
  | create o b n u uo p c => exact inv_create h hi
  | update o b n a u uo => exact inv_update h hi
  | sale o n p cu c => exact inv_sale h hi
  | purchase b a n o c => exact inv_purchase h hi
  | send f n a c => exact inv_send h hi
  | renew o n p c => exact inv_renew h hi
  | deleteSub o n => exact inv_deleteSub h hi

theorem step_cases (env : Env) (s : St) (tx : Tx) :
    (step env s tx).2 = s ∨
    (validate env tx = .ok () ∧ ∃ s1, handler env s tx = .ok s1 ∧ feeStep env s1 = .ok (step env s tx).2) := by
  unfold step
  cases hv : validate env tx with
  | error e => exact Or.inl rfl
  | ok u =>
    cases h1 : handler env s tx with
    | error e => exact Or.inl rfl
    | ok s1 =>
      cases h2 : feeStep env s1 with
      | error e => exact Or.inl (by simp [h2])
      | ok s2 => exact Or.inr ⟨rfl, s1, rfl, by simp [h2]⟩

theorem inv_step {env : Env} {s : St} {tx : Tx} (hi : RegInv s) : RegInv (step env s tx).2 := by
  rcases step_cases env s tx with h | ⟨_, s1, h1, h2⟩
  · rw [h]; exact hi
  · exact inv_feeStep h2 (inv_handler h1 hi)

theorem inv_commit {s : St} (hi : RegInv s) : RegInv s.commit := hi

theorem inv_run {s : St} (evs : List Ev) (hi : RegInv s) : RegInv (run s evs) := by
  induction evs generalizing s with
  | nil => exact hi
  | cons ev evs ih =>
    cases ev with
    | tx env t => exact ih (inv_step hi)
    | commit => exact ih (inv_commit hi)

/-! ## who may change a record -/

theorem auth_of_change {env : Env} {s : St} {tx : Tx} {n : Name}
    (hch : alookup n (step env s tx).2.recs ≠ alookup n s.recs) : Auth env s tx n := by
  rcases step_cases env s tx with h | ⟨_, s1, h1, h2⟩
  · rw [h] at hch; exact absurd rfl hch
  obtain ⟨_, _, _, _, hfr⟩ := feeStep_ok h2
  rw [hfr] at hch
  cases tx with
  | create o b n' u uo p c =>
    obtain ⟨_, habs, hval, _, _, _, d, hrecs, hown, _, _, hexp⟩ := runCreate_ok h1
    rw [hrecs, alookup_upsert] at hch
    by_cases hk : n = n'
    · subst hk
      by_cases hsub : isSub n = true
      · simp only [hsub, if_true] at hexp
        obtain ⟨par, hpar, hpo, _⟩ := hexp
        exact .ownerAbove (parentOf n) par (isSubOf_parent (isSub_length hsub)) hpar hpo
      · exact .registration b u uo p c habs (by simpa using hsub) rfl
    · simp [hk] at hch
  | update o b n' a u uo =>
    obtain ⟨d, hd, hown, _, _, _, hrecs⟩ := runUpdate_ok h1
    rw [hrecs, alookup_upsert] at hch
    by_cases hk : n = n'
    · subst hk; exact .ownRecord d hd hown
    · simp only [hk, if_false] at hch
      split at hch
      · rw [alookup_mapSel] at hch
        by_cases hv : visSub n' n = true
        · exact .ownerAbove n' d (visSub_isSubOf hv) hd hown
        · cases hl : alookup n s.recs <;> simp [hl, hv] at hch
      · exact absurd rfl hch
  | sale o n' p cu c =>
    obtain ⟨d, hd, hown, _, _, _, _, _, d', hrecs, _⟩ := runSale_ok h1
    rw [hrecs, alookup_upsert] at hch
    by_cases hk : n = n'
    · subst hk; exact .ownRecord d hd hown
    · simp [hk] at hch
  | purchase b a n' o c =>
    obtain ⟨d, hd, hsub, hfs, _, hbr⟩ := runPurchase_ok h1
    have hrecs : ∃ d', s1.recs = upsert (eraseSel (visSub n') s.recs) n' d' := by
      rcases hbr with ⟨_, _, _, _, _, _, _, _, _, _, _, hr⟩ | ⟨_, _, _, _, _, _, hr⟩
      · exact ⟨_, hr⟩
      · exact ⟨_, hr⟩
    obtain ⟨d', hrecs⟩ := hrecs
    rw [hrecs, alookup_upsert] at hch
    by_cases hk : n = n'
    · subst hk; exact .purchase b a n o c d rfl (Or.inl rfl) hsub hd hfs
    · simp only [hk, if_false] at hch
      rw [alookup_eraseSel] at hch
      by_cases hv : visSub n' n = true
      · exact .purchase b a n' o c d rfl (Or.inr (visSub_isSubOf hv)) hsub hd hfs
      · simp [hv] at hch
  | send f n' amt c =>
    obtain ⟨_, _, _, _, _, _, _, _, _, hrecs, _⟩ := runSend_ok h1
    rw [hrecs] at hch; exact absurd rfl hch
  | renew o n' p c =>
    obtain ⟨d, hd, hown, _, _, _, _, _, _, q, _, hrecs⟩ := runRenew_ok h1
    rw [hrecs, alookup_mapSel, alookup_upsert] at hch
    by_cases hk : n = n'
    · subst hk; exact .ownRecord d hd hown
    · simp only [hk, if_false] at hch
      by_cases hv : visSub n' n = true
      · exact .ownerAbove n' d (visSub_isSubOf hv) hd hown
      · cases hl : alookup n s.recs <;> simp [hl, hv] at hch
  | deleteSub o n' =>
    obtain ⟨par, hpar, hown, _, _, hrecs⟩ := runDeleteSub_ok h1
    by_cases hsub : isSub n' = true
    · simp only [hsub, if_true] at hrecs hpar
      rw [hrecs.2, alookup_aerase] at hch
      by_cases hk : n = n'
      · subst hk; exact .ownerAbove (parentOf n) par (isSubOf_parent (isSub_length hsub)) hpar hown
      · simp [hk] at hch
    · simp only [hsub] at hrecs hpar
      rw [hrecs, alookup_eraseSel] at hch
      by_cases hv : visSub n' n = true
      · exact .ownerAbove n' par (visSub_isSubOf hv) hpar hown
      · simp [hv] at hch

theorem parentOf_of_length_two {r : Name} (h : r.length = 2) : parentOf r = r := by
  simp [parentOf, h]

/-- under the registry invariant every entitlement is one of: signed by the current owner of the
    (root) name, first registration, purchase of the (root) name -/
theorem rootAuth_of_auth {env : Env} {s : St} {tx : Tx} {n : Name} (hi : RegInv s) (ha : Auth env s tx n) :
    (∃ p, alookup (rootOf n) s.recs = some p ∧ p.owner = tx.signer) ∨
    (alookup n s.recs = none ∧ isSub n = false ∧ ∃ b u uo p c, tx = .create tx.signer b n u uo p c) ∨
    (∃ b a o c d, tx = .purchase b a (rootOf n) o c ∧ alookup (rootOf n) s.recs = some d ∧
      (d.onSale = true ∨ d.expire < env.version)) := by
  cases ha with
  | ownRecord d hd hown =>
    left
    unfold rootOf
    by_cases h3 : 3 ≤ n.length
    · obtain ⟨p, hp, hpo, _⟩ := (hi n d hd).2 h3
      simp only [h3, if_true]
      exact ⟨p, hp, hpo.trans hown⟩
    · simp only [h3, if_false]
      exact ⟨d, hd, hown⟩
  | ownerAbove r p hsub hr hown =>
    left
    have hvr := (hi r p hr).1
    have hr2 := validName_length hvr
    have hl := isSubOf_length hsub
    have h3 : 3 ≤ n.length := by omega
    unfold rootOf
    simp only [h3, if_true]
    rw [parentOf_of_isSubOf hsub hr2]
    by_cases hr3 : 3 ≤ r.length
    · obtain ⟨q, hq, hqo, _⟩ := (hi r p hr).2 hr3
      exact ⟨q, hq, hqo.trans hown⟩
    · rw [parentOf_of_length_two (by omega)]
      exact ⟨p, hr, hown⟩
  | registration b u uo p c habs hsub htx =>
    right; left
    exact ⟨habs, hsub, b, u, uo, p, c, htx⟩
  | purchase b a r o c d htx hrn hsub hr hfs =>
    right; right
    have hvr := (hi r d hr).1
    have hr2 : r.length = 2 := length_two_of_valid_not_sub hvr hsub
    have hroot : rootOf n = r := by
      unfold rootOf
      rcases hrn with e | hs
      · subst e; simp [hr2]
      · have hl := isSubOf_length hs
        have h3 : 3 ≤ n.length := by omega
        simp only [h3, if_true]
        exact parentOf_eq_of_isSubOf hs hr2
    rw [hroot]
    exact ⟨b, a, o, c, d, htx, hr, hfs⟩

/-! ## one record per name -/

theorem nodup_handler {env : Env} {s s' : St} {tx : Tx} (h : handler env s tx = .ok s')
    (hn : (akeys s.recs).Nodup) : (akeys s'.recs).Nodup := by
  cases tx with
  | create o b n u uo p c =>
    obtain ⟨_, _, _, _, _, _, d, hrecs, _⟩ := runCreate_ok h
    rw [hrecs]; exact nodup_akeys_upsert _ _ _ hn
  | update o b n a u uo =>
    obtain ⟨d, _, _, _, _, _, hrecs⟩ := runUpdate_ok h
    rw [hrecs]
    apply nodup_akeys_upsert
    split
    · rw [akeys_mapSel]; exact hn
    · exact hn
  | sale o n p cu c =>
    obtain ⟨d, _, _, _, _, _, _, _, d', hrecs, _⟩ := runSale_ok h
    rw [hrecs]; exact nodup_akeys_upsert _ _ _ hn
  | purchase b a n o c =>
    obtain ⟨d, _, _, _, _, hbr⟩ := runPurchase_ok h
    have hrecs : ∃ d', s'.recs = upsert (eraseSel (visSub n) s.recs) n d' := by
      rcases hbr with ⟨_, _, _, _, _, _, _, _, _, _, _, hr⟩ | ⟨_, _, _, _, _, _, hr⟩
      · exact ⟨_, hr⟩
      · exact ⟨_, hr⟩
    obtain ⟨d', hrecs⟩ := hrecs
    rw [hrecs]
    apply nodup_akeys_upsert
    rw [akeys_eraseSel]
    exact hn.sublist List.filter_sublist
  | send f n a c =>
    obtain ⟨_, _, _, _, _, _, _, _, _, hrecs, _⟩ := runSend_ok h
    rw [hrecs]; exact hn
  | renew o n p c =>
    obtain ⟨d, _, _, _, _, _, _, _, _, q, _, hrecs⟩ := runRenew_ok h
    rw [hrecs, akeys_mapSel]; exact nodup_akeys_upsert _ _ _ hn
  | deleteSub o n =>
    obtain ⟨par, _, _, _, _, hrecs⟩ := runDeleteSub_ok h
    split at hrecs
    · rw [hrecs.2, akeys_aerase]; exact hn.sublist List.filter_sublist
    · rw [hrecs, akeys_eraseSel]; exact hn.sublist List.filter_sublist

theorem nodup_step {env : Env} {s : St} {tx : Tx} (hn : (akeys s.recs).Nodup) :
    (akeys (step env s tx).2.recs).Nodup := by
  rcases step_cases env s tx with h | ⟨_, s1, h1, h2⟩
  · rw [h]; exact hn
  · obtain ⟨_, _, _, _, hfr⟩ := feeStep_ok h2
    rw [hfr]; exact nodup_handler h1 hn

theorem nodup_run {s : St} (evs : List Ev) (hn : (akeys s.recs).Nodup) : (akeys (run s evs).recs).Nodup := by
  induction evs generalizing s with
  | nil => exact hn
  | cons ev evs ih =>
    cases ev with
    | tx env t => exact ih (nodup_step hn)
    | commit => exact ih hn

/-! ## sale status -/

/-- owner and sale fields of an existing record move only through the owner's sell / cancel, or
    through a purchase of that name, after which it is off sale, unpriced and owned by the buyer -/
theorem sale_fields_of_change {env : Env} {s : St} {tx : Tx} {n : Name} {d d' : Domain}
    (hd : alookup n s.recs = some d) (hd' : alookup n (step env s tx).2.recs = some d')
    (hne : d'.onSale ≠ d.onSale ∨ d'.salePrice ≠ d.salePrice ∨ d'.owner ≠ d.owner) :
    (∃ p cu c, tx = .sale d.owner n p cu c ∧ d'.owner = d.owner) ∨
    (∃ b a o c, tx = .purchase b a n o c ∧ d'.owner = b ∧ d'.onSale = false ∧ d'.salePrice = none) := by
  rcases step_cases env s tx with h | ⟨_, s1, h1, h2⟩
  · rw [h, hd] at hd'; cases hd'; simp at hne
  obtain ⟨_, _, _, _, hfr⟩ := feeStep_ok h2
  rw [hfr] at hd'
  have same : d' = d → False := fun e => by subst e; simp at hne
  cases tx with
  | create o b n' u uo p c =>
    obtain ⟨_, habs, _, _, _, _, x, hrecs, _⟩ := runCreate_ok h1
    rw [hrecs, alookup_upsert] at hd'
    by_cases hk : n = n'
    · subst hk; rw [habs] at hd; cases hd
    · simp only [hk, if_false] at hd'; rw [hd] at hd'; cases hd'; exact (same rfl).elim
  | update o b n' a u uo =>
    obtain ⟨x, hx, _, _, _, _, hrecs⟩ := runUpdate_ok h1
    rw [hrecs, alookup_upsert] at hd'
    by_cases hk : n = n'
    · subst hk; rw [hd] at hx; cases hx; simp only [if_true] at hd'; cases hd'; simp at hne
    · simp only [hk, if_false] at hd'
      split at hd'
      · rw [alookup_mapSel, hd] at hd'
        simp only [Option.map_some, Option.some.injEq] at hd'
        subst hd'
        split at hne <;> simp at hne
      · rw [hd] at hd'; cases hd'; exact (same rfl).elim
  | sale o n' p cu c =>
    obtain ⟨x, hx, hown, _, _, _, _, _, x', hrecs, ho, _⟩ := runSale_ok h1
    rw [hrecs, alookup_upsert] at hd'
    by_cases hk : n = n'
    · subst hk; rw [hd] at hx; cases hx; simp only [if_true] at hd'; cases hd'
      left; exact ⟨p, cu, c, by rw [hown], ho⟩
    · simp only [hk, if_false] at hd'; rw [hd] at hd'; cases hd'; exact (same rfl).elim
  | purchase b a n' o c =>
    obtain ⟨x, hx, _, _, _, hbr⟩ := runPurchase_ok h1
    have hrecs : ∃ e, s1.recs = upsert (eraseSel (visSub n') s.recs) n' (resetAfterSale x b a e env.version) := by
      rcases hbr with ⟨_, _, _, _, _, _, _, _, _, _, _, hr⟩ | ⟨_, _, _, _, _, _, hr⟩
      · exact ⟨_, hr⟩
      · exact ⟨_, hr⟩
    obtain ⟨e, hrecs⟩ := hrecs
    rw [hrecs, alookup_upsert] at hd'
    by_cases hk : n = n'
    · subst hk; simp only [if_true] at hd'; cases hd'
      right; exact ⟨b, a, o, c, rfl, rfl, rfl, rfl⟩
    · simp only [hk, if_false] at hd'
      rw [alookup_eraseSel] at hd'
      split at hd'
      · cases hd'
      · rw [hd] at hd'; cases hd'; exact (same rfl).elim
  | send f n' amt c =>
    obtain ⟨_, _, _, _, _, _, _, _, _, hrecs, _⟩ := runSend_ok h1
    rw [hrecs, hd] at hd'; cases hd'; exact (same rfl).elim
  | renew o n' p c =>
    obtain ⟨x, hx, _, _, _, _, _, _, _, q, _, hrecs⟩ := runRenew_ok h1
    rw [hrecs, alookup_mapSel, alookup_upsert] at hd'
    by_cases hk : n = n'
    · subst hk; rw [hd] at hx; cases hx
      simp only [if_true, Option.map_some, Option.some.injEq] at hd'
      subst hd'
      split at hne <;> simp at hne
    · simp only [hk, if_false, hd, Option.map_some, Option.some.injEq] at hd'
      subst hd'
      split at hne <;> simp at hne
  | deleteSub o n' =>
    obtain ⟨par, _, _, _, _, hrecs⟩ := runDeleteSub_ok h1
    split at hrecs
    · rw [hrecs.2, alookup_aerase] at hd'
      split at hd'
      · cases hd'
      · rw [hd] at hd'; cases hd'; exact (same rfl).elim
    · rw [hrecs, alookup_eraseSel] at hd'
      split at hd'
      · cases hd'
      · rw [hd] at hd'; cases hd'; exact (same rfl).elim

end OLP.Ons

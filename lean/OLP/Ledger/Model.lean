/-
  Layer D — value accounting (C02, C03): the balance store, coin arithmetic and the generic
  shape of every value-moving handler.

  Port of data/balance/coin.go (`Plus`, `Minus`, `IsValid`), data/balance/balance_store.go
  (`AddToAddress`, `MinusFromAddress`), action/types.go (`Amount.ToCoin`, `ToCoinWithBase`),
  action/base.go (`BasicFeeHandling`), action/transfer/send.go, sendPool.go.
  Amounts are unbounded integers (`math/big`); `int64` appears only where Go converts.
  Core-only.
-/
import OLP.Base.Assoc

namespace OLP.Ledger

/-- an account-like holder of value: an address with a currency, or a named record class
    (stake, pending undelegation, proposal escrow, fee pool, …) -/
abbrev Acc := String

/-- the ledger: holder ↦ amount (absent = 0), as an association list -/
abbrev L := List (Acc × Int)

def bal (l : L) (a : Acc) : Int := (alookup a l).getD 0
def setBal (l : L) (a : Acc) (v : Int) : L := upsert l a v

/-- sum of all stored amounts -/
def total : L → Int
  | [] => 0
  | (_, v) :: t => v + total t

/-- no stored amount is negative -/
def NonNeg (l : L) : Prop := ∀ p ∈ l, 0 ≤ p.2

/-- `Int64()` of a big integer: two's complement wrap-around -/
def wrap64 (x : Int) : Int :=
  let m := x % 18446744073709551616
  if m ≥ 9223372036854775808 then m - 18446744073709551616 else m

/-- `Amount.ToCoinWithBase`: `Value.Int64() * 10^decimal` (stake / unstake / withdraw / reward withdraw) -/
def toCoinWithBase (value : Int) (decimals : Nat) : Int := wrap64 value * (10 : Int) ^ decimals

/-- `Coin.IsValid` for a known currency: amount ≥ 0 -/
def isValid (c : Int) : Bool := decide (0 ≤ c)

inductive Err where
  | insufficient      -- `ErrInsufficientBalance` from `Coin.Minus`
  | invalid           -- a validity check of the handler
  deriving DecidableEq, Repr

/-- `Store.MinusFromAddress`: `base.Minus(coin)` fails iff the result is negative — a negative
    coin therefore *adds* -/
def minusFrom (l : L) (a : Acc) (c : Int) : Except Err L :=
  if bal l a - c < 0 then .error .insufficient else .ok (setBal l a (bal l a - c))

/-- `Store.AddToAddress`: `base.Plus(coin)`, no check at all — a negative coin subtracts and the
    stored amount can become negative -/
def addTo (l : L) (a : Acc) (c : Int) : L := setBal l a (bal l a + c)

/-- the one pattern every conserving handler follows: debit `src`, credit `dst`, same coin -/
def transfer (l : L) (src dst : Acc) (c : Int) : Except Err L :=
  match minusFrom l src c with
  | .error e => .error e
  | .ok l' => .ok (addTo l' dst c)

/-- `BasicFeeHandling`: charge = price × gas used, from the first signer to the fee pool
    (the price is validated by `ValidateFee` in `Validate`) -/
def feeStep (l : L) (signer pool : Acc) (price used : Int) : Except Err L :=
  transfer l signer pool (price * used)

/-- SEND (`runSend` re-validates the amount: `IsValid` ⇒ amount ≥ 0) -/
def send (l : L) (src dst : Acc) (amount : Int) : Except Err L :=
  if !isValid amount then .error .invalid else transfer l src dst amount

/-- SENDPOOL as `runSendPool` is written: no validity check of its own (it relies on `Validate`) -/
def sendPoolRaw (l : L) (src pool : Acc) (amount : Int) : Except Err L := transfer l src pool amount

/-- a whole transaction: handler then fee step, atomically (C06) -/
def txSend (l : L) (src dst pool : Acc) (amount price used : Int) : Except Err L :=
  match send l src dst amount with
  | .error e => .error e
  | .ok l' => feeStep l' src pool price used

end OLP.Ledger

/-
  Layer D — helper lemmas for the value-accounting theorems (C02, C03).
-/
import OLP.Ledger.Model

namespace OLP.Ledger

end OLP.Ledger

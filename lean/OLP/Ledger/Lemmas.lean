/-
  Layer D — helper lemmas for the value-accounting theorems (C02, C03).
-/
import OLP.Ledger.Model

namespace OLP.Ledger

/-! ## `bal` / `setBal` -/

theorem bal_nil (a : Acc) : bal [] a = 0 := rfl

theorem bal_cons (k : Acc) (v : Int) (t : L) (a : Acc) :
    bal ((k, v) :: t) a = if k = a then v else bal t a := by
  unfold bal
  by_cases h : k = a <;> simp [alookup, h]

theorem bal_setBal_self (l : L) (a : Acc) (v : Int) : bal (setBal l a v) a = v := by
  simp [bal, setBal]

theorem bal_setBal_ne (l : L) (a b : Acc) (v : Int) (h : b ≠ a) :
    bal (setBal l a v) b = bal l b := by
  simp [bal, setBal, alookup_upsert_ne l a b v h]

theorem bal_setBal (l : L) (a b : Acc) (v : Int) :
    bal (setBal l a v) b = if b = a then v else bal l b := by
  by_cases h : b = a
  · subst h; simp [bal_setBal_self]
  · simp [h, bal_setBal_ne l a b v h]

/-! ## `total` -/

/-- holds for every list, duplicates included: `upsert` replaces exactly the entry `bal` reads -/
theorem total_setBal (l : L) (a : Acc) (v : Int) :
    total (setBal l a v) = total l - bal l a + v := by
  induction l with
  | nil => simp [setBal, upsert, total, bal]
  | cons hd t ih =>
    obtain ⟨k, w⟩ := hd
    by_cases hk : k = a
    · subst hk
      simp only [setBal, upsert, if_true, total, bal_cons]
      omega
    · have ih' : total (upsert t a v) = total t - bal t a + v := ih
      simp only [setBal, upsert, hk, if_false, total, bal_cons, ih']
      omega

/-! ## `NonNeg` -/

theorem mem_upsert (l : L) (a : Acc) (v : Int) (p : Acc × Int) (h : p ∈ upsert l a v) :
    p ∈ l ∨ p = (a, v) := by
  induction l with
  | nil =>
    simp [upsert] at h
    exact Or.inr h
  | cons hd t ih =>
    obtain ⟨k, w⟩ := hd
    by_cases hk : k = a
    · simp only [upsert, hk, if_true, List.mem_cons] at h
      rcases h with h | h
      · exact Or.inr h
      · exact Or.inl (List.mem_cons_of_mem _ h)
    · simp only [upsert, hk, if_false, List.mem_cons] at h
      rcases h with h | h
      · exact Or.inl (h ▸ List.mem_cons_self)
      · rcases ih h with h' | h'
        · exact Or.inl (List.mem_cons_of_mem _ h')
        · exact Or.inr h'

theorem nonNeg_setBal (l : L) (a : Acc) (v : Int) (hn : NonNeg l) (hv : 0 ≤ v) :
    NonNeg (setBal l a v) := by
  intro p hp
  rcases mem_upsert l a v p hp with h | h
  · exact hn p h
  · subst h; exact hv

theorem bal_nonneg (l : L) (a : Acc) (hn : NonNeg l) : 0 ≤ bal l a := by
  induction l with
  | nil => simp [bal_nil]
  | cons hd t ih =>
    obtain ⟨k, w⟩ := hd
    rw [bal_cons]
    by_cases hk : k = a
    · simp only [hk, if_true]
      exact hn (k, w) List.mem_cons_self
    · simp only [hk, if_false]
      exact ih (fun p hp => hn p (List.mem_cons_of_mem _ hp))

/-! ## the primitives, inverted -/

theorem minusFrom_ok (l l' : L) (a : Acc) (c : Int) (h : minusFrom l a c = .ok l') :
    0 ≤ bal l a - c ∧ l' = setBal l a (bal l a - c) := by
  unfold minusFrom at h
  by_cases hlt : bal l a - c < 0
  · simp [hlt] at h
  · simp only [hlt, if_false, Except.ok.injEq] at h
    exact ⟨by omega, h.symm⟩

theorem transfer_ok (l l' : L) (s d : Acc) (c : Int) (h : transfer l s d c = .ok l') :
    ∃ l₁, minusFrom l s c = .ok l₁ ∧ l' = addTo l₁ d c := by
  unfold transfer at h
  cases hm : minusFrom l s c with
  | error e => simp [hm] at h
  | ok l₁ =>
    simp only [hm, Except.ok.injEq] at h
    exact ⟨l₁, rfl, h.symm⟩

theorem send_ok (l l' : L) (s d : Acc) (amt : Int) (h : send l s d amt = .ok l') :
    0 ≤ amt ∧ transfer l s d amt = .ok l' := by
  unfold send isValid at h
  by_cases ha : 0 ≤ amt
  · simp [ha] at h
    exact ⟨ha, h⟩
  · simp [ha] at h

theorem txSend_ok (l l' : L) (s d p : Acc) (amt price used : Int)
    (h : txSend l s d p amt price used = .ok l') :
    ∃ l₁, send l s d amt = .ok l₁ ∧ feeStep l₁ s p price used = .ok l' := by
  unfold txSend at h
  cases hm : send l s d amt with
  | error e => simp [hm] at h
  | ok l₁ =>
    simp only [hm] at h
    exact ⟨l₁, rfl, h⟩

end OLP.Ledger

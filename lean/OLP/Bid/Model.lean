/-
  Bid (external_apps/bid) — executable model of bid_action/*.go and bid_block_func/bid_block_func.go
  over bid_data/{bid_conversation_store,bid_offer_store,bid_asset_ons,bid_asset_example}.go.
  Core-only (linked into the driver executable).

  A statement-by-statement port of the six `run*` handlers *as they are*, including:
  * `BidConvStore.Exists` looks into ALL five stores whatever prefix the receiver was aimed at, so
    a conversation that is closed passes the "exists in ACTIVE store" check and fails one line later
    in `Get` (msgpack refuses the empty value): error class `gettingConv`, not `notFound`;
  * the id of a new conversation is SHA-256(owner ‖ asset ‖ bidder ‖ height): the hash is not
    modelled, the id the handler computes is an input of the operation (`newId`); `createBidConv`
    looks for an active conversation of the same owner / asset / bidder with `FilterBidConvs`, which
    iterates with `State.IterateRange` = the keys of the COMMITTED tree only (`St.committed`), so a
    conversation opened earlier in the same block is not seen and is overwritten by `Set`;
  * `createBidConv` never asks whether the id sits in one of the closed stores: a conversation that
    was closed in the block it was created in can be created again under the same id;
  * BID_EXPIRE is on the public router: anybody who names itself `validatorAddress` and signs can
    expire any active conversation, before its deadline (no deadline check in `runExpireBid`);
  * `runCancelBid` does not check the active offer for nil (Go nil dereference = `Err.crash`);
  * `DeactivateOffer` keys the inactive record by (conversation, offer type, offer time): two offers
    of one type made in the same block (same header time) overwrite each other in the history;
  * `time.Unix(deadline, 0)` adds 62135596800 to the int64 seconds and wraps (`deadlineBefore`);
  * the block function: BeginBlock queues every conversation the iteration over the committed
    active store shows past its deadline, EndBlock runs `runExpireBid` for each queued id (no
    Validate, no fee, failures skipped).
  DeliverTx calls `handler.Validate` before `ProcessDeliver` (app/controller.go txDeliverer); the
  fee step (`action.BasicFeeHandling`) charges `Fee.Price * usedGas` to the first signer; gas
  metering itself is layer K, so the used gas / fee-step failure class is an input (`FeeObs`).
  All amounts are OLT (`Validate` of BID_CREATE / BID_CONTER_OFFER refuses any other currency).
-/
import OLP.Ons.Model

namespace OLP.Bid
open OLP

abbrev Addr := String          -- lower-case hex of the address bytes; "" = empty / nil address
abbrev ConvId := String        -- the id as the store keys carry it (64 hex characters when well formed)

/-! ## records (bid_data) -/

/-- bid_data/bid_conversation.go `BidConv` (the id is the key) -/
structure Conv where
  owner : Addr
  asset : String       -- AssetName
  atype : Int          -- AssetType: 0x21 ONS name, 0x22 example asset
  bidder : Addr
  deadline : Int       -- DeadlineUTC, unix seconds
deriving DecidableEq, Repr, Inhabited

/-- bid_data/bid_offer.go `BidOffer` -/
structure Offer where
  conv : ConvId        -- BidConvId field of the record
  otype : Int          -- OfferType: 1 bid offer (bidder), 2 counter offer (owner)
  time : Int           -- OfferTime
  acceptTime : Int
  rejectTime : Int
  amount : Int         -- Amount.Value (OLT)
  astatus : Int        -- AmountStatus: 1 locked, 2 unlocked, 3 counter offer amount, 4 transferred
deriving DecidableEq, Repr, Inhabited

def assetOns : Int := 0x21
def assetExample : Int := 0x22
def tBid : Int := 1
def tCounter : Int := 2
def tInvalid : Int := 3
def aLocked : Int := 1
def aUnlocked : Int := 2
def aCounter : Int := 3
def aTransferred : Int := 4
def stSucceed : Int := 2
def stCancelled : Int := 3
def stExpired : Int := 4
def stRejected : Int := 5
def decAccept : Int := 1
def decReject : Int := 2

/-- key of an inactive offer: `INACTIVE_<conversation>_<offer type>_<offer time>` -/
abbrev IKey := ConvId × Int × Int

structure St where
  active : List (ConvId × Conv)          -- extBidConvActive<id>, as a reader of the deliver state sees it
  committed : List ConvId                -- ids whose ACTIVE key is in the committed tree (what `Iterate` walks over)
  closed : List ((Int × ConvId) × Conv)  -- the Succeed / Cancelled / Expired / Rejected stores, key (status, id)
  aoffers : List (ConvId × Offer)        -- extBidOffer_ACTIVE_<id>
  ioffers : List (IKey × Offer)          -- extBidOffer_INACTIVE_<id>_<type>_<time>
  doms : List (Ons.Name × Ons.Domain)    -- the ONS registry (`d_` records)
  bals : List (Addr × Int)               -- OLT balances `b_<addr>_OLT`
  pool : Int                             -- fee pool
deriving Repr

def St.empty : St := ⟨[], [], [], [], [], [], [], 0⟩

/-- what `BasicFeeHandling` was observed to do with the gas meter -/
inductive FeeObs
  | used (gas : Int)
  | gasOverflow
  | noFunds
deriving DecidableEq, Repr

structure Env where
  height : Int           -- ctx.Header.Height
  version : Int          -- ctx.State.Version()
  now : Int              -- ctx.Header.Time.UTC().Unix()
  feePrice : Int
  fee : FeeObs
  payer : Addr           -- address of signedTx.Signatures[0].Signer (the key that signed)
  sigValid : Bool
  minFee : Int
deriving Repr

inductive Op
  /-- BID_CREATE: `id` empty = open a conversation (its id will be `newId`), else a further offer -/
  | create (id : ConvId) (owner : Addr) (asset : String) (atype : Int) (bidder : Addr) (amount : Int)
      (cur : String) (deadline : Int) (newId : ConvId)
  | counter (id : ConvId) (owner : Addr) (amount : Int) (cur : String)
  | cancel (id : ConvId) (bidder : Addr)
  | bidderDecision (id : ConvId) (bidder : Addr) (decision : Int)
  | expire (id : ConvId) (validator : Addr)
  | ownerDecision (id : ConvId) (owner : Addr) (decision : Int)
  /-- bid_block_func PopExpireBidTxFromQueue: `runExpireBid` for every queued id (block function, no signer) -/
  | hook (ids : List ConvId)
  /-- end of block: the keys of the active store are now in the committed tree -/
  | commit
deriving DecidableEq, Repr

/-- `Signers()` of the message; the block function and the commit have none -/
def Op.signer : Op → Option Addr
  | .create _ _ _ _ b .. => some b
  | .counter _ o .. => some o
  | .cancel _ b => some b
  | .bidderDecision _ b _ => some b
  | .expire _ v => some v
  | .ownerDecision _ o _ => some o
  | .hook _ => none
  | .commit => none

inductive Err
  | invalidAsset         -- 990002 (IsAssetAvailable said no, whatever the reason)
  | failedCreate         -- 990003 (deadline over; an active conversation of the three parties exists)
  | notFound             -- 990005
  | gettingConv          -- 990006 (the id is in a closed store only)
  | expired              -- 990007
  | gettingActiveOffer   -- 990008
  | gettingActiveBid     -- 990009
  | gettingActiveCounter -- 990010
  | deactivate           -- 990011
  | amountNotBelow       -- 990013 offer not below the active counter offer
  | amountNotAbove       -- 990014 counter offer not above the active offer
  | lockAmount           -- 990015
  | wrongBidder          -- 990022
  | wrongOwner           -- 990023
  | deduct               -- 990024
  | badBidderDecision    -- 990032
  | badOwnerDecision     -- 990033
  | exchange             -- 990034
  | vSigner | vSignature | vFee
  | vBadAmount           -- Validate: not OLT / negative
  | vBadId               -- Validate: 990001
  | vBadAddr             -- Validate: ErrInvalidAddress
  | feeGas | feeDebit
  | crash                -- Go panic (nil active offer in runCancelBid)
deriving DecidableEq, Repr

inductive Res
  | ok
  | fail (e : Err)
deriving DecidableEq, Repr

/-! ## integers and time -/

/-- `int64(x)`: two's complement wrap-around -/
def wrap64 (x : Int) : Int :=
  let m := x % 18446744073709551616
  if m ≥ 9223372036854775808 then m - 18446744073709551616 else m

/-- seconds between year 1 and 1970 (package time, `unixToInternal`) -/
def unixToInternal : Int := 62135596800

/-- `time.Unix(deadline, 0).Before(now)` for a header time of whole seconds: `time.Unix` stores
    `deadline + unixToInternal` in an int64 -/
def deadlineBefore (deadline now : Int) : Bool := decide (wrap64 (deadline + unixToInternal) < now + unixToInternal)

/-! ## balances (data/balance) -/

def bal (b : List (Addr × Int)) (a : Addr) : Int := (alookup a b).getD 0

/-- balance.Store.MinusFromAddress / Coin.Minus: refuses a negative result -/
def debit (b : List (Addr × Int)) (a : Addr) (x : Int) : Option (List (Addr × Int)) :=
  if bal b a - x < 0 then none else some (upsert b a (bal b a - x))

/-- balance.Store.AddToAddress -/
def credit (b : List (Addr × Int)) (a : Addr) (x : Int) : List (Addr × Int) := upsert b a (bal b a + x)

/-! ## assets (bid_data/bid_asset_ons.go, bid_asset_example.go; bid_action/common.go) -/

/-- split at every '.' (structural, so that the kernel can evaluate it): `acc` is the current label, reversed -/
def splitDots : List Char → List Char → List String
  | acc, [] => [String.ofList acc.reverse]
  | acc, c :: t => if c = '.' then String.ofList acc.reverse :: splitDots [] t else splitDots (c :: acc) t

/-- `ons.GetNameFromString`: the dotted name as labels (= `s.splitOn "."`) -/
def nameOf (s : String) : Ons.Name := splitDots [] s.toList

/-- common.go IsAssetAvailable → `ValidateAsset`; every refusal ends in ErrInvalidAsset -/
def assetAvailable (env : Env) (s : St) (asset : String) (atype : Int) (owner : Addr) : Bool :=
  if atype = assetOns then
    let n := nameOf asset
    if !Ons.validName n || Ons.isSub n then false else
    match alookup n s.doms with
    | none => false
    | some d =>
      if d.onSale then false else
      if d.owner ≠ owner then false else
      if env.version ≥ d.expire then false else true
  else if atype = assetExample then true
  else false

/-- common.go ExchangeAsset → `ExchangeAsset` of the asset type: the ONS name goes to the bidder
    (`ResetAfterSale(bidder, bidder, 0, version)`, all sub names deleted); the example asset does nothing -/
def exchangeAsset (env : Env) (s : St) (c : Conv) : Option St :=
  if c.atype = assetOns then
    let n := nameOf c.asset
    match alookup n s.doms with
    | none => none
    | some d =>
      if !Ons.changeable d env.height then none else
      let d' := Ons.resetAfterSale d c.bidder c.bidder 0 env.version
      some { s with doms := upsert (Ons.eraseSel (Ons.visSub n) s.doms) n d' }
  else if c.atype = assetExample then some s
  else none

/-! ## stores -/

/-- `BidConvStore.Exists`: the id is in any of the stores -/
def existsAny (s : St) (id : ConvId) : Bool :=
  (alookup id s.active).isSome || (alookup (stSucceed, id) s.closed).isSome ||
  (alookup (stRejected, id) s.closed).isSome || (alookup (stCancelled, id) s.closed).isSome ||
  (alookup (stExpired, id) s.closed).isSome

/-- "1. verify bidConvId exists in ACTIVE store" + `Get` -/
def getActive (s : St) (id : ConvId) : Except Err Conv :=
  if !existsAny s id then .error .notFound else
  match alookup id s.active with
  | none => .error .gettingConv
  | some c => .ok c

/-- `BidOfferStore.GetActiveOffer id oType`: `none` = error (wrong type), `some none` = no active offer -/
def getActiveOffer (s : St) (id : ConvId) (oType : Int) : Option (Option Offer) :=
  match alookup id s.aoffers with
  | none => some none
  | some o => if oType ≠ tInvalid ∧ o.otype ≠ oType then none else some (some o)

/-- what `BidConvStore.Iterate` visits: committed keys that are not deleted, with their current value -/
def iterable (s : St) : List (ConvId × Conv) := s.active.filter (fun p => s.committed.contains p.1)

/-- the filter of `FilterBidConvs BidStateActive owner name type bidder` -/
def convMatches (owner : Addr) (asset : String) (atype : Int) (bidder : Addr) (c : Conv) : Bool :=
  (owner.isEmpty || c.owner == owner) && (bidder.isEmpty || c.bidder == bidder) && c.atype == atype &&
  (asset.isEmpty || c.asset == asset)

/-- common.go DeactivateOffer deal bidder … activeOffer -/
def deactivate (env : Env) (s : St) (deal : Bool) (bidder : Addr) (o : Offer) : Except Err St :=
  if o.otype = tBid then
    let (bals1, o1) :=
      if !deal then (credit s.bals bidder o.amount, { o with astatus := aUnlocked, rejectTime := env.now })
      else (s.bals, { o with astatus := aTransferred, acceptTime := env.now })
    .ok { s with bals := bals1, ioffers := upsert s.ioffers (o.conv, o.otype, o.time) o1,
                 aoffers := aerase s.aoffers o.conv }
  else if o.otype = tCounter then
    let o1 := if !deal then { o with rejectTime := env.now } else { o with acceptTime := env.now }
    .ok { s with ioffers := upsert s.ioffers (o.conv, o.otype, o.time) o1, aoffers := aerase s.aoffers o.conv }
  else .error .deactivate

/-- common.go CloseBidConv: `Set` under the target prefix with the key of the record's own id,
    `Delete` from the active store -/
def closeConv (s : St) (id : ConvId) (c : Conv) (status : Int) : St :=
  { s with closed := upsert s.closed (status, id) c, active := aerase s.active id }

/-! ## the handlers -/

/-- create_bid.go runCreateBid, steps 2-10: the conversation `cid` must be active; asset, bidder and
    deadline checks; the offer against the active counter offer; lock; record -/
def createTail (env : Env) (s1 : St) (isNew : Bool) (cid : ConvId) (bidder : Addr) (amount : Int) : Except Err St :=
  match getActive s1 cid with
  | .error e => .error e
  | .ok c =>
    if !isNew && !assetAvailable env s1 c.asset c.atype c.owner then .error .invalidAsset else
    if bidder ≠ c.bidder then .error .wrongBidder else
    if deadlineBefore c.deadline env.now then .error .expired else
    match getActiveOffer s1 cid tCounter with
    | none => .error .gettingActiveCounter
    | some co =>
      if !isNew && co.isNone then .error .gettingActiveCounter else
      let afterCounter : Except Err St :=
        match co with
        | none => .ok s1
        | some o =>
          if o.amount ≤ amount then .error .amountNotBelow else
          match deactivate env s1 false c.bidder o with
          | .error _ => .error .deactivate
          | .ok s2 => .ok s2
      match afterCounter with
      | .error e => .error e
      | .ok s2 =>
        match debit s2.bals bidder amount with
        | none => .error .lockAmount
        | some b1 =>
          .ok { s2 with bals := b1,
                        aoffers := upsert s2.aoffers cid ⟨cid, tBid, env.now, 0, 0, amount, aLocked⟩ }

/-- create_bid.go runCreateBid: step 1 (an empty id: check the asset, `createBidConv`), then `createTail` -/
def runCreate (env : Env) (s : St) (id : ConvId) (owner : Addr) (asset : String) (atype : Int) (bidder : Addr)
    (amount : Int) (deadline : Int) (newId : ConvId) : Except Err St :=
  if id.isEmpty then
    if !assetAvailable env s asset atype owner then .error .invalidAsset else
    -- createBidConv
    if deadlineBefore deadline env.now then .error .failedCreate else
    if (iterable s).any (fun p => convMatches owner asset atype bidder p.2) then .error .failedCreate else
    createTail env { s with active := upsert s.active newId ⟨owner, asset, atype, bidder, deadline⟩ } true newId bidder amount
  else createTail env s false id bidder amount

/-- counter_offer.go runCounterOffer -/
def runCounter (env : Env) (s : St) (id : ConvId) (owner : Addr) (amount : Int) : Except Err St :=
  match getActive s id with
  | .error e => .error e
  | .ok c =>
    if owner ≠ c.owner then .error .wrongOwner else
    if deadlineBefore c.deadline env.now then .error .expired else
    if !assetAvailable env s c.asset c.atype c.owner then .error .invalidAsset else
    match getActiveOffer s id tBid with
    | none => .error .gettingActiveBid
    | some none => .error .gettingActiveBid
    | some (some o) =>
      if amount ≤ o.amount then .error .amountNotAbove else
      match deactivate env s false c.bidder o with
      | .error _ => .error .deactivate
      | .ok s1 => .ok { s1 with aoffers := upsert s1.aoffers id ⟨id, tCounter, env.now, 0, 0, amount, aCounter⟩ }

/-- cancel_bid.go runCancelBid -/
def runCancel (env : Env) (s : St) (id : ConvId) (bidder : Addr) : Except Err St :=
  match getActive s id with
  | .error e => .error e
  | .ok c =>
    if bidder ≠ c.bidder then .error .wrongBidder else
    if deadlineBefore c.deadline env.now then .error .expired else
    match getActiveOffer s id tInvalid with
    | none => .error .gettingActiveOffer
    | some none => .error .crash
    | some (some o) =>
      match deactivate env s false c.bidder o with
      | .error _ => .error .deactivate
      | .ok s1 => .ok (closeConv s1 id c stCancelled)

/-- bidder_decision.go runBidderDecision -/
def runBidderDecision (env : Env) (s : St) (id : ConvId) (bidder : Addr) (decision : Int) : Except Err St :=
  match getActive s id with
  | .error e => .error e
  | .ok c =>
    if deadlineBefore c.deadline env.now then .error .expired else
    if !assetAvailable env s c.asset c.atype c.owner then .error .invalidAsset else
    if bidder ≠ c.bidder then .error .wrongBidder else
    match getActiveOffer s id tCounter with
    | none => .error .gettingActiveCounter
    | some none => .error .gettingActiveCounter
    | some (some o) =>
      if decision ≠ decReject ∧ decision ≠ decAccept then .error .badBidderDecision else
      if decision = decReject then
        match deactivate env s false c.bidder o with
        | .error _ => .error .deactivate
        | .ok s1 => .ok (closeConv s1 id c stRejected)
      else
        match debit s.bals bidder o.amount with
        | none => .error .deduct
        | some b1 =>
          let s1 := { s with bals := credit b1 c.owner o.amount }
          match deactivate env s1 true c.bidder o with
          | .error _ => .error .deactivate
          | .ok s2 =>
            match exchangeAsset env (closeConv s2 id c stSucceed) c with
            | none => .error .exchange
            | some s3 => .ok s3

/-- owner_decision.go runOwnerDecision -/
def runOwnerDecision (env : Env) (s : St) (id : ConvId) (owner : Addr) (decision : Int) : Except Err St :=
  match getActive s id with
  | .error e => .error e
  | .ok c =>
    if deadlineBefore c.deadline env.now then .error .expired else
    if !assetAvailable env s c.asset c.atype c.owner then .error .invalidAsset else
    if owner ≠ c.owner then .error .wrongOwner else
    match getActiveOffer s id tBid with
    | none => .error .gettingActiveOffer
    | some none => .error .gettingActiveOffer
    | some (some o) =>
      if decision ≠ decReject ∧ decision ≠ decAccept then .error .badOwnerDecision else
      if decision = decReject then
        match deactivate env s false c.bidder o with
        | .error _ => .error .deactivate
        | .ok s1 => .ok (closeConv s1 id c stRejected)
      else
        let s1 := { s with bals := credit s.bals c.owner o.amount }
        match deactivate env s1 true c.bidder o with
        | .error _ => .error .deactivate
        | .ok s2 =>
          match exchangeAsset env (closeConv s2 id c stSucceed) c with
          | none => .error .exchange
          | some s3 => .ok s3

/-- expire_bid.go runExpireBid (no deadline check, no check of who asks) -/
def runExpire (env : Env) (s : St) (id : ConvId) : Except Err St :=
  match getActive s id with
  | .error e => .error e
  | .ok c =>
    match getActiveOffer s id tInvalid with
    | none => .error .gettingActiveOffer
    | some none => .error .gettingActiveOffer
    | some (some o) =>
      match deactivate env s false c.bidder o with
      | .error _ => .error .deactivate
      | .ok s1 => .ok (closeConv s1 id c stExpired)

/-- bid_block_func.go AddExpireBidTxToQueue: the ids BeginBlock queues -/
def hookQueue (now : Int) (s : St) : List ConvId :=
  ((iterable s).filter (fun p => deadlineBefore p.2.deadline now)).map (·.1)

/-- bid_block_func.go PopExpireBidTxFromQueue: each queued id in its own session; a failure is skipped -/
def runHook (env : Env) (s : St) : List ConvId → St
  | [] => s
  | id :: t =>
    match runExpire env s id with
    | .ok s1 => runHook env s1 t
    | .error _ => runHook env s t

def handler (env : Env) (s : St) : Op → Except Err St
  | .create id o a t b am _ dl nid => runCreate env s id o a t b am dl nid
  | .counter id o am _ => runCounter env s id o am
  | .cancel id b => runCancel env s id b
  | .bidderDecision id b d => runBidderDecision env s id b d
  | .expire id _ => runExpire env s id
  | .ownerDecision id o d => runOwnerDecision env s id o d
  | .hook ids => .ok (runHook env s ids)
  | .commit => .ok { s with committed := akeys s.active }

/-! ## Validate -/

def olt : String := "OLT"

/-- `BidConvId.Err`: empty or not 64 bytes -/
def idBad (id : ConvId) : Bool := id.utf8ByteSize ≠ 64

/-- `keys.Address.Err`: not 20 bytes (40 hex characters) -/
def addrBad (a : Addr) : Bool := a.length ≠ 40

/-- the kind-specific part of `Validate`, in the order of the Go code -/
def validateKind : Op → Except Err Unit
  | .create id o _ _ b am cur _ _ =>
    if cur ≠ olt then .error .vBadAmount else
    if am < 0 then .error .vBadAmount else
    if !id.isEmpty && idBad id then .error .vBadId else
    if id.isEmpty && (addrBad b || addrBad o) then .error .vBadAddr else .ok ()
  | .counter id o _ cur =>
    if cur ≠ olt then .error .vBadAmount else
    if idBad id then .error .vBadId else
    if addrBad o then .error .vBadAddr else .ok ()
  | .cancel id b => if idBad id then .error .vBadId else if addrBad b then .error .vBadAddr else .ok ()
  | .bidderDecision id b _ => if idBad id then .error .vBadId else if addrBad b then .error .vBadAddr else .ok ()
  | .expire id v => if idBad id then .error .vBadId else if addrBad v then .error .vBadAddr else .ok ()
  | .ownerDecision id o _ => if idBad id then .error .vBadId else if addrBad o then .error .vBadAddr else .ok ()
  | .hook _ => .ok ()
  | .commit => .ok ()

/-- `Validate`: action.ValidateBasic (the signer field is the address of the key that signed, the
    signature verifies), action.ValidateFee, then the kind's own checks -/
def validate (env : Env) (op : Op) : Except Err Unit :=
  match op.signer with
  | none => .ok ()
  | some a =>
    if env.payer ≠ a then .error .vSigner else
    if !env.sigValid then .error .vSignature else
    if env.feePrice < env.minFee then .error .vFee else
    validateKind op

/-- action/base.go BasicFeeHandling (gas metering observed, see `FeeObs`) -/
def feeStep (env : Env) (s : St) : Except Err St :=
  match env.fee with
  | .gasOverflow => .error .feeGas
  | .noFunds => .error .feeDebit
  | .used g =>
    match debit s.bals env.payer (env.feePrice * g) with
    | none => .error .feeDebit
    | some b1 => .ok { s with bals := b1, pool := s.pool + env.feePrice * g }

/-- the block function and the commit pay no fee -/
def Op.isTx : Op → Bool
  | .hook _ => false
  | .commit => false
  | _ => true

/-- one DeliverTx (Validate, handler, fee step; any failure discards the session), one run of the
    block function, or one commit -/
def step (env : Env) (s : St) (op : Op) : Res × St :=
  match validate env op with
  | .error e => (.fail e, s)
  | .ok _ =>
    match handler env s op with
    | .error e => (.fail e, s)
    | .ok s1 =>
      if !op.isTx then (.ok, s1) else
      match feeStep env s1 with
      | .error e => (.fail e, s)
      | .ok s2 => (.ok, s2)

/-- a history: every operation with the environment it ran in -/
def run (s : St) (evs : List (Env × Op)) : St := evs.foldl (fun acc p => (step p.1 acc p.2).2) s

/-! ## specification vocabulary (used by the statements in OLP/Props/C02Bid.lean) -/

def sumV {K : Type} : List (K × Int) → Int
  | [] => 0
  | (_, v) :: t => v + sumV t

/-- what an active offer holds: the amount of a bidder's offer (`DeactivateOffer` gives back, or
    `runOwnerDecision` pays out, the amount of every active offer of type 1); a counter offer holds nothing -/
def lockedAmt (o : Offer) : Int := if o.otype = tBid then o.amount else 0

def lockedSum : List (ConvId × Offer) → Int
  | [] => 0
  | (_, o) :: t => lockedAmt o + lockedSum t

/-- all value the bid application and the accounts hold: balances + locked offers + fee pool -/
def total (s : St) : Int := sumV s.bals + lockedSum s.aoffers + s.pool

/-- the locked offers of the conversations whose bidder is `a` -/
def lockedOf (act : List (ConvId × Conv)) (a : Addr) : List (ConvId × Offer) → Int
  | [] => 0
  | (k, o) :: t =>
    (match alookup k act with
     | some c => if c.bidder = a then lockedAmt o else 0
     | none => 0) + lockedOf act a t

/-- C03 holdings of an account: balance + its own locked offers -/
def holdings (s : St) (a : Addr) : Int := bal s.bals a + lockedOf s.active a s.aoffers

/-- well-formedness of the bid records: the active offers form a map keyed by their own
    conversation id, amounts are not negative, and
    type and amount status go together (bid offer = locked, counter offer = counter offer amount) -/
def WF (s : St) : Prop :=
  (akeys s.aoffers).Nodup ∧
  ∀ k o, alookup k s.aoffers = some o →
    o.conv = k ∧ 0 ≤ o.amount ∧
    ((o.otype = tBid ∧ o.astatus = aLocked) ∨ (o.otype = tCounter ∧ o.astatus = aCounter))

def NonNegBals (s : St) : Prop := ∀ p ∈ s.bals, 0 ≤ p.2

/-- executable forms, for the examples -/
def nodupB {K : Type} [DecidableEq K] : List K → Bool
  | [] => true
  | k :: t => !t.contains k && nodupB t

def wfB (s : St) : Bool :=
  nodupB (akeys s.aoffers) &&
  s.aoffers.all (fun p => p.2.conv == p.1 && decide (0 ≤ p.2.amount) &&
    ((p.2.otype == tBid && p.2.astatus == aLocked) || (p.2.otype == tCounter && p.2.astatus == aCounter)))

def nonNegB (s : St) : Bool := s.bals.all (fun p => decide (0 ≤ p.2))

/-- the conversation `id` has been closed (is in one of the closed stores) -/
def isClosed (s : St) (id : ConvId) : Bool :=
  (alookup (stSucceed, id) s.closed).isSome || (alookup (stRejected, id) s.closed).isSome ||
  (alookup (stCancelled, id) s.closed).isSome || (alookup (stExpired, id) s.closed).isSome

/-- the inactive offers of conversation `id` -/
def ioffersOf (s : St) (id : ConvId) : List (IKey × Offer) := s.ioffers.filter (fun p => p.1.1 == id)

/-- the id under which the operation opens a conversation (BID_CREATE with an empty conversation id) -/
def Op.opensId : Op → Option ConvId
  | .create i _ _ _ _ _ _ _ nid => if i.isEmpty then some nid else none
  | _ => none

/-- the parties and the offer of the deal an acceptance closes -/
def dealOf (s : St) : Op → Option (Conv × Offer)
  | .ownerDecision id _ d =>
    if d = decAccept then
      match alookup id s.active, alookup id s.aoffers with
      | some c, some o => some (c, o)
      | _, _ => none
    else none
  | .bidderDecision id _ d =>
    if d = decAccept then
      match alookup id s.active, alookup id s.aoffers with
      | some c, some o => some (c, o)
      | _, _ => none
    else none
  | _ => none

def ifEq (a b : Addr) (x : Int) : Int := if a = b then x else 0

/-- what the deal of an acceptance moves: the offer amount from the bidder to the owner -/
def transfer (s : St) (op : Op) (a : Addr) : Int :=
  match dealOf s op with
  | some (c, o) => ifEq a c.owner o.amount - ifEq a c.bidder o.amount
  | none => 0

/-- the fee a successful transaction pays -/
def feeOf (env : Env) : Int :=
  match env.fee with
  | .used g => env.feePrice * g
  | _ => 0

/-- the records of conversation `id` are the same in both states -/
def Same (id : ConvId) (s s' : St) : Prop :=
  alookup id s'.active = alookup id s.active ∧ (∀ st, alookup (st, id) s'.closed = alookup (st, id) s.closed) ∧
  (∀ t tm, alookup (id, t, tm) s'.ioffers = alookup (id, t, tm) s.ioffers)

end OLP.Bid

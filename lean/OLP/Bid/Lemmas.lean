/-
  Helper lemmas for the bid model (property theorems are in OLP/Props/C02Bid.lean).
-/
import OLP.Bid.Model

namespace OLP.Bid
open OLP

/-! ## association lists -/

section basic
variable {K V : Type} [DecidableEq K]

theorem akeys_aerase (l : List (K × V)) (k : K) : akeys (aerase l k) = (akeys l).filter (fun x => decide (x ≠ k)) := by
  induction l with
  | nil => rfl
  | cons hd t ih =>
    obtain ⟨k', v⟩ := hd
    by_cases hk : k' = k
    · simp [aerase, akeys, hk] at ih ⊢; exact ih
    · simp [aerase, akeys, hk] at ih ⊢; exact ih

theorem nodup_akeys_aerase (l : List (K × V)) (k : K) (h : (akeys l).Nodup) : (akeys (aerase l k)).Nodup := by
  rw [akeys_aerase]; exact h.filter _

theorem alookup_mem {l : List (K × V)} {k : K} {v : V} (h : alookup k l = some v) : (k, v) ∈ l := by
  induction l with
  | nil => simp [alookup] at h
  | cons hd t ih =>
    obtain ⟨k', v'⟩ := hd
    by_cases hk : k' = k
    · simp [alookup, hk] at h; subst h; subst hk; simp
    · simp [alookup, hk] at h; exact List.mem_cons_of_mem _ (ih h)

theorem mem_upsert {l : List (K × V)} {k : K} {v : V} {p : K × V} (h : p ∈ upsert l k v) : p = (k, v) ∨ p ∈ l := by
  induction l with
  | nil => simp [upsert] at h; exact Or.inl h
  | cons hd t ih =>
    obtain ⟨k', v'⟩ := hd
    by_cases hk : k' = k
    · simp [upsert, hk] at h
      rcases h with h | h
      · exact Or.inl h
      · exact Or.inr (List.mem_cons_of_mem _ h)
    · simp [upsert, hk] at h
      rcases h with h | h
      · exact Or.inr (by rw [h]; exact List.mem_cons_self ..)
      · rcases ih h with h' | h'
        · exact Or.inl h'
        · exact Or.inr (List.mem_cons_of_mem _ h')

end basic

/-! ## balances -/

theorem bal_upsert (b : List (Addr × Int)) (a x : Addr) (v : Int) :
    bal (upsert b a v) x = if x = a then v else bal b x := by
  unfold bal; rw [alookup_upsert]; by_cases h : x = a <;> simp [h]

theorem bal_credit (b : List (Addr × Int)) (a : Addr) (x : Int) (y : Addr) :
    bal (credit b a x) y = bal b y + (if y = a then x else 0) := by
  unfold credit; rw [bal_upsert]; by_cases h : y = a <;> simp [h]

theorem bal_debit {b b1 : List (Addr × Int)} {a : Addr} {x : Int} (h : debit b a x = some b1) (y : Addr) :
    bal b1 y = bal b y - (if y = a then x else 0) := by
  unfold debit at h
  split at h
  · cases h
  · cases h; rw [bal_upsert]; by_cases hy : y = a <;> simp [hy]

theorem sumV_upsert (b : List (Addr × Int)) (a : Addr) (v : Int) : sumV (upsert b a v) = sumV b - bal b a + v := by
  induction b with
  | nil => simp [upsert, sumV, bal, alookup]
  | cons hd t ih =>
    obtain ⟨k', v'⟩ := hd
    by_cases hk : k' = a
    · subst hk; simp [upsert, sumV, bal, alookup]; omega
    · simp [upsert, sumV, hk, bal, alookup] at ih ⊢; omega

theorem sumV_credit (b : List (Addr × Int)) (a : Addr) (x : Int) : sumV (credit b a x) = sumV b + x := by
  unfold credit; rw [sumV_upsert]; omega

theorem sumV_debit {b b1 : List (Addr × Int)} {a : Addr} {x : Int} (h : debit b a x = some b1) : sumV b1 = sumV b - x := by
  unfold debit at h
  split at h
  · cases h
  · cases h; rw [sumV_upsert]; omega

def NonNegL (b : List (Addr × Int)) : Prop := ∀ p ∈ b, 0 ≤ p.2

theorem bal_nonneg {b : List (Addr × Int)} (h : NonNegL b) (a : Addr) : 0 ≤ bal b a := by
  unfold bal
  cases hl : alookup a b with
  | none => simp
  | some v => simpa using h _ (alookup_mem hl)

theorem nonNeg_upsert {b : List (Addr × Int)} (h : NonNegL b) (a : Addr) (v : Int) (hv : 0 ≤ v) : NonNegL (upsert b a v) := by
  intro p hp
  rcases mem_upsert hp with h' | h'
  · rw [h']; exact hv
  · exact h p h'

theorem nonNeg_credit {b : List (Addr × Int)} (h : NonNegL b) (a : Addr) (x : Int) (hx : 0 ≤ x) : NonNegL (credit b a x) := by
  unfold credit
  exact nonNeg_upsert h a _ (by have := bal_nonneg h a; omega)

theorem nonNeg_debit {b b1 : List (Addr × Int)} {a : Addr} {x : Int} (hd : debit b a x = some b1) (h : NonNegL b) : NonNegL b1 := by
  unfold debit at hd
  split at hd
  · cases hd
  · cases hd; exact nonNeg_upsert h a _ (by omega)

/-! ## locked offers -/

def lockedOpt : Option Offer → Int
  | none => 0
  | some o => lockedAmt o

theorem lockedSum_upsert (l : List (ConvId × Offer)) (k : ConvId) (o : Offer) :
    lockedSum (upsert l k o) = lockedSum l - lockedOpt (alookup k l) + lockedAmt o := by
  induction l with
  | nil => simp [upsert, lockedSum, lockedOpt, alookup]
  | cons hd t ih =>
    obtain ⟨k', o'⟩ := hd
    by_cases hk : k' = k
    · subst hk; simp [upsert, lockedSum, lockedOpt, alookup]; omega
    · simp [upsert, lockedSum, hk, alookup] at ih ⊢; omega

theorem lockedSum_of_not_mem (l : List (ConvId × Offer)) (k : ConvId) (h : k ∉ akeys l) : aerase l k = l := by
  induction l with
  | nil => rfl
  | cons hd t ih =>
    obtain ⟨k', o'⟩ := hd
    have h1 : ¬ k' = k := by intro e; apply h; simp [akeys, e]
    have h2 : k ∉ akeys t := by intro m; apply h; simp [akeys] at m ⊢; exact Or.inr m
    simp [aerase, h1, ih h2]

theorem lockedSum_aerase (l : List (ConvId × Offer)) (k : ConvId) (hn : (akeys l).Nodup) :
    lockedSum (aerase l k) = lockedSum l - lockedOpt (alookup k l) := by
  induction l with
  | nil => simp [aerase, lockedSum, lockedOpt, alookup]
  | cons hd t ih =>
    obtain ⟨k', o'⟩ := hd
    have hn' : k' ∉ akeys t ∧ (akeys t).Nodup := by simpa [akeys] using hn
    by_cases hk : k' = k
    · subst hk
      rw [show aerase ((k', o') :: t) k' = aerase t k' from by simp [aerase]]
      rw [lockedSum_of_not_mem t k' hn'.1]
      simp [lockedSum, lockedOpt, alookup]
      omega
    · simp [aerase, lockedSum, hk, alookup, ih hn'.2]; omega

/-! ## the primitives -/

theorem getActive_ok {s : St} {id : ConvId} {c : Conv} (h : getActive s id = .ok c) : alookup id s.active = some c := by
  unfold getActive at h
  split at h
  · cases h
  · split at h
    · cases h
    · rename_i c' hc; cases h; exact hc

theorem getActive_err_of_none {s : St} {id : ConvId} (h : alookup id s.active = none) : ∃ e, getActive s id = .error e := by
  unfold getActive
  split
  · exact ⟨_, rfl⟩
  · rw [h]; exact ⟨_, rfl⟩

theorem getActiveOffer_some {s : St} {id : ConvId} {t : Int} {o : Offer} (h : getActiveOffer s id t = some (some o)) :
    alookup id s.aoffers = some o ∧ (t = tInvalid ∨ o.otype = t) := by
  unfold getActiveOffer at h
  split at h
  · cases h
  · rename_i o' ho
    split at h
    · cases h
    · rename_i hc
      cases h
      refine ⟨ho, ?_⟩
      by_cases ht : t = tInvalid
      · exact Or.inl ht
      · by_cases hot : o.otype = t
        · exact Or.inr hot
        · exact absurd ⟨ht, hot⟩ hc

theorem getActiveOffer_none {s : St} {id : ConvId} {t : Int} (h : getActiveOffer s id t = some none) :
    alookup id s.aoffers = none := by
  unfold getActiveOffer at h
  split at h
  · rename_i hn; exact hn
  · split at h <;> cases h

/-- what `DeactivateOffer` does -/
structure DeactEff (env : Env) (s s1 : St) (deal : Bool) (bidder : Addr) (o : Offer) : Prop where
  kind : o.otype = tBid ∨ o.otype = tCounter
  active : s1.active = s.active
  committed : s1.committed = s.committed
  closed : s1.closed = s.closed
  doms : s1.doms = s.doms
  pool : s1.pool = s.pool
  aoffers : s1.aoffers = aerase s.aoffers o.conv
  bals : s1.bals = if o.otype = tBid ∧ deal = false then credit s.bals bidder o.amount else s.bals
  ioffers : ∃ o1, s1.ioffers = upsert s.ioffers (o.conv, o.otype, o.time) o1 ∧ o1.amount = o.amount ∧ o1.conv = o.conv

theorem deactivate_ok {env : Env} {s s1 : St} {deal : Bool} {bidder : Addr} {o : Offer}
    (h : deactivate env s deal bidder o = .ok s1) : DeactEff env s s1 deal bidder o := by
  unfold deactivate at h
  by_cases h1 : o.otype = tBid
  · simp only [h1, if_true] at h
    cases deal
    · simp at h; subst h
      exact ⟨Or.inl h1, rfl, rfl, rfl, rfl, rfl, rfl, by simp [h1],
        ⟨{ o with astatus := aUnlocked, rejectTime := env.now }, by rw [h1], rfl, rfl⟩⟩
    · simp at h; subst h
      exact ⟨Or.inl h1, rfl, rfl, rfl, rfl, rfl, rfl, by simp,
        ⟨{ o with astatus := aTransferred, acceptTime := env.now }, by rw [h1], rfl, rfl⟩⟩
  · by_cases h2 : o.otype = tCounter
    · simp only [h2, if_true, if_false] at h
      have h1' : ¬ (tCounter = tBid) := by decide
      simp only [h1', if_false] at h
      cases h
      refine ⟨Or.inr h2, rfl, rfl, rfl, rfl, rfl, rfl, by simp [h1], ?_⟩
      cases deal
      · exact ⟨{ o with rejectTime := env.now }, by rw [h2]; rfl, rfl, rfl⟩
      · exact ⟨{ o with acceptTime := env.now }, by rw [h2]; rfl, rfl, rfl⟩
    · simp [h1, h2] at h

theorem exchangeAsset_ok {env : Env} {s s' : St} {c : Conv} (h : exchangeAsset env s c = some s') :
    s'.active = s.active ∧ s'.committed = s.committed ∧ s'.closed = s.closed ∧ s'.aoffers = s.aoffers ∧
    s'.ioffers = s.ioffers ∧ s'.bals = s.bals ∧ s'.pool = s.pool ∧
    (c.atype = assetOns → ∃ d, alookup (nameOf c.asset) s.doms = some d ∧
      alookup (nameOf c.asset) s'.doms = some (Ons.resetAfterSale d c.bidder c.bidder 0 env.version)) ∧
    (c.atype ≠ assetOns → s'.doms = s.doms) := by
  unfold exchangeAsset at h
  by_cases h1 : c.atype = assetOns
  · simp only [h1, if_true] at h
    cases hd : alookup (nameOf c.asset) s.doms with
    | none => simp [hd] at h
    | some d =>
      simp only [hd] at h
      split at h
      · cases h
      · cases h
        refine ⟨rfl, rfl, rfl, rfl, rfl, rfl, rfl, fun _ => ⟨d, rfl, by simp⟩, fun hne => absurd h1 hne⟩
  · simp only [h1, if_false] at h
    split at h
    · cases h; exact ⟨rfl, rfl, rfl, rfl, rfl, rfl, rfl, fun he => absurd he h1, fun _ => rfl⟩
    · cases h

/-! ## inversion of the handlers -/

theorem runExpire_ok {env : Env} {s s' : St} {id : ConvId} (h : runExpire env s id = .ok s') :
    ∃ c o s1, alookup id s.active = some c ∧ alookup id s.aoffers = some o ∧
      deactivate env s false c.bidder o = .ok s1 ∧ s' = closeConv s1 id c stExpired := by
  unfold runExpire at h
  cases hg : getActive s id with
  | error e => simp [hg] at h
  | ok c =>
    simp only [hg] at h
    cases ho : getActiveOffer s id tInvalid with
    | none => simp [ho] at h
    | some oo =>
      cases oo with
      | none => simp [ho] at h
      | some o =>
        simp only [ho] at h
        cases hd : deactivate env s false c.bidder o with
        | error e => simp [hd] at h
        | ok s1 =>
          simp only [hd] at h
          cases h
          exact ⟨c, o, s1, getActive_ok hg, (getActiveOffer_some ho).1, hd, rfl⟩

theorem runCancel_ok {env : Env} {s s' : St} {id : ConvId} {b : Addr} (h : runCancel env s id b = .ok s') :
    ∃ c o s1, alookup id s.active = some c ∧ alookup id s.aoffers = some o ∧ b = c.bidder ∧
      deactivate env s false c.bidder o = .ok s1 ∧ s' = closeConv s1 id c stCancelled := by
  unfold runCancel at h
  cases hg : getActive s id with
  | error e => simp [hg] at h
  | ok c =>
    simp only [hg] at h
    by_cases hb : b ≠ c.bidder
    · simp [hb] at h
    · simp only [hb, if_false] at h
      split at h
      · cases h
      · cases ho : getActiveOffer s id tInvalid with
        | none => simp [ho] at h
        | some oo =>
          cases oo with
          | none => simp [ho] at h
          | some o =>
            simp only [ho] at h
            cases hd : deactivate env s false c.bidder o with
            | error e => simp [hd] at h
            | ok s1 =>
              simp only [hd] at h
              cases h
              exact ⟨c, o, s1, getActive_ok hg, (getActiveOffer_some ho).1, by simpa using hb, hd, rfl⟩

theorem runCounter_ok {env : Env} {s s' : St} {id : ConvId} {owner : Addr} {amount : Int}
    (h : runCounter env s id owner amount = .ok s') :
    ∃ c o s1, alookup id s.active = some c ∧ alookup id s.aoffers = some o ∧ o.otype = tBid ∧ owner = c.owner ∧
      o.amount < amount ∧ deactivate env s false c.bidder o = .ok s1 ∧
      s' = { s1 with aoffers := upsert s1.aoffers id ⟨id, tCounter, env.now, 0, 0, amount, aCounter⟩ } := by
  unfold runCounter at h
  cases hg : getActive s id with
  | error e => simp [hg] at h
  | ok c =>
    simp only [hg] at h
    by_cases hb : owner ≠ c.owner
    · simp [hb] at h
    · simp only [hb, if_false] at h
      split at h
      · cases h
      · split at h
        · cases h
        · cases ho : getActiveOffer s id tBid with
          | none => simp [ho] at h
          | some oo =>
            cases oo with
            | none => simp [ho] at h
            | some o =>
              simp only [ho] at h
              split at h
              · cases h
              · rename_i hlt
                cases hd : deactivate env s false c.bidder o with
                | error e => simp [hd] at h
                | ok s1 =>
                  simp only [hd] at h
                  cases h
                  have hso := getActiveOffer_some ho
                  have hty : o.otype = tBid := by
                    rcases hso.2 with h' | h'
                    · exact absurd h' (by decide)
                    · exact h'
                  exact ⟨c, o, s1, getActive_ok hg, hso.1, hty, by simpa using hb, by omega, hd, rfl⟩

theorem runOwnerDecision_ok {env : Env} {s s' : St} {id : ConvId} {owner : Addr} {d : Int}
    (h : runOwnerDecision env s id owner d = .ok s') :
    ∃ c o, alookup id s.active = some c ∧ alookup id s.aoffers = some o ∧ o.otype = tBid ∧ owner = c.owner ∧
      ((d = decReject ∧ ∃ s1, deactivate env s false c.bidder o = .ok s1 ∧ s' = closeConv s1 id c stRejected) ∨
       (d = decAccept ∧ ∃ s2, deactivate env { s with bals := credit s.bals c.owner o.amount } true c.bidder o = .ok s2 ∧
          exchangeAsset env (closeConv s2 id c stSucceed) c = some s')) := by
  unfold runOwnerDecision at h
  cases hg : getActive s id with
  | error e => simp [hg] at h
  | ok c =>
    simp only [hg] at h
    split at h
    · cases h
    · split at h
      · cases h
      · by_cases hb : owner ≠ c.owner
        · simp [hb] at h
        · simp only [hb, if_false] at h
          cases ho : getActiveOffer s id tBid with
          | none => simp [ho] at h
          | some oo =>
            cases oo with
            | none => simp [ho] at h
            | some o =>
              simp only [ho] at h
              have hso := getActiveOffer_some ho
              have hty : o.otype = tBid := by
                rcases hso.2 with h' | h'
                · exact absurd h' (by decide)
                · exact h'
              split at h
              · cases h
              · rename_i hdec
                by_cases hr : d = decReject
                · simp only [hr, if_true] at h
                  cases hd : deactivate env s false c.bidder o with
                  | error e => simp [hd] at h
                  | ok s1 =>
                    simp only [hd] at h
                    cases h
                    exact ⟨c, o, getActive_ok hg, hso.1, hty, by simpa using hb, Or.inl ⟨hr, s1, hd, rfl⟩⟩
                · simp only [hr, if_false] at h
                  have ha : d = decAccept := by
                    by_cases ha : d = decAccept
                    · exact ha
                    · exact absurd ⟨hr, ha⟩ hdec
                  cases hd : deactivate env { s with bals := credit s.bals c.owner o.amount } true c.bidder o with
                  | error e => simp [hd] at h
                  | ok s2 =>
                    simp only [hd] at h
                    cases hx : exchangeAsset env (closeConv s2 id c stSucceed) c with
                    | none => simp [hx] at h
                    | some s3 =>
                      simp only [hx] at h
                      cases h
                      exact ⟨c, o, getActive_ok hg, hso.1, hty, by simpa using hb, Or.inr ⟨ha, s2, hd, hx⟩⟩

theorem runBidderDecision_ok {env : Env} {s s' : St} {id : ConvId} {bidder : Addr} {d : Int}
    (h : runBidderDecision env s id bidder d = .ok s') :
    ∃ c o, alookup id s.active = some c ∧ alookup id s.aoffers = some o ∧ o.otype = tCounter ∧ bidder = c.bidder ∧
      ((d = decReject ∧ ∃ s1, deactivate env s false c.bidder o = .ok s1 ∧ s' = closeConv s1 id c stRejected) ∨
       (d = decAccept ∧ ∃ b1 s2, debit s.bals bidder o.amount = some b1 ∧
          deactivate env { s with bals := credit b1 c.owner o.amount } true c.bidder o = .ok s2 ∧
          exchangeAsset env (closeConv s2 id c stSucceed) c = some s')) := by
  unfold runBidderDecision at h
  cases hg : getActive s id with
  | error e => simp [hg] at h
  | ok c =>
    simp only [hg] at h
    split at h
    · cases h
    · split at h
      · cases h
      · by_cases hb : bidder ≠ c.bidder
        · simp [hb] at h
        · simp only [hb, if_false] at h
          cases ho : getActiveOffer s id tCounter with
          | none => simp [ho] at h
          | some oo =>
            cases oo with
            | none => simp [ho] at h
            | some o =>
              simp only [ho] at h
              have hso := getActiveOffer_some ho
              have hty : o.otype = tCounter := by
                rcases hso.2 with h' | h'
                · exact absurd h' (by decide)
                · exact h'
              split at h
              · cases h
              · rename_i hdec
                by_cases hr : d = decReject
                · simp only [hr, if_true] at h
                  cases hd : deactivate env s false c.bidder o with
                  | error e => simp [hd] at h
                  | ok s1 =>
                    simp only [hd] at h
                    cases h
                    exact ⟨c, o, getActive_ok hg, hso.1, hty, by simpa using hb, Or.inl ⟨hr, s1, hd, rfl⟩⟩
                · simp only [hr, if_false] at h
                  have ha : d = decAccept := by
                    by_cases ha : d = decAccept
                    · exact ha
                    · exact absurd ⟨hr, ha⟩ hdec
                  cases hdb : debit s.bals bidder o.amount with
                  | none => simp [hdb] at h
                  | some b1 =>
                    simp only [hdb] at h
                    cases hd : deactivate env { s with bals := credit b1 c.owner o.amount } true c.bidder o with
                    | error e => simp [hd] at h
                    | ok s2 =>
                      simp only [hd] at h
                      cases hx : exchangeAsset env (closeConv s2 id c stSucceed) c with
                      | none => simp [hx] at h
                      | some s3 =>
                        simp only [hx] at h
                        cases h
                        exact ⟨c, o, getActive_ok hg, hso.1, hty, by simpa using hb, Or.inr ⟨ha, b1, s2, hdb, hd, hx⟩⟩

theorem createTail_ok {env : Env} {s1 s' : St} {isNew : Bool} {cid : ConvId} {bidder : Addr} {amount : Int}
    (h : createTail env s1 isNew cid bidder amount = .ok s') :
    ∃ c s2 b1, alookup cid s1.active = some c ∧ bidder = c.bidder ∧
      ((alookup cid s1.aoffers = none ∧ s2 = s1) ∨
       (∃ o, alookup cid s1.aoffers = some o ∧ o.otype = tCounter ∧ amount < o.amount ∧
          deactivate env s1 false c.bidder o = .ok s2)) ∧
      debit s2.bals bidder amount = some b1 ∧
      s' = { s2 with bals := b1, aoffers := upsert s2.aoffers cid ⟨cid, tBid, env.now, 0, 0, amount, aLocked⟩ } := by
  unfold createTail at h
  cases hg : getActive s1 cid with
  | error e => simp [hg] at h
  | ok c =>
    simp only [hg] at h
    split at h
    · cases h
    · by_cases hb : bidder ≠ c.bidder
      · simp [hb] at h
      · simp only [hb, if_false] at h
        split at h
        · cases h
        · cases ho : getActiveOffer s1 cid tCounter with
          | none => simp [ho] at h
          | some co =>
            simp only [ho] at h
            split at h
            · cases h
            · cases co with
              | none =>
                simp only [] at h
                cases hdb : debit s1.bals bidder amount with
                | none => simp [hdb] at h
                | some b1 =>
                  simp only [hdb] at h
                  cases h
                  exact ⟨c, s1, b1, getActive_ok hg, by simpa using hb, Or.inl ⟨getActiveOffer_none ho, rfl⟩, hdb, rfl⟩
              | some o =>
                simp only [] at h
                have hso := getActiveOffer_some ho
                have hty : o.otype = tCounter := by
                  rcases hso.2 with h' | h'
                  · exact absurd h' (by decide)
                  · exact h'
                by_cases hle : o.amount ≤ amount
                · simp [hle] at h
                · simp only [hle, if_false] at h
                  cases hd : deactivate env s1 false c.bidder o with
                  | error e => simp [hd] at h
                  | ok s2 =>
                    simp only [hd] at h
                    cases hdb : debit s2.bals bidder amount with
                    | none => simp [hdb] at h
                    | some b1 =>
                      simp only [hdb] at h
                      cases h
                      exact ⟨c, s2, b1, getActive_ok hg, by simpa using hb,
                        Or.inr ⟨o, hso.1, hty, by omega, hd⟩, hdb, rfl⟩

/-! ## well-formedness, value, non-negativity: the primitives -/

/-- `WF` only looks at the active offers -/
def WFo (l : List (ConvId × Offer)) : Prop :=
  (akeys l).Nodup ∧
  ∀ k o, alookup k l = some o →
    o.conv = k ∧ 0 ≤ o.amount ∧
    ((o.otype = tBid ∧ o.astatus = aLocked) ∨ (o.otype = tCounter ∧ o.astatus = aCounter))

theorem wf_iff (s : St) : WF s ↔ WFo s.aoffers := Iff.rfl

theorem wfo_aerase {l : List (ConvId × Offer)} (h : WFo l) (k : ConvId) : WFo (aerase l k) := by
  refine ⟨nodup_akeys_aerase l k h.1, fun k' o ho => ?_⟩
  rw [alookup_aerase] at ho
  split at ho
  · cases ho
  · exact h.2 k' o ho

theorem wfo_upsert {l : List (ConvId × Offer)} (h : WFo l) (k : ConvId) (o : Offer) (hc : o.conv = k) (ha : 0 ≤ o.amount)
    (hk : (o.otype = tBid ∧ o.astatus = aLocked) ∨ (o.otype = tCounter ∧ o.astatus = aCounter)) : WFo (upsert l k o) := by
  refine ⟨nodup_akeys_upsert l k o h.1, fun k' o' ho => ?_⟩
  rw [alookup_upsert] at ho
  split at ho
  · rename_i hk'; cases ho; subst hk'; exact ⟨hc, ha, hk⟩
  · exact h.2 k' o' ho

/-- the three numbers `total` adds up -/
def tot3 (s : St) : Int := sumV s.bals + lockedSum s.aoffers + s.pool

theorem total_eq (s : St) : total s = tot3 s := rfl

theorem lockedAmt_of_bid {o : Offer} (h : o.otype = tBid) : lockedAmt o = o.amount := by simp [lockedAmt, h]
theorem lockedAmt_of_counter {o : Offer} (h : o.otype = tCounter) : lockedAmt o = 0 := by
  have : ¬ (tCounter = tBid) := by decide
  simp [lockedAmt, h, this]

theorem tot3_deact {env : Env} {s s1 : St} {deal : Bool} {bidder : Addr} {o : Offer} (E : DeactEff env s s1 deal bidder o)
    (hw : WFo s.aoffers) (hl : alookup o.conv s.aoffers = some o) :
    tot3 s1 = tot3 s - (if deal = true then lockedAmt o else 0) := by
  unfold tot3
  rw [E.bals, E.aoffers, E.pool, lockedSum_aerase _ _ hw.1, hl]
  simp only [lockedOpt]
  rcases E.kind with hk | hk
  · rw [lockedAmt_of_bid hk]
    cases deal
    · simp [hk, sumV_credit]; omega
    · simp; omega
  · have hnb : ¬ o.otype = tBid := by rw [hk]; decide
    rw [lockedAmt_of_counter hk]
    cases deal <;> simp [hnb]

theorem nonneg_deact {env : Env} {s s1 : St} {deal : Bool} {bidder : Addr} {o : Offer} (E : DeactEff env s s1 deal bidder o)
    (hn : NonNegL s.bals) (ha : 0 ≤ o.amount) : NonNegL s1.bals := by
  rw [E.bals]
  split
  · exact nonNeg_credit hn _ _ ha
  · exact hn

theorem wfo_deact {env : Env} {s s1 : St} {deal : Bool} {bidder : Addr} {o : Offer} (E : DeactEff env s s1 deal bidder o)
    (hw : WFo s.aoffers) : WFo s1.aoffers := by
  rw [E.aoffers]; exact wfo_aerase hw _

theorem alookup_deact_none {env : Env} {s s1 : St} {deal : Bool} {bidder : Addr} {o : Offer}
    (E : DeactEff env s s1 deal bidder o) : alookup o.conv s1.aoffers = none := by
  rw [E.aoffers]; exact alookup_aerase_self _ _

/-- the invariant triple carried through every step -/
structure Keeps (s s' : St) : Prop where
  tot : tot3 s' = tot3 s
  wf : WFo s'.aoffers
  nn : NonNegL s.bals → NonNegL s'.bals

/-- refund and close: cancel, expire, either reject -/
theorem keeps_refundClose {env : Env} {s s1 : St} {id : ConvId} {c : Conv} {o : Offer} {st : Int}
    (hw : WFo s.aoffers) (ho : alookup id s.aoffers = some o) (hd : deactivate env s false c.bidder o = .ok s1) :
    Keeps s (closeConv s1 id c st) := by
  have E := deactivate_ok hd
  have hc := (hw.2 id o ho).1
  have ha := (hw.2 id o ho).2.1
  refine ⟨?_, ?_, fun hn => ?_⟩
  · have := tot3_deact E hw (by rw [hc]; exact ho)
    simpa [tot3, closeConv] using this
  · show WFo s1.aoffers; exact wfo_deact E hw
  · show NonNegL s1.bals; exact nonneg_deact E hn ha

theorem keeps_counter {env : Env} {s s1 : St} {id : ConvId} {c : Conv} {o : Offer} {amount : Int}
    (hw : WFo s.aoffers) (ho : alookup id s.aoffers = some o) (hlt : o.amount < amount)
    (hd : deactivate env s false c.bidder o = .ok s1) :
    Keeps s { s1 with aoffers := upsert s1.aoffers id ⟨id, tCounter, env.now, 0, 0, amount, aCounter⟩ } := by
  have E := deactivate_ok hd
  have hc := (hw.2 id o ho).1
  have ha := (hw.2 id o ho).2.1
  refine ⟨?_, ?_, fun hn => ?_⟩
  · have h1 := tot3_deact E hw (by rw [hc]; exact ho)
    have h2 : alookup id s1.aoffers = none := by rw [← hc]; exact alookup_deact_none E
    have h3 : lockedAmt ⟨id, tCounter, env.now, 0, 0, amount, aCounter⟩ = 0 := lockedAmt_of_counter rfl
    simp only [tot3, lockedSum_upsert, h2, lockedOpt, h3] at h1 ⊢
    simp at h1; omega
  · exact wfo_upsert (wfo_deact E hw) _ _ rfl (by show 0 ≤ amount; omega) (Or.inr ⟨rfl, rfl⟩)
  · show NonNegL s1.bals; exact nonneg_deact E hn ha

theorem keeps_exchange {env : Env} {s s' : St} {c : Conv} (h : exchangeAsset env s c = some s') :
    tot3 s' = tot3 s ∧ s'.aoffers = s.aoffers ∧ s'.bals = s.bals := by
  obtain ⟨_, _, _, h4, _, h6, h7, _⟩ := exchangeAsset_ok h
  exact ⟨by simp [tot3, h4, h6, h7], h4, h6⟩

theorem keeps_ownerAccept {env : Env} {s s2 s' : St} {id : ConvId} {c : Conv} {o : Offer}
    (hw : WFo s.aoffers) (ho : alookup id s.aoffers = some o) (hty : o.otype = tBid)
    (hd : deactivate env { s with bals := credit s.bals c.owner o.amount } true c.bidder o = .ok s2)
    (hx : exchangeAsset env (closeConv s2 id c stSucceed) c = some s') : Keeps s s' := by
  have E := deactivate_ok hd
  have hc := (hw.2 id o ho).1
  have ha := (hw.2 id o ho).2.1
  obtain ⟨ht, hao, hb⟩ := keeps_exchange hx
  refine ⟨?_, ?_, fun hn => ?_⟩
  · have h1 := tot3_deact E hw (by rw [hc]; exact ho)
    rw [ht]
    simp only [tot3, closeConv, sumV_credit, lockedAmt_of_bid hty] at h1 ⊢
    simp at h1; omega
  · rw [hao]; show WFo s2.aoffers; exact wfo_deact E hw
  · rw [hb]; show NonNegL s2.bals
    exact nonneg_deact (s := { s with bals := credit s.bals c.owner o.amount }) E (nonNeg_credit hn _ _ ha) ha

theorem keeps_bidderAccept {env : Env} {s s2 s' : St} {id : ConvId} {c : Conv} {o : Offer} {bidder : Addr} {b1 : List (Addr × Int)}
    (hw : WFo s.aoffers) (ho : alookup id s.aoffers = some o) (hty : o.otype = tCounter)
    (hdb : debit s.bals bidder o.amount = some b1)
    (hd : deactivate env { s with bals := credit b1 c.owner o.amount } true c.bidder o = .ok s2)
    (hx : exchangeAsset env (closeConv s2 id c stSucceed) c = some s') : Keeps s s' := by
  have E := deactivate_ok hd
  have hc := (hw.2 id o ho).1
  have ha := (hw.2 id o ho).2.1
  obtain ⟨ht, hao, hb⟩ := keeps_exchange hx
  refine ⟨?_, ?_, fun hn => ?_⟩
  · have h1 := tot3_deact E hw (by rw [hc]; exact ho)
    rw [ht]
    simp only [tot3, closeConv, sumV_credit, sumV_debit hdb, lockedAmt_of_counter hty] at h1 ⊢
    simp at h1; omega
  · rw [hao]; show WFo s2.aoffers; exact wfo_deact E hw
  · rw [hb]; show NonNegL s2.bals
    exact nonneg_deact (s := { s with bals := credit b1 c.owner o.amount }) E (nonNeg_credit (nonNeg_debit hdb hn) _ _ ha) ha

theorem keeps_createTail {env : Env} {s1 s' : St} {isNew : Bool} {cid : ConvId} {bidder : Addr} {amount : Int}
    (hw : WFo s1.aoffers) (ham : 0 ≤ amount) (h : createTail env s1 isNew cid bidder amount = .ok s') : Keeps s1 s' := by
  obtain ⟨c, s2, b1, _, _, hoff, hdb, rfl⟩ := createTail_ok h
  have hL : lockedAmt ⟨cid, tBid, env.now, 0, 0, amount, aLocked⟩ = amount := lockedAmt_of_bid rfl
  rcases hoff with ⟨hnone, rfl⟩ | ⟨o, ho, hty, _, hd⟩
  · refine ⟨?_, ?_, fun hn => nonNeg_debit hdb hn⟩
    · simp only [tot3, lockedSum_upsert, hnone, lockedOpt, hL, sumV_debit hdb]; omega
    · exact wfo_upsert hw _ _ rfl ham (Or.inl ⟨rfl, rfl⟩)
  · have E := deactivate_ok hd
    have hc := (hw.2 cid o ho).1
    have ha := (hw.2 cid o ho).2.1
    have h1 := tot3_deact E hw (by rw [hc]; exact ho)
    have h2 : alookup cid s2.aoffers = none := by rw [← hc]; exact alookup_deact_none E
    refine ⟨?_, ?_, fun hn => nonNeg_debit hdb (nonneg_deact E hn ha)⟩
    · simp only [tot3, lockedSum_upsert, h2, lockedOpt, hL, sumV_debit hdb] at h1 ⊢
      simp at h1; omega
    · exact wfo_upsert (wfo_deact E hw) _ _ rfl ham (Or.inl ⟨rfl, rfl⟩)

theorem keeps_refl (s : St) (hw : WFo s.aoffers) : Keeps s s := ⟨rfl, hw, id⟩

theorem keeps_trans {a b c : St} (h1 : Keeps a b) (h2 : Keeps b c) : Keeps a c :=
  ⟨h2.tot.trans h1.tot, h2.wf, fun hn => h2.nn (h1.nn hn)⟩

theorem keeps_runExpire {env : Env} {s s' : St} {id : ConvId} (hw : WFo s.aoffers) (h : runExpire env s id = .ok s') :
    Keeps s s' := by
  obtain ⟨c, o, s1, _, ho, hd, rfl⟩ := runExpire_ok h
  exact keeps_refundClose hw ho hd

theorem keeps_runHook {env : Env} (ids : List ConvId) {s : St} (hw : WFo s.aoffers) : Keeps s (runHook env s ids) := by
  induction ids generalizing s with
  | nil => exact keeps_refl s hw
  | cons id t ih =>
    unfold runHook
    cases h : runExpire env s id with
    | error e => exact ih hw
    | ok s1 =>
      have k1 := keeps_runExpire hw h
      exact keeps_trans k1 (ih k1.wf)

/-- a create that executes carries a non-negative amount (`Validate`) -/
def Op.amountOk : Op → Prop
  | .create _ _ _ _ _ am _ _ _ => 0 ≤ am
  | _ => True

theorem keeps_handler {env : Env} {s s' : St} {op : Op} (hw : WFo s.aoffers) (hv : op.amountOk)
    (h : handler env s op = .ok s') : Keeps s s' := by
  cases op with
  | create id o a t b am cur dl nid =>
    simp only [handler] at h
    unfold runCreate at h
    split at h
    · split at h
      · cases h
      · split at h
        · cases h
        · split at h
          · cases h
          · have k := keeps_createTail (s1 := { s with active := upsert s.active nid ⟨o, a, t, b, dl⟩ }) hw hv h
            exact ⟨k.tot, k.wf, k.nn⟩
    · exact keeps_createTail hw hv h
  | counter id o am cur =>
    simp only [handler] at h
    obtain ⟨c, of, s1, _, ho, _, _, hlt, hd, rfl⟩ := runCounter_ok h
    exact keeps_counter hw ho hlt hd
  | cancel id b =>
    simp only [handler] at h
    obtain ⟨c, o, s1, _, ho, _, hd, rfl⟩ := runCancel_ok h
    exact keeps_refundClose hw ho hd
  | bidderDecision id b d =>
    simp only [handler] at h
    obtain ⟨c, o, _, ho, hty, _, hcase⟩ := runBidderDecision_ok h
    rcases hcase with ⟨_, s1, hd, rfl⟩ | ⟨_, b1, s2, hdb, hd, hx⟩
    · exact keeps_refundClose hw ho hd
    · exact keeps_bidderAccept hw ho hty hdb hd hx
  | expire id v =>
    simp only [handler] at h
    exact keeps_runExpire hw h
  | ownerDecision id o d =>
    simp only [handler] at h
    obtain ⟨c, of, _, ho, hty, _, hcase⟩ := runOwnerDecision_ok h
    rcases hcase with ⟨_, s1, hd, rfl⟩ | ⟨_, s2, hd, hx⟩
    · exact keeps_refundClose hw ho hd
    · exact keeps_ownerAccept hw ho hty hd hx
  | hook ids =>
    simp only [handler] at h
    cases h
    exact keeps_runHook ids hw
  | commit =>
    simp only [handler] at h
    cases h
    exact ⟨rfl, hw, id⟩

/-! ## the step -/

theorem feeStep_ok {env : Env} {s s' : St} (h : feeStep env s = .ok s') :
    ∃ b1, debit s.bals env.payer (feeOf env) = some b1 ∧ s' = { s with bals := b1, pool := s.pool + feeOf env } := by
  unfold feeStep at h
  unfold feeOf
  cases hf : env.fee with
  | gasOverflow => simp [hf] at h
  | noFunds => simp [hf] at h
  | used g =>
    simp only [hf] at h ⊢
    cases hd : debit s.bals env.payer (env.feePrice * g) with
    | none => simp [hd] at h
    | some b1 => simp only [hd] at h; cases h; exact ⟨b1, rfl, rfl⟩

theorem keeps_feeStep {env : Env} {s s' : St} (hw : WFo s.aoffers) (h : feeStep env s = .ok s') : Keeps s s' := by
  obtain ⟨b1, hd, rfl⟩ := feeStep_ok h
  refine ⟨?_, hw, fun hn => nonNeg_debit hd hn⟩
  simp only [tot3, sumV_debit hd]; omega

theorem validate_amountOk {env : Env} {op : Op} (h : validate env op = .ok ()) : op.amountOk := by
  cases op with
  | create id o a t b am cur dl nid =>
    unfold validate at h
    simp only [Op.signer] at h
    split at h
    · cases h
    · split at h
      · cases h
      · split at h
        · cases h
        · simp only [validateKind] at h
          by_cases hc : cur ≠ olt
          · simp [hc] at h
          · simp only [hc, if_false] at h
            by_cases hneg : am < 0
            · simp [hneg] at h
            · show 0 ≤ am; omega
  | _ => trivial

/-- the shape of a step: a failure changes nothing, a success is handler + fee step -/
theorem step_cases (env : Env) (s : St) (op : Op) :
    ((step env s op).1 ≠ .ok ∧ (step env s op).2 = s) ∨
    (validate env op = .ok () ∧ ∃ s1, handler env s op = .ok s1 ∧
      ((op.isTx = false ∧ step env s op = (.ok, s1)) ∨
       (op.isTx = true ∧ ∃ s2, feeStep env s1 = .ok s2 ∧ step env s op = (.ok, s2)))) := by
  unfold step
  cases hv : validate env op with
  | error e => exact Or.inl ⟨by simp, rfl⟩
  | ok u =>
    cases hh : handler env s op with
    | error e => exact Or.inl ⟨by simp, rfl⟩
    | ok s1 =>
      cases ht : op.isTx with
      | false => exact Or.inr ⟨rfl, s1, rfl, Or.inl ⟨rfl, by simp⟩⟩
      | true =>
        cases hf : feeStep env s1 with
        | error e => exact Or.inl ⟨by simp [hf], by simp [hf]⟩
        | ok s2 => exact Or.inr ⟨rfl, s1, rfl, Or.inr ⟨rfl, s2, hf, by simp [hf]⟩⟩

theorem step_fail {env : Env} {s : St} {op : Op} (h : (step env s op).1 ≠ .ok) : (step env s op).2 = s := by
  rcases step_cases env s op with ⟨_, h2⟩ | ⟨_, s1, _, ⟨_, h2⟩ | ⟨_, s2, _, h2⟩⟩
  · exact h2
  · rw [h2] at h; exact absurd rfl h
  · rw [h2] at h; exact absurd rfl h

theorem keeps_step (env : Env) (s : St) (op : Op) (hw : WFo s.aoffers) : Keeps s (step env s op).2 := by
  rcases step_cases env s op with ⟨_, h2⟩ | ⟨hv, s1, hh, ⟨_, h2⟩ | ⟨_, s2, hf, h2⟩⟩
  · rw [h2]; exact keeps_refl s hw
  · rw [h2]; exact keeps_handler hw (validate_amountOk hv) hh
  · rw [h2]
    have k1 := keeps_handler hw (validate_amountOk hv) hh
    exact keeps_trans k1 (keeps_feeStep k1.wf hf)

theorem keeps_run (evs : List (Env × Op)) {s : St} (hw : WFo s.aoffers) : Keeps s (run s evs) := by
  induction evs generalizing s with
  | nil => exact keeps_refl s hw
  | cons p t ih =>
    have k1 := keeps_step p.1 s p.2 hw
    exact keeps_trans k1 (ih k1.wf)

/-! ## holdings: the locked offers of an account -/

/-- what the offer `o` stored under `k` adds to the locked offers of `a` -/
def contrib (act : List (ConvId × Conv)) (a : Addr) (k : ConvId) (o : Offer) : Int :=
  match alookup k act with
  | some c => if c.bidder = a then lockedAmt o else 0
  | none => 0

def contribOpt (act : List (ConvId × Conv)) (a : Addr) (k : ConvId) : Option Offer → Int
  | none => 0
  | some o => contrib act a k o

theorem lockedOf_cons (act : List (ConvId × Conv)) (a : Addr) (k : ConvId) (o : Offer) (t : List (ConvId × Offer)) :
    lockedOf act a ((k, o) :: t) = contrib act a k o + lockedOf act a t := rfl

theorem lockedOf_upsert (act : List (ConvId × Conv)) (a : Addr) (l : List (ConvId × Offer)) (k : ConvId) (o : Offer) :
    lockedOf act a (upsert l k o) = lockedOf act a l - contribOpt act a k (alookup k l) + contrib act a k o := by
  induction l with
  | nil => simp [upsert, lockedOf_cons, lockedOf, contribOpt, alookup]
  | cons hd t ih =>
    obtain ⟨k', o'⟩ := hd
    by_cases hk : k' = k
    · subst hk; simp [upsert, lockedOf_cons, contribOpt, alookup]; omega
    · simp [upsert, lockedOf_cons, hk, alookup] at ih ⊢; omega

theorem lockedOf_aerase (act : List (ConvId × Conv)) (a : Addr) (l : List (ConvId × Offer)) (k : ConvId)
    (hn : (akeys l).Nodup) :
    lockedOf act a (aerase l k) = lockedOf act a l - contribOpt act a k (alookup k l) := by
  induction l with
  | nil => simp [aerase, lockedOf, contribOpt, alookup]
  | cons hd t ih =>
    obtain ⟨k', o'⟩ := hd
    have hn' : k' ∉ akeys t ∧ (akeys t).Nodup := by simpa [akeys] using hn
    by_cases hk : k' = k
    · subst hk
      rw [show aerase ((k', o') :: t) k' = aerase t k' from by simp [aerase]]
      rw [lockedSum_of_not_mem t k' hn'.1]
      simp [lockedOf_cons, contribOpt, alookup]
      omega
    · simp [aerase, lockedOf_cons, hk, alookup, ih hn'.2]; omega

/-- changing the conversation records does not matter where no locked amount sits -/
theorem lockedOf_congr (act act' : List (ConvId × Conv)) (a : Addr) (l : List (ConvId × Offer))
    (h : ∀ p ∈ l, alookup p.1 act' = alookup p.1 act ∨ lockedAmt p.2 = 0) : lockedOf act' a l = lockedOf act a l := by
  induction l with
  | nil => rfl
  | cons hd t ih =>
    obtain ⟨k, o⟩ := hd
    rw [lockedOf_cons, lockedOf_cons, ih (fun p hp => h p (List.mem_cons_of_mem _ hp))]
    have := h (k, o) (List.mem_cons_self ..)
    rcases this with h1 | h1
    · simp only [contrib]; simp only [] at h1; rw [h1]
    · simp only [] at h1
      simp only [contrib, h1]
      cases alookup k act' <;> cases alookup k act <;> simp

theorem mem_alookup_of_nodup {l : List (ConvId × Offer)} (hn : (akeys l).Nodup) {p : ConvId × Offer} (hp : p ∈ l) :
    alookup p.1 l = some p.2 := by
  induction l with
  | nil => cases hp
  | cons hd t ih =>
    obtain ⟨k, o⟩ := hd
    have hn' : k ∉ akeys t ∧ (akeys t).Nodup := by simpa [akeys] using hn
    rcases List.mem_cons.mp hp with h | h
    · subst h; simp [alookup]
    · have hne : ¬ k = p.1 := by
        intro e; apply hn'.1; rw [e]; exact List.mem_map.mpr ⟨p, h, rfl⟩
      simp [alookup, hne, ih hn'.2 h]

/-- erasing (or rewriting) the conversation `k` does not matter when no locked offer sits under `k` -/
theorem lockedOf_act_change (act act' : List (ConvId × Conv)) (a : Addr) (l : List (ConvId × Offer)) (k : ConvId)
    (hn : (akeys l).Nodup) (hact : ∀ k', k' ≠ k → alookup k' act' = alookup k' act)
    (hk : lockedOpt (alookup k l) = 0) : lockedOf act' a l = lockedOf act a l := by
  apply lockedOf_congr
  intro p hp
  by_cases hpk : p.1 = k
  · right
    have := mem_alookup_of_nodup hn hp
    rw [hpk] at this
    rw [this] at hk
    exact hk
  · left; exact hact p.1 hpk

/-- the two equations a successful step satisfies for every account -/
structure Moves (s s' : St) (dBal dLock : Addr → Int) : Prop where
  bal : ∀ a, bal s'.bals a = bal s.bals a + dBal a
  lock : ∀ a, lockedOf s'.active a s'.aoffers = lockedOf s.active a s.aoffers + dLock a

theorem bals_deact {env : Env} {s s1 : St} {deal : Bool} {bidder : Addr} {o : Offer} (E : DeactEff env s s1 deal bidder o)
    (a : Addr) : bal s1.bals a = bal s.bals a + (if deal = true then 0 else ifEq a bidder (lockedAmt o)) := by
  rw [E.bals]
  rcases E.kind with hk | hk
  · rw [lockedAmt_of_bid hk]
    cases deal
    · simp [hk, bal_credit, ifEq]
    · simp
  · have hnb : ¬ o.otype = tBid := by rw [hk]; decide
    rw [lockedAmt_of_counter hk]
    cases deal <;> simp [hnb, ifEq]

theorem moves_refundClose {env : Env} {s s1 : St} {id : ConvId} {c : Conv} {o : Offer} {st : Int}
    (hw : WFo s.aoffers) (hc : alookup id s.active = some c) (ho : alookup id s.aoffers = some o)
    (hd : deactivate env s false c.bidder o = .ok s1) :
    Moves s (closeConv s1 id c st) (fun a => ifEq a c.bidder (lockedAmt o)) (fun a => - ifEq a c.bidder (lockedAmt o)) := by
  have E := deactivate_ok hd
  have hoc := (hw.2 id o ho).1
  refine ⟨fun a => ?_, fun a => ?_⟩
  · show bal s1.bals a = _
    rw [bals_deact E a]; simp
  · show lockedOf (aerase s1.active id) a s1.aoffers = _
    have hnd : (akeys s1.aoffers).Nodup := (wfo_deact E hw).1
    have hnone : alookup id s1.aoffers = none := by rw [← hoc]; exact alookup_deact_none E
    rw [lockedOf_act_change s1.active (aerase s1.active id) a s1.aoffers id hnd
      (fun k' hk' => alookup_aerase_ne _ _ _ hk') (by rw [hnone]; rfl)]
    rw [E.aoffers, E.active, hoc, lockedOf_aerase _ _ _ _ hw.1, ho]
    simp only [contribOpt, contrib, hc, ifEq]
    by_cases hb : a = c.bidder
    · subst hb; simp; omega
    · have : ¬ c.bidder = a := fun e => hb e.symm
      simp [hb, this]

theorem moves_counter {env : Env} {s s1 : St} {id : ConvId} {c : Conv} {o : Offer} {amount : Int}
    (hw : WFo s.aoffers) (hc : alookup id s.active = some c) (ho : alookup id s.aoffers = some o)
    (hd : deactivate env s false c.bidder o = .ok s1) :
    Moves s { s1 with aoffers := upsert s1.aoffers id ⟨id, tCounter, env.now, 0, 0, amount, aCounter⟩ }
      (fun a => ifEq a c.bidder (lockedAmt o)) (fun a => - ifEq a c.bidder (lockedAmt o)) := by
  have E := deactivate_ok hd
  have hoc := (hw.2 id o ho).1
  refine ⟨fun a => ?_, fun a => ?_⟩
  · show bal s1.bals a = _
    rw [bals_deact E a]; simp
  · show lockedOf s1.active a (upsert s1.aoffers id _) = _
    have hnone : alookup id s1.aoffers = none := by rw [← hoc]; exact alookup_deact_none E
    rw [lockedOf_upsert, hnone, E.aoffers, E.active, hoc, lockedOf_aerase _ _ _ _ hw.1, ho]
    have h3 : lockedAmt ⟨id, tCounter, env.now, 0, 0, amount, aCounter⟩ = 0 := lockedAmt_of_counter rfl
    simp only [contribOpt, contrib, hc, ifEq, h3]
    by_cases hb : a = c.bidder
    · subst hb; simp; omega
    · have : ¬ c.bidder = a := fun e => hb e.symm
      simp [hb, this]

theorem moves_exchange {env : Env} {s s' : St} {c : Conv} (h : exchangeAsset env s c = some s') {d1 d2 : Addr → Int}
    {s0 : St} (m : Moves s0 s d1 d2) : Moves s0 s' d1 d2 := by
  obtain ⟨h1, _, _, h4, _, h6, _, _⟩ := exchangeAsset_ok h
  exact ⟨fun a => by rw [h6]; exact m.bal a, fun a => by rw [h1, h4]; exact m.lock a⟩

theorem moves_acceptCore {env : Env} {s s0 s2 : St} {id : ConvId} {c : Conv} {o : Offer} (b0 : List (Addr × Int))
    (hs0 : s0 = { s with bals := b0 })
    (hw : WFo s.aoffers) (hc : alookup id s.active = some c) (ho : alookup id s.aoffers = some o)
    (hd : deactivate env s0 true c.bidder o = .ok s2) :
    (∀ a, bal s2.bals a = bal b0 a) ∧
    ∀ a, lockedOf (aerase s2.active id) a s2.aoffers = lockedOf s.active a s.aoffers - ifEq a c.bidder (lockedAmt o) := by
  have E := deactivate_ok hd
  have hoc := (hw.2 id o ho).1
  subst hs0
  refine ⟨fun a => ?_, fun a => ?_⟩
  · rw [bals_deact E a]; simp
  · have hnd : (akeys s2.aoffers).Nodup := (wfo_deact (s := { s with bals := b0 }) E hw).1
    have hnone : alookup id s2.aoffers = none := by rw [← hoc]; exact alookup_deact_none E
    rw [lockedOf_act_change s2.active (aerase s2.active id) a s2.aoffers id hnd
      (fun k' hk' => alookup_aerase_ne _ _ _ hk') (by rw [hnone]; rfl)]
    rw [E.aoffers, E.active, hoc]
    show lockedOf s.active a (aerase s.aoffers id) = _
    rw [lockedOf_aerase _ _ _ _ hw.1, ho]
    simp only [contribOpt, contrib, hc, ifEq]
    by_cases hb : a = c.bidder
    · subst hb; simp
    · have : ¬ c.bidder = a := fun e => hb e.symm
      simp [hb, this]

theorem moves_ownerAccept {env : Env} {s s2 s' : St} {id : ConvId} {c : Conv} {o : Offer}
    (hw : WFo s.aoffers) (hc : alookup id s.active = some c) (ho : alookup id s.aoffers = some o) (hty : o.otype = tBid)
    (hd : deactivate env { s with bals := credit s.bals c.owner o.amount } true c.bidder o = .ok s2)
    (hx : exchangeAsset env (closeConv s2 id c stSucceed) c = some s') :
    Moves s s' (fun a => ifEq a c.owner o.amount) (fun a => - ifEq a c.bidder o.amount) := by
  obtain ⟨hb, hl⟩ := moves_acceptCore (s := s) _ rfl hw hc ho hd
  apply moves_exchange hx
  refine ⟨fun a => ?_, fun a => ?_⟩
  · show bal s2.bals a = _
    rw [hb a, bal_credit]; rfl
  · show lockedOf (aerase s2.active id) a s2.aoffers = _
    rw [hl a, lockedAmt_of_bid hty]; omega

theorem moves_bidderAccept {env : Env} {s s2 s' : St} {id : ConvId} {c : Conv} {o : Offer} {bidder : Addr} {b1 : List (Addr × Int)}
    (hw : WFo s.aoffers) (hc : alookup id s.active = some c) (ho : alookup id s.aoffers = some o) (hty : o.otype = tCounter)
    (hdb : debit s.bals bidder o.amount = some b1)
    (hd : deactivate env { s with bals := credit b1 c.owner o.amount } true c.bidder o = .ok s2)
    (hx : exchangeAsset env (closeConv s2 id c stSucceed) c = some s') :
    Moves s s' (fun a => ifEq a c.owner o.amount - ifEq a bidder o.amount) (fun _ => 0) := by
  obtain ⟨hb, hl⟩ := moves_acceptCore (s := s) _ rfl hw hc ho hd
  apply moves_exchange hx
  refine ⟨fun a => ?_, fun a => ?_⟩
  · show bal s2.bals a = _
    rw [hb a, bal_credit, bal_debit hdb]; simp only [ifEq]; omega
  · show lockedOf (aerase s2.active id) a s2.aoffers = _
    rw [hl a, lockedAmt_of_counter hty]; simp [ifEq]

theorem moves_createTail {env : Env} {s1 s' : St} {isNew : Bool} {cid : ConvId} {bidder : Addr} {amount : Int}
    (hw : WFo s1.aoffers) (h : createTail env s1 isNew cid bidder amount = .ok s') :
    Moves s1 s' (fun a => - ifEq a bidder amount) (fun a => ifEq a bidder amount) := by
  obtain ⟨c, s2, b1, hc, hbid, hoff, hdb, rfl⟩ := createTail_ok h
  have hL : lockedAmt ⟨cid, tBid, env.now, 0, 0, amount, aLocked⟩ = amount := lockedAmt_of_bid rfl
  rcases hoff with ⟨hnone, rfl⟩ | ⟨o, ho, hty, _, hd⟩
  · refine ⟨fun a => ?_, fun a => ?_⟩
    · show bal b1 a = _
      rw [bal_debit hdb]; simp only [ifEq]; omega
    · show lockedOf s2.active a (upsert s2.aoffers cid _) = _
      rw [lockedOf_upsert, hnone]
      simp only [contribOpt, contrib, hc, hL, ifEq, hbid]
      by_cases hb : a = c.bidder
      · subst hb; simp
      · have : ¬ c.bidder = a := fun e => hb e.symm
        simp [hb, this]
  · have E := deactivate_ok hd
    have hoc := (hw.2 cid o ho).1
    have h2 : alookup cid s2.aoffers = none := by rw [← hoc]; exact alookup_deact_none E
    refine ⟨fun a => ?_, fun a => ?_⟩
    · show bal b1 a = _
      rw [bal_debit hdb, bals_deact E a, lockedAmt_of_counter hty]; simp only [ifEq]; simp; omega
    · show lockedOf s2.active a (upsert s2.aoffers cid _) = _
      rw [lockedOf_upsert, h2, E.aoffers, E.active, hoc, lockedOf_aerase _ _ _ _ hw.1, ho]
      simp only [contribOpt, contrib, hc, hL, ifEq, hbid, lockedAmt_of_counter hty]
      by_cases hb : a = c.bidder
      · subst hb; simp
      · have : ¬ c.bidder = a := fun e => hb e.symm
        simp [hb, this]

theorem moves_refl (s : St) : Moves s s (fun _ => 0) (fun _ => 0) := ⟨fun _ => by simp, fun _ => by simp⟩

theorem moves_trans {a b c : St} {d1 d2 e1 e2 : Addr → Int} (h1 : Moves a b d1 d2) (h2 : Moves b c e1 e2) :
    Moves a c (fun x => d1 x + e1 x) (fun x => d2 x + e2 x) :=
  ⟨fun x => by rw [h2.bal, h1.bal]; omega, fun x => by rw [h2.lock, h1.lock]; omega⟩

/-- every account's holdings are what they were (the shape of all steps but the two acceptances) -/
def SameHoldings (s s' : St) : Prop := ∀ a, holdings s' a = holdings s a

theorem sameHoldings_of_moves {s s' : St} {d1 d2 : Addr → Int} (m : Moves s s' d1 d2) (h : ∀ a, d1 a + d2 a = 0) :
    SameHoldings s s' := by
  intro a; unfold holdings; rw [m.bal, m.lock]; have := h a; omega

theorem sameHoldings_runExpire {env : Env} {s s' : St} {id : ConvId} (hw : WFo s.aoffers) (h : runExpire env s id = .ok s') :
    SameHoldings s s' := by
  obtain ⟨c, o, s1, hc, ho, hd, rfl⟩ := runExpire_ok h
  exact sameHoldings_of_moves (moves_refundClose hw hc ho hd) (fun a => by omega)

theorem sameHoldings_runHook {env : Env} (ids : List ConvId) {s : St} (hw : WFo s.aoffers) :
    SameHoldings s (runHook env s ids) := by
  induction ids generalizing s with
  | nil => intro a; rfl
  | cons id t ih =>
    unfold runHook
    cases h : runExpire env s id with
    | error e => exact ih hw
    | ok s1 =>
      have k1 := keeps_runExpire hw h
      intro a
      rw [ih k1.wf a, sameHoldings_runExpire hw h a]

/-! ## holdings of a whole handler -/

theorem dec_ne : decReject ≠ decAccept := by decide

theorem sameHoldings_open {s : St} {nid : ConvId} {cv : Conv} (hw : WFo s.aoffers)
    (hk : lockedOpt (alookup nid s.aoffers) = 0) :
    SameHoldings s { s with active := upsert s.active nid cv } := by
  intro a
  unfold holdings
  show bal s.bals a + lockedOf (upsert s.active nid cv) a s.aoffers = _
  rw [lockedOf_act_change s.active (upsert s.active nid cv) a s.aoffers nid hw.1
    (fun k' hk' => alookup_upsert_ne _ _ _ _ hk') hk]

theorem createTail_lockedOpt {env : Env} {s1 s' : St} {isNew : Bool} {cid : ConvId} {bidder : Addr} {amount : Int}
    (h : createTail env s1 isNew cid bidder amount = .ok s') : lockedOpt (alookup cid s1.aoffers) = 0 := by
  obtain ⟨c, s2, b1, _, _, hoff, _, _⟩ := createTail_ok h
  rcases hoff with ⟨hnone, _⟩ | ⟨o, ho, hty, _, _⟩
  · rw [hnone]; rfl
  · rw [ho]; exact lockedAmt_of_counter hty

theorem handler_holdings {env : Env} {s s' : St} {op : Op} (hw : WFo s.aoffers) (h : handler env s op = .ok s') (a : Addr) :
    holdings s' a = holdings s a + transfer s op a := by
  cases op with
  | create id o as t b am cur dl nid =>
    simp only [handler] at h
    have ht : transfer s (.create id o as t b am cur dl nid) a = 0 := rfl
    rw [ht]
    unfold runCreate at h
    split at h
    · split at h
      · cases h
      · split at h
        · cases h
        · split at h
          · cases h
          · have m := moves_createTail (s1 := { s with active := upsert s.active nid ⟨o, as, t, b, dl⟩ }) hw h
            have h1 := sameHoldings_of_moves m (fun a => by omega) a
            have h3 : lockedOpt (alookup nid s.aoffers) = 0 :=
              createTail_lockedOpt (s1 := { s with active := upsert s.active nid ⟨o, as, t, b, dl⟩ }) h
            have h2 := sameHoldings_open (cv := ⟨o, as, t, b, dl⟩) hw h3 a
            rw [h1, h2]; omega
    · have := sameHoldings_of_moves (moves_createTail hw h) (fun a => by omega) a
      rw [this]; omega
  | counter id o am cur =>
    simp only [handler] at h
    have ht : transfer s (.counter id o am cur) a = 0 := rfl
    obtain ⟨c, of, s1, hc, ho, _, _, _, hd, rfl⟩ := runCounter_ok h
    rw [ht, sameHoldings_of_moves (moves_counter hw hc ho hd) (fun a => by omega) a]; omega
  | cancel id b =>
    simp only [handler] at h
    have ht : transfer s (.cancel id b) a = 0 := rfl
    obtain ⟨c, o, s1, hc, ho, _, hd, rfl⟩ := runCancel_ok h
    rw [ht, sameHoldings_of_moves (moves_refundClose hw hc ho hd) (fun a => by omega) a]; omega
  | bidderDecision id b d =>
    simp only [handler] at h
    obtain ⟨c, o, hc, ho, hty, hb, hcase⟩ := runBidderDecision_ok h
    rcases hcase with ⟨hdd, s1, hd, rfl⟩ | ⟨hdd, b1, s2, hdb, hd, hx⟩
    · have ht : transfer s (.bidderDecision id b d) a = 0 := by
        simp [transfer, dealOf, hdd, dec_ne]
      rw [ht, sameHoldings_of_moves (moves_refundClose hw hc ho hd) (fun a => by omega) a]; omega
    · have ht : transfer s (.bidderDecision id b d) a = ifEq a c.owner o.amount - ifEq a c.bidder o.amount := by
        simp [transfer, dealOf, hdd, hc, ho]
      have m := moves_bidderAccept hw hc ho hty hdb hd hx
      unfold holdings
      rw [ht, m.bal, m.lock, hb]; omega
  | expire id v =>
    simp only [handler] at h
    have ht : transfer s (.expire id v) a = 0 := rfl
    rw [ht, sameHoldings_runExpire hw h a]; omega
  | ownerDecision id ow d =>
    simp only [handler] at h
    obtain ⟨c, o, hc, ho, hty, _, hcase⟩ := runOwnerDecision_ok h
    rcases hcase with ⟨hdd, s1, hd, rfl⟩ | ⟨hdd, s2, hd, hx⟩
    · have ht : transfer s (.ownerDecision id ow d) a = 0 := by
        simp [transfer, dealOf, hdd, dec_ne]
      rw [ht, sameHoldings_of_moves (moves_refundClose hw hc ho hd) (fun a => by omega) a]; omega
    · have ht : transfer s (.ownerDecision id ow d) a = ifEq a c.owner o.amount - ifEq a c.bidder o.amount := by
        simp [transfer, dealOf, hdd, hc, ho]
      have m := moves_ownerAccept hw hc ho hty hd hx
      unfold holdings
      rw [ht, m.bal, m.lock]; omega
  | hook ids =>
    simp only [handler] at h
    cases h
    have ht : transfer s (.hook ids) a = 0 := rfl
    rw [ht, sameHoldings_runHook ids hw a]; omega
  | commit =>
    simp only [handler] at h
    cases h
    have ht : transfer s .commit a = 0 := rfl
    rw [ht]; show holdings s a = _; omega

theorem holdings_feeStep {env : Env} {s s' : St} (h : feeStep env s = .ok s') (a : Addr) :
    holdings s' a = holdings s a - ifEq a env.payer (feeOf env) := by
  obtain ⟨b1, hd, rfl⟩ := feeStep_ok h
  unfold holdings
  show bal b1 a + lockedOf s.active a s.aoffers = _
  rw [bal_debit hd]; simp only [ifEq]; omega

/-- the holdings equation of a successful step -/
theorem step_holdings {env : Env} {s s' : St} {op : Op} (hw : WFo s.aoffers) (h : step env s op = (.ok, s')) (a : Addr) :
    holdings s' a = holdings s a + transfer s op a - (if op.isTx then ifEq a env.payer (feeOf env) else 0) := by
  rcases step_cases env s op with ⟨h1, _⟩ | ⟨_, s1, hh, ⟨ht, h2⟩ | ⟨ht, s2, hf, h2⟩⟩
  · rw [h] at h1; exact absurd rfl h1
  · rw [h] at h2; cases h2
    rw [handler_holdings hw hh a, ht]; simp
  · rw [h] at h2; cases h2
    rw [holdings_feeStep hf a, handler_holdings hw hh a, ht]; simp

/-! ## exact refunds and payouts -/

/-- the operation ends conversation `id` without a deal -/
def Op.refunds (op : Op) (id : ConvId) : Prop :=
  (∃ b, op = .cancel id b) ∨ (∃ v, op = .expire id v) ∨ (∃ o, op = .ownerDecision id o decReject) ∨
  (∃ b, op = .bidderDecision id b decReject)

theorem closeConv_gone (s1 : St) (id : ConvId) (c : Conv) (st : Int) : alookup id (closeConv s1 id c st).active = none := by
  simp [closeConv]

theorem refund_handler {env : Env} {s s' : St} {op : Op} {id : ConvId} (hw : WFo s.aoffers) (hr : op.refunds id)
    (h : handler env s op = .ok s') :
    ∃ c o, alookup id s.active = some c ∧ alookup id s.aoffers = some o ∧
      (∀ a, bal s'.bals a = bal s.bals a + ifEq a c.bidder (lockedAmt o)) ∧
      alookup id s'.active = none ∧ alookup id s'.aoffers = none ∧ s'.doms = s.doms ∧ s'.pool = s.pool := by
  have key : ∀ {c : Conv} {o : Offer} {s1 : St} {st : Int}, alookup id s.active = some c → alookup id s.aoffers = some o →
      deactivate env s false c.bidder o = .ok s1 → s' = closeConv s1 id c st →
      ∃ c o, alookup id s.active = some c ∧ alookup id s.aoffers = some o ∧
      (∀ a, bal s'.bals a = bal s.bals a + ifEq a c.bidder (lockedAmt o)) ∧
      alookup id s'.active = none ∧ alookup id s'.aoffers = none ∧ s'.doms = s.doms ∧ s'.pool = s.pool := by
    intro c o s1 st hc ho hd hs
    have E := deactivate_ok hd
    have hoc := (hw.2 id o ho).1
    subst hs
    refine ⟨c, o, hc, ho, (moves_refundClose hw hc ho hd).bal, closeConv_gone _ _ _ _, ?_, E.doms, E.pool⟩
    show alookup id s1.aoffers = none
    rw [← hoc]; exact alookup_deact_none E
  rcases hr with ⟨b, rfl⟩ | ⟨v, rfl⟩ | ⟨o, rfl⟩ | ⟨b, rfl⟩
  · simp only [handler] at h
    obtain ⟨c, o, s1, hc, ho, _, hd, hs⟩ := runCancel_ok h
    exact key hc ho hd hs
  · simp only [handler] at h
    obtain ⟨c, o, s1, hc, ho, hd, hs⟩ := runExpire_ok h
    exact key hc ho hd hs
  · simp only [handler] at h
    obtain ⟨c, of, hc, ho, _, _, hcase⟩ := runOwnerDecision_ok h
    rcases hcase with ⟨_, s1, hd, hs⟩ | ⟨hdd, _⟩
    · exact key hc ho hd hs
    · exact absurd hdd dec_ne
  · simp only [handler] at h
    obtain ⟨c, of, hc, ho, _, _, hcase⟩ := runBidderDecision_ok h
    rcases hcase with ⟨_, s1, hd, hs⟩ | ⟨hdd, _⟩
    · exact key hc ho hd hs
    · exact absurd hdd dec_ne

/-- what both acceptances have in common after the payment: the conversation and its offer are gone,
    the asset (an ONS name) now belongs to the bidder -/
theorem accept_tail {env : Env} {s s0 s2 s' : St} {id : ConvId} {c : Conv} {o : Offer}
    (hw : WFo s.aoffers) (ho : alookup id s.aoffers = some o) (hd0 : s0.doms = s.doms)
    (hp0 : s0.pool = s.pool)
    (hd : deactivate env s0 true c.bidder o = .ok s2)
    (hx : exchangeAsset env (closeConv s2 id c stSucceed) c = some s') :
    alookup id s'.active = none ∧ alookup id s'.aoffers = none ∧ s'.pool = s.pool ∧
    (c.atype = assetOns → ∃ d, alookup (nameOf c.asset) s.doms = some d ∧
      alookup (nameOf c.asset) s'.doms = some (Ons.resetAfterSale d c.bidder c.bidder 0 env.version)) ∧
    (c.atype ≠ assetOns → s'.doms = s.doms) := by
  have E := deactivate_ok hd
  have hoc := (hw.2 id o ho).1
  obtain ⟨h1, _, _, h4, _, _, h7, h8, h9⟩ := exchangeAsset_ok hx
  refine ⟨by rw [h1]; exact closeConv_gone _ _ _ _, ?_, ?_, ?_, ?_⟩
  · rw [h4]; show alookup id s2.aoffers = none
    rw [← hoc]; exact alookup_deact_none E
  · rw [h7]; show s2.pool = _; rw [E.pool, hp0]
  · intro hty
    obtain ⟨d, hd1, hd2⟩ := h8 hty
    have : (closeConv s2 id c stSucceed).doms = s.doms := by show s2.doms = _; rw [E.doms, hd0]
    rw [this] at hd1
    exact ⟨d, hd1, hd2⟩
  · intro hty
    rw [h9 hty]; show s2.doms = _; rw [E.doms, hd0]

/-! ## a conversation that left the active store -/

theorem same_refl (id : ConvId) (s : St) : Same id s s := ⟨rfl, fun _ => rfl, fun _ _ => rfl⟩

theorem same_trans {id : ConvId} {a b c : St} (h1 : Same id a b) (h2 : Same id b c) : Same id a c :=
  ⟨h2.1.trans h1.1, fun st => (h2.2.1 st).trans (h1.2.1 st), fun t tm => (h2.2.2 t tm).trans (h1.2.2 t tm)⟩

theorem same_deact {env : Env} {s s1 : St} {deal : Bool} {bidder : Addr} {o : Offer} {id : ConvId}
    (E : DeactEff env s s1 deal bidder o) (hne : o.conv ≠ id) : Same id s s1 := by
  refine ⟨by rw [E.active], fun st => by rw [E.closed], fun t tm => ?_⟩
  obtain ⟨o1, h1, _, _⟩ := E.ioffers
  rw [h1, alookup_upsert_ne]
  intro e
  exact hne (Prod.mk.inj e).1.symm

theorem same_closeConv (s1 : St) {k id : ConvId} (c : Conv) (st : Int) (hne : k ≠ id) : Same id s1 (closeConv s1 k c st) := by
  refine ⟨?_, fun st' => ?_, fun _ _ => rfl⟩
  · show alookup id (aerase s1.active k) = _
    exact alookup_aerase_ne _ _ _ (fun e => hne e.symm)
  · show alookup (st', id) (upsert s1.closed (st, k) c) = _
    rw [alookup_upsert_ne]
    intro e
    exact hne (Prod.mk.inj e).2.symm

theorem same_exchange {env : Env} {s s' : St} {c : Conv} (id : ConvId) (h : exchangeAsset env s c = some s') : Same id s s' := by
  obtain ⟨h1, _, h3, _, h5, _⟩ := exchangeAsset_ok h
  exact ⟨by rw [h1], fun st => by rw [h3], fun t tm => by rw [h5]⟩

theorem same_refundClose {env : Env} {s s1 : St} {k id : ConvId} {c : Conv} {o : Offer} {st : Int}
    (hw : WFo s.aoffers) (ho : alookup k s.aoffers = some o) (hne : k ≠ id)
    (hd : deactivate env s false c.bidder o = .ok s1) : Same id s (closeConv s1 k c st) := by
  have hoc := (hw.2 k o ho).1
  exact same_trans (same_deact (deactivate_ok hd) (by rw [hoc]; exact hne)) (same_closeConv s1 c st hne)

theorem same_createTail {env : Env} {s1 s' : St} {isNew : Bool} {cid id : ConvId} {bidder : Addr} {amount : Int}
    (hw : WFo s1.aoffers) (hne : cid ≠ id) (h : createTail env s1 isNew cid bidder amount = .ok s') : Same id s1 s' := by
  obtain ⟨c, s2, b1, _, _, hoff, _, rfl⟩ := createTail_ok h
  rcases hoff with ⟨_, rfl⟩ | ⟨o, ho, _, _, hd⟩
  · exact ⟨rfl, fun _ => rfl, fun _ _ => rfl⟩
  · have hoc := (hw.2 cid o ho).1
    have := same_deact (id := id) (deactivate_ok hd) (by rw [hoc]; exact hne)
    exact ⟨this.1, this.2.1, this.2.2⟩

theorem ne_of_active {s : St} {k id : ConvId} {c : Conv} (hk : alookup k s.active = some c) (hid : alookup id s.active = none) :
    k ≠ id := by
  intro e; rw [e, hid] at hk; cases hk

theorem same_runExpire {env : Env} {s s' : St} {k id : ConvId} (hw : WFo s.aoffers) (hid : alookup id s.active = none)
    (h : runExpire env s k = .ok s') : Same id s s' := by
  obtain ⟨c, o, s1, hc, ho, hd, rfl⟩ := runExpire_ok h
  exact same_refundClose hw ho (ne_of_active hc hid) hd

theorem same_runHook {env : Env} (ids : List ConvId) {s : St} {id : ConvId} (hw : WFo s.aoffers)
    (hid : alookup id s.active = none) : Same id s (runHook env s ids) := by
  induction ids generalizing s with
  | nil => exact same_refl id s
  | cons k t ih =>
    unfold runHook
    cases h : runExpire env s k with
    | error e => exact ih hw hid
    | ok s1 =>
      have k1 := keeps_runExpire hw h
      have s1s := same_runExpire hw hid h
      exact same_trans s1s (ih k1.wf (by rw [s1s.1]; exact hid))

theorem handler_same {env : Env} {s s' : St} {op : Op} {id : ConvId} (hw : WFo s.aoffers)
    (hid : alookup id s.active = none) (hno : op.opensId ≠ some id) (h : handler env s op = .ok s') : Same id s s' := by
  cases op with
  | create i o as t b am cur dl nid =>
    simp only [handler] at h
    unfold runCreate at h
    split at h
    · rename_i hie
      have hne : nid ≠ id := by
        intro e; apply hno; simp [Op.opensId, hie, e]
      split at h
      · cases h
      · split at h
        · cases h
        · split at h
          · cases h
          · have k := same_createTail (id := id) (s1 := { s with active := upsert s.active nid ⟨o, as, t, b, dl⟩ }) hw hne h
            refine ⟨k.1.trans ?_, k.2.1, k.2.2⟩
            show alookup id (upsert s.active nid _) = _
            exact alookup_upsert_ne _ _ _ _ (fun e => hne e.symm)
    · obtain ⟨c, _, _, hc, _⟩ := createTail_ok h
      exact same_createTail hw (ne_of_active hc hid) h
  | counter k o am cur =>
    simp only [handler] at h
    obtain ⟨c, of, s1, hc, ho, _, _, _, hd, rfl⟩ := runCounter_ok h
    have hoc := (hw.2 k of ho).1
    have := same_deact (id := id) (deactivate_ok hd) (by rw [hoc]; exact ne_of_active hc hid)
    exact ⟨this.1, this.2.1, this.2.2⟩
  | cancel k b =>
    simp only [handler] at h
    obtain ⟨c, o, s1, hc, ho, _, hd, rfl⟩ := runCancel_ok h
    exact same_refundClose hw ho (ne_of_active hc hid) hd
  | bidderDecision k b d =>
    simp only [handler] at h
    obtain ⟨c, o, hc, ho, _, _, hcase⟩ := runBidderDecision_ok h
    have hne := ne_of_active hc hid
    have hoc := (hw.2 k o ho).1
    rcases hcase with ⟨_, s1, hd, rfl⟩ | ⟨_, b1, s2, _, hd, hx⟩
    · exact same_refundClose hw ho hne hd
    · have h1 := same_deact (id := id) (deactivate_ok hd) (by rw [hoc]; exact hne)
      have h2 := same_trans (same_closeConv s2 c stSucceed hne) (same_exchange id hx)
      exact ⟨h2.1.trans h1.1, fun st => (h2.2.1 st).trans (h1.2.1 st), fun t tm => (h2.2.2 t tm).trans (h1.2.2 t tm)⟩
  | expire k v =>
    simp only [handler] at h
    exact same_runExpire hw hid h
  | ownerDecision k ow d =>
    simp only [handler] at h
    obtain ⟨c, o, hc, ho, _, _, hcase⟩ := runOwnerDecision_ok h
    have hne := ne_of_active hc hid
    have hoc := (hw.2 k o ho).1
    rcases hcase with ⟨_, s1, hd, rfl⟩ | ⟨_, s2, hd, hx⟩
    · exact same_refundClose hw ho hne hd
    · have h1 := same_deact (id := id) (deactivate_ok hd) (by rw [hoc]; exact hne)
      have h2 := same_trans (same_closeConv s2 c stSucceed hne) (same_exchange id hx)
      exact ⟨h2.1.trans h1.1, fun st => (h2.2.1 st).trans (h1.2.1 st), fun t tm => (h2.2.2 t tm).trans (h1.2.2 t tm)⟩
  | hook ids =>
    simp only [handler] at h
    cases h
    exact same_runHook ids hw hid
  | commit =>
    simp only [handler] at h
    cases h
    exact ⟨rfl, fun _ => rfl, fun _ _ => rfl⟩

theorem same_feeStep {env : Env} {s s' : St} (id : ConvId) (h : feeStep env s = .ok s') : Same id s s' := by
  obtain ⟨b1, _, rfl⟩ := feeStep_ok h
  exact ⟨rfl, fun _ => rfl, fun _ _ => rfl⟩

theorem step_same {env : Env} {s : St} {op : Op} {id : ConvId} (hw : WFo s.aoffers)
    (hid : alookup id s.active = none) (hno : op.opensId ≠ some id) : Same id s (step env s op).2 := by
  rcases step_cases env s op with ⟨_, h2⟩ | ⟨_, s1, hh, ⟨_, h2⟩ | ⟨_, s2, hf, h2⟩⟩
  · rw [h2]; exact same_refl id s
  · rw [h2]; exact handler_same hw hid hno hh
  · rw [h2]; exact same_trans (handler_same hw hid hno hh) (same_feeStep id hf)

/-! ## the asset moves only with a deal; who signed -/

theorem createTail_doms {env : Env} {s1 s' : St} {isNew : Bool} {cid : ConvId} {bidder : Addr} {amount : Int}
    (h : createTail env s1 isNew cid bidder amount = .ok s') : s'.doms = s1.doms := by
  obtain ⟨c, s2, b1, _, _, hoff, _, rfl⟩ := createTail_ok h
  rcases hoff with ⟨_, rfl⟩ | ⟨o, _, _, _, hd⟩
  · rfl
  · exact (deactivate_ok hd).doms

theorem runExpire_doms {env : Env} {s s' : St} {id : ConvId} (h : runExpire env s id = .ok s') : s'.doms = s.doms := by
  obtain ⟨c, o, s1, _, _, hd, rfl⟩ := runExpire_ok h
  exact (deactivate_ok hd).doms

theorem runHook_doms {env : Env} (ids : List ConvId) (s : St) : (runHook env s ids).doms = s.doms := by
  induction ids generalizing s with
  | nil => rfl
  | cons id t ih =>
    unfold runHook
    cases h : runExpire env s id with
    | error e => exact ih s
    | ok s1 => rw [ih s1, runExpire_doms h]

theorem handler_doms {env : Env} {s s' : St} {op : Op} (h : handler env s op = .ok s') (hd : dealOf s op = none) :
    s'.doms = s.doms := by
  cases op with
  | create i o as t b am cur dl nid =>
    simp only [handler] at h
    unfold runCreate at h
    split at h
    · split at h
      · cases h
      · split at h
        · cases h
        · split at h
          · cases h
          · exact createTail_doms (s1 := { s with active := upsert s.active nid ⟨o, as, t, b, dl⟩ }) h
    · exact createTail_doms h
  | counter k o am cur =>
    simp only [handler] at h
    obtain ⟨c, of, s1, _, _, _, _, _, hdd, rfl⟩ := runCounter_ok h
    exact (deactivate_ok hdd).doms
  | cancel k b =>
    simp only [handler] at h
    obtain ⟨c, o, s1, _, _, _, hdd, rfl⟩ := runCancel_ok h
    exact (deactivate_ok hdd).doms
  | bidderDecision k b d =>
    simp only [handler] at h
    obtain ⟨c, o, hc, ho, _, _, hcase⟩ := runBidderDecision_ok h
    rcases hcase with ⟨_, s1, hdd, rfl⟩ | ⟨hacc, _⟩
    · exact (deactivate_ok hdd).doms
    · simp [dealOf, hacc, hc, ho] at hd
  | expire k v =>
    simp only [handler] at h
    exact runExpire_doms h
  | ownerDecision k ow d =>
    simp only [handler] at h
    obtain ⟨c, o, hc, ho, _, _, hcase⟩ := runOwnerDecision_ok h
    rcases hcase with ⟨_, s1, hdd, rfl⟩ | ⟨hacc, _⟩
    · exact (deactivate_ok hdd).doms
    · simp [dealOf, hacc, hc, ho] at hd
  | hook ids =>
    simp only [handler] at h
    cases h
    exact runHook_doms ids s
  | commit =>
    simp only [handler] at h
    cases h
    rfl

theorem validate_signer {env : Env} {op : Op} {a : Addr} (h : validate env op = .ok ()) (hs : op.signer = some a) :
    env.payer = a ∧ env.sigValid = true := by
  unfold validate at h
  rw [hs] at h
  simp only [] at h
  split at h
  · cases h
  · rename_i hp
    split at h
    · cases h
    · rename_i hsv
      exact ⟨by simpa using hp, by simpa using hsv⟩

/-- a successful step, taken apart -/
theorem step_ok {env : Env} {s s' : St} {op : Op} (h : step env s op = (.ok, s')) :
    validate env op = .ok () ∧ ∃ s1, handler env s op = .ok s1 ∧
      ((op.isTx = false ∧ s' = s1) ∨ (op.isTx = true ∧ feeStep env s1 = .ok s')) := by
  rcases step_cases env s op with ⟨h1, _⟩ | ⟨hv, s1, hh, ⟨ht, h2⟩ | ⟨ht, s2, hf, h2⟩⟩
  · rw [h] at h1; exact absurd rfl h1
  · rw [h] at h2
    have e : s' = s1 := (Prod.mk.inj h2).2
    exact ⟨hv, s1, hh, Or.inl ⟨ht, e⟩⟩
  · rw [h] at h2
    have e : s' = s2 := (Prod.mk.inj h2).2
    exact ⟨hv, s1, hh, Or.inr ⟨ht, by rw [e]; exact hf⟩⟩

/-! ## executable forms of the invariants (for the examples) -/

theorem wf_of_wfB {s : St} (h : wfB s = true) : WF s := by
  unfold wfB at h
  simp only [Bool.and_eq_true, List.all_eq_true] at h
  obtain ⟨hn, hall⟩ := h
  refine ⟨?_, fun k o ho => ?_⟩
  · clear hall
    generalize akeys s.aoffers = l at hn
    induction l with
    | nil => exact List.nodup_nil
    | cons a t ih =>
      simp only [nodupB, Bool.and_eq_true, Bool.not_eq_true', List.contains_eq_mem, decide_eq_false_iff_not] at hn
      exact List.nodup_cons.mpr ⟨hn.1, ih hn.2⟩
  · have := hall (k, o) (alookup_mem ho)
    simp only [Bool.and_eq_true, Bool.or_eq_true, beq_iff_eq, decide_eq_true_eq] at this
    exact ⟨this.1.1, this.1.2, this.2⟩

theorem nonNeg_of_nonNegB {s : St} (h : nonNegB s = true) : NonNegBals s := by
  unfold nonNegB at h
  simp only [List.all_eq_true, decide_eq_true_eq] at h
  exact h

end OLP.Bid

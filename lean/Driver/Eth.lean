/-
  Line-protocol driver for the `ethtrk` engine (C15).  Stateless steps: every input line carries the
  configuration, the decoded tracker records and wrapped balances the step can touch, and the
  operation; the output line is the result code, the model's branch tag and the same records after
  `OLP.Eth.step`.

    lock   <erc> <pre> <locker> <name> <amount> KV…
    redeem <erc> <pre> <toTok> <owner> <name> <amount> KV…
    report <name> <locker> <voter> <idx> <ok>   KV…
    send   <from> <to> <cur> <amount>           KV…
    end    KV…                                   (uses N= names iterated: the committed ongoing trackers)
  KV tokens: W=<a,b,…|-> S=<supply> EC=<cap> TC=<cap> ON=<T;T…|-> PA=… FA=… B=<addr:cur:amt,…|->
  tracker T = typ/state/name/owner/amount/toTok/<w,w,…|->/<votes digits|->  (typ 1 lock 2 redeem 3 lockERC 4 redeemERC)
  output: res <0|1|panic> <tag> ON=… PA=… FA=… B=…   (stores sorted by name)
-/
import OLP.Eth.Model

namespace Driver.Eth
open OLP OLP.Eth

def natList (s : String) : Option (List Nat) :=
  if s == "-" || s == "" then some [] else (s.splitOn ",").mapM (·.toNat?)

def parseTyp : String → Option PType
  | "1" => some .lock | "2" => some .redeem | "3" => some .lockERC | "4" => some .redeemERC | _ => none

def showTyp : PType → String
  | .lock => "1" | .redeem => "2" | .lockERC => "3" | .redeemERC => "4"

def parseState : String → Option TState
  | "0" => some .new | "1" => some .busyBroadcasting | "2" => some .broadcastSuccess
  | "3" => some .busyFinalizing | "4" => some .finalized | "5" => some .released | "6" => some .failed
  | _ => none

def bool01 : String → Option Bool
  | "0" => some false | "1" => some true | _ => none

def parseVotes (s : String) : Option (List Nat) :=
  if s == "-" then some [] else s.toList.mapM (fun ch => (String.singleton ch).toNat?)

def parseTracker (s : String) : Option Tracker :=
  match s.splitOn "/" with
  | [ty, st, nm, ow, am, tt, ws, vs] => do
    let ty ← parseTyp ty
    let st ← parseState st
    let nm ← nm.toNat?
    let ow ← ow.toNat?
    let am ← am.toNat?
    let tt ← bool01 tt
    let ws ← natList ws
    let vs ← parseVotes vs
    pure { typ := ty, state := st, name := nm, owner := ow, amount := am, toTok := tt, witnesses := ws, votes := vs }
  | _ => none

def showNats (l : List Nat) : String := if l.isEmpty then "-" else ",".intercalate (l.map toString)
def showVotes (l : List Nat) : String := if l.isEmpty then "-" else String.join (l.map toString)

def showTracker (t : Tracker) : String :=
  s!"{showTyp t.typ}/{t.state.toNat}/{t.name}/{t.owner}/{t.amount}/{if t.toTok then 1 else 0}/{showNats t.witnesses}/{showVotes t.votes}"

def parseStore (s : String) : Option Store :=
  if s == "-" then some [] else
    (s.splitOn ";").mapM (fun x => (parseTracker x).map (fun t => (t.name, t)))

/-- insertion sort by name (stores are maps; the implementation's dump is key ordered) -/
def insByName (x : Name × Tracker) : Store → Store
  | [] => [x]
  | y :: ys => if x.1 ≤ y.1 then x :: y :: ys else y :: insByName x ys

def sortStore (s : Store) : Store := s.foldr insByName []

def showStore (s : Store) : String :=
  if s.isEmpty then "-" else ";".intercalate ((sortStore s).map (fun p => showTracker p.2))

def parseBalEntry (s : String) : Option ((Addr × Nat) × Int) :=
  match s.splitOn ":" with
  | [a, c, v] => do
    let a ← a.toNat?
    let c ← c.toNat?
    let v ← v.toInt?
    pure ((a, c), v)
  | _ => none

def parseBal (s : String) : Option Bal :=
  if s == "-" then some [] else (s.splitOn ",").mapM parseBalEntry

def showBal (b : Bal) : String :=
  if b.isEmpty then "-" else ",".intercalate (b.map (fun p => s!"{p.1.1}:{p.1.2}:{p.2}"))

structure Ctx where
  cfg : Cfg := { witnesses := [], supply := 0, ethCap := 0, tokCap := 0 }
  st : St := St.empty
  names : List Name := []
  jobErr : List Name := []

def applyKV (x : Ctx) (tok : String) : Option Ctx :=
  match tok.splitOn "=" with
  | ["W", v] => (natList v).map (fun l => { x with cfg := { x.cfg with witnesses := l } })
  | ["S", v] => v.toNat?.map (fun n => { x with cfg := { x.cfg with supply := n } })
  | ["EC", v] => v.toInt?.map (fun n => { x with cfg := { x.cfg with ethCap := n } })
  | ["TC", v] => v.toInt?.map (fun n => { x with cfg := { x.cfg with tokCap := n } })
  | ["ON", v] => (parseStore v).map (fun l => { x with st := { x.st with ongoing := l } })
  | ["PA", v] => (parseStore v).map (fun l => { x with st := { x.st with passed := l } })
  | ["FA", v] => (parseStore v).map (fun l => { x with st := { x.st with failed := l } })
  | ["B", v] => (parseBal v).map (fun l => { x with st := { x.st with bal := l } })
  | ["N", v] => (natList v).map (fun l => { x with names := l })
  | ["J", v] => (natList v).map (fun l => { x with jobErr := l })
  | _ => none

def parseKVs (toks : List String) : Option Ctx := toks.foldlM applyKV {}

def showOut (o : Out) : String :=
  let (code, tag) := match o.res with
    | .ok b => ("0", b)
    | .fail r => ("1", r)
    | .panic => ("panic", "-")
  s!"res {code} {tag} ON={showStore o.st.ongoing} PA={showStore o.st.passed} FA={showStore o.st.failed} B={showBal o.st.bal}"

def runLine (toks : List String) : Option String :=
  match toks with
  | "lock" :: erc :: pre :: l :: n :: a :: kv => do
    let x ← parseKVs kv
    let op := Op.lock (← bool01 erc) (← pre.toNat?) (← l.toNat?) (← n.toNat?) (← a.toNat?)
    pure (showOut (step x.cfg x.st op))
  | "redeem" :: erc :: pre :: tt :: o :: n :: a :: kv => do
    let x ← parseKVs kv
    let op := Op.redeem (← bool01 erc) (← pre.toNat?) (← bool01 tt) (← o.toNat?) (← n.toNat?) (← a.toNat?)
    pure (showOut (step x.cfg x.st op))
  | "report" :: n :: l :: v :: i :: ok :: kv => do
    let x ← parseKVs kv
    let op := Op.report (← n.toNat?) (← l.toNat?) (← v.toNat?) (← i.toInt?) (← bool01 ok)
    pure (showOut (step x.cfg x.st op))
  | "send" :: f :: t :: c :: a :: kv => do
    let x ← parseKVs kv
    let op := Op.send (← f.toNat?) (← t.toNat?) (← c.toNat?) (← a.toNat?)
    pure (showOut (step x.cfg x.st op))
  | "end" :: kv => do
    let x ← parseKVs kv
    pure (showOut (step x.cfg x.st (Op.endBlock x.names)))
  | _ => none

def stepLine (line : String) : String :=
  let toks := (line.splitOn " ").filter (· ≠ "")
  match toks with
  | [] => ""
  | "#" :: _ => line
  | _ => (runLine toks).getD "bad-op"

partial def loop (hin hout : IO.FS.Stream) : IO Unit := do
  let line ← hin.getLine
  if line.isEmpty then return ()
  hout.putStrLn (stepLine (line.trimAsciiEnd).toString)
  loop hin hout

def main : IO Unit := do
  loop (← IO.getStdin) (← IO.getStdout)

end Driver.Eth

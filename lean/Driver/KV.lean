/-
  Line-protocol driver for the `kv` engine (DESIGN App. A): runs `OLP.KV.step`
  on hex-encoded keys and values.  One input line → one output line.
-/
import OLP.KV.Model

namespace Driver.KV
open OLP OLP.KV

abbrev K := String
abbrev V := String

/-- TOMBSTONE = "⛼" = U+26FC = e2 9b bc ; hex strings order like the bytes they encode -/
def cfg : Cfg K V := { tomb := "e29bbc", vlen := fun v => v.length / 2, lt := fun a b => decide (a < b) }

def optTok (s : String) : Option String := if s == "~" then none else some s

def showOpt : Option String → String
  | none => "~"
  | some s => if s.isEmpty then "-" else s

def unDash (s : String) : String := if s == "-" then "" else s

def showTreeOp : TreeOp K V → String
  | .set k v => s!"s:{k}:{if v.isEmpty then "-" else v}"
  | .remove k => s!"r:{k}"
  | .save => "S"

def showOut : Out K V → String
  | .ok => "ok"
  | .errGas => "err gas"
  | .errReserved => "err reserved"
  | .panic => "panic"
  | .val v => s!"val {showOpt v}"
  | .bool b => if b then "bool 1" else "bool 0"
  | .list l => "list " ++ (if l.isEmpty then "-" else ",".intercalate (l.map fun (k, v) => s!"{k}={showOpt v}"))
  | .committed ver lg => s!"commit {ver} log=" ++ (if lg.isEmpty then "-" else ";".intercalate (lg.map showTreeOp))
  | .gas g => s!"gas {g}"

def parseOp (toks : List String) : Option (Op K V) :=
  match toks with
  | ["state", l] => (match optTok l with
      | none => some (.newState none)
      | some x => x.toInt?.map (fun i => .newState (some i)))
  | ["set", k, v] => some (.set k (unDash v))
  | ["del", k] => some (.del k)
  | ["get", k] => some (.get k)
  | ["has", k] => some (.has k)
  | ["iter", lo, hi, asc] => some (.iter (optTok lo) (optTok hi) (asc == "1"))
  | ["itera", lo, hi, asc] => some (.iterAll (optTok lo) (optTok hi) (asc == "1"))
  | ["begin"] => some .begin
  | ["csess"] => some .csess
  | ["dsess"] => some .dsess
  | ["write"] => some .write
  | ["commit"] => some .commit
  | ["reopen"] => some .reopen
  | ["getv", ver, k] => ver.toInt?.map (fun i => .getv i k)
  | ["gas"] => some .gas
  | _ => none

/-- returns new state and the output line -/
def stepLine (s : St K V) (line : String) : St K V × String :=
  let toks := (line.splitOn " ").filter (· ≠ "")
  match toks with
  | [] => (s, "")
  | "#" :: _ => (s, line)
  | ["new", r, e, c] =>
    match r.toNat?, e.toNat?, c.toNat? with
    | some r, some e, some c => (St.new (Tree.empty ⟨r, e, c⟩), "ok")
    | _, _, _ => (s, "bad-op")
  | _ =>
    match parseOp toks with
    | none => (s, "bad-op")
    | some op => let (s', o) := step cfg s op; (s', showOut o)

partial def loop (hin : IO.FS.Stream) (hout : IO.FS.Stream) (s : St K V) : IO Unit := do
  let line ← hin.getLine
  if line.isEmpty then return ()
  let line := (line.trimAsciiEnd).toString
  let (s', out) := stepLine s line
  hout.putStrLn out
  loop hin hout s'

def main : IO Unit := do
  let hin ← IO.getStdin
  let hout ← IO.getStdout
  loop hin hout (St.new (Tree.empty ⟨0, 0, 0⟩))

end Driver.KV

import Driver.KV
import Driver.Shell
import Driver.Ons
import Driver.Deleg

def main (args : List String) : IO UInt32 := do
  match args with
  | ["kv"] => Driver.KV.main; return 0
  | ["shell"] => Driver.Shell.main; return 0
  | ["ons"] => Driver.Ons.main; return 0
  | ["deleg"] => Driver.Deleg.main; return 0
  | _ => IO.eprintln "usage: olpdriver <engine>  (engines: kv, shell)"; return 2

import Driver.KV
import Driver.Shell
import Driver.Ons
import Driver.Deleg
import Driver.Eth
import Driver.Stake
import Driver.Rewards
import Driver.Olvm
import Driver.Sig
import Driver.Alleg
import Driver.Gov
import Driver.Elect
import Driver.Evm
import Driver.Bid

def main (args : List String) : IO UInt32 := do
  match args with
  | ["kv"] => Driver.KV.main; return 0
  | ["shell"] => Driver.Shell.main; return 0
  | ["ons"] => Driver.Ons.main; return 0
  | ["deleg"] => Driver.Deleg.main; return 0
  | ["ethtrk"] => Driver.Eth.main; return 0
  | ["stake"] => Driver.Stake.main; return 0
  | ["rewards"] => Driver.Rewards.main; return 0
  | ["olvm"] => Driver.Olvm.main; return 0
  | ["sigm"] => Driver.Sig.main; return 0
  | ["alleg"] => Driver.Alleg.main; return 0
  | ["gov"] => Driver.Gov.main; return 0
  | ["elect"] => Driver.Elect.main; return 0
  | ["evm"] => Driver.Evm.main; return 0
  | ["bidm"] => Driver.Bid.main; return 0
  | _ => IO.eprintln "usage: olpdriver <engine>  (engines: kv, shell)"; return 2

import Driver.KV

def main (args : List String) : IO UInt32 := do
  match args with
  | ["kv"] => Driver.KV.main; return 0
  | _ => IO.eprintln "usage: olpdriver <engine>  (engines: kv)"; return 2

/-
  Line-protocol driver for the `deleg` engine (property C12).  Stateless steps: every line carries
  the decoded pre-state records the step reads plus the operation; the model prints the result
  code and the post-state records.  Integers in decimal, addresses as printed by the
  implementation (`0lt<hex>`), `~` = absent record, `-` = empty list.

    tx <kind> <pool> <M> <h> <addr> <amt> <bal> <poolbal> <act> <pend> <rw> <rwp> <feeok> <fee>
        kind ∈ delegate undelegate withdraw reinvest sendpool send;
        pend / rwp are the records of key (h+M, addr)
      → <code> <bal> <poolbal> <act> <pend> <rw> <rwp> [resid=<n>]
    begin <pool> <h> <T|~> <pend> <rwp> <act> <rw> <rwtot|~> <bal>
        pend, rwp : h:addr:amt,…   act, rw, bal : addr:amt,…
      → begun paid=<addr,… in visit order> rwpaid=<addr,… sorted> pend=… rwp=… rw=… rwtot=… bal=…
    piter <h> <h':addr,…>    (Store.IteratePendingAmounts on exactly these keys)
      → visit <h':addr,…>    (reported keys, in order)
    rwiter <h> <h':addr,…>   (DelegRewardStore.IteratePD)
      → visit <h':addr,…>
-/
import OLP.Deleg.Model

namespace Driver.Deleg
open OLP OLP.Deleg

abbrev Addr := String

def cfgOf (pool : Addr) (m : Nat) : Cfg Addr := { pool := pool, maturity := m, addrLt := fun a b => decide (a < b) }

def optInt (s : String) : Option (Option Int) :=
  if s == "~" then some none else s.toInt?.map some

def showOpt : Option Int → String
  | none => "~"
  | some v => toString v

def recOf {K : Type} (k : K) : Option Int → List (K × Int)
  | none => []
  | some v => [(k, v)]

def splitList (s : String) : List String := if s == "-" then [] else s.splitOn ","

def parseHAV (s : String) : Option ((Nat × Addr) × Int) :=
  match s.splitOn ":" with
  | [h, a, v] => do let h ← h.toNat?; let v ← v.toInt?; pure ((h, a), v)
  | _ => none

def parseAV (s : String) : Option (Addr × Int) :=
  match s.splitOn ":" with
  | [a, v] => do let v ← v.toInt?; pure (a, v)
  | _ => none

def parseHA (s : String) : Option (Nat × Addr) :=
  match s.splitOn ":" with
  | [h, a] => do let h ← h.toNat?; pure (h, a)
  | _ => none

def showList (l : List String) : String := if l.isEmpty then "-" else ",".intercalate l

def showAV (l : List (Addr × Int)) : String := showList (l.map fun (a, v) => s!"{a}:{v}")

def sortedAV (l : List (Addr × Int)) : List (Addr × Int) :=
  sortBy (fun (x y : Addr × Int) => decide (x.1 < y.1)) l

def showHAV (c : Cfg Addr) (l : List ((Nat × Addr) × Int)) : String :=
  showList ((sortBy (fun x y => keyLt c x.1 y.1) l).map fun ((h, a), v) => s!"{h}:{a}:{v}")

def txOf (kind : String) (a : Addr) (amt : Int) : Option (Tx Addr) :=
  match kind with
  | "delegate" => some (.delegate a amt)
  | "undelegate" => some (.undelegate a amt)
  | "withdraw" => some (.withdraw a amt)
  | "reinvest" => some (.reinvest a amt)
  -- both donation paths validate the sign: runTx itself, and sendPoolTx.Validate run by txDeliverer
  | "sendpool" => some (.donate a amt true)
  | "send" => some (.donate a amt true)
  | _ => none

def stepTx (toks : List String) : Option String :=
  match toks with
  | [kind, pool, m, h, a, amt, bal, pbal, act, pend, rw, rwp, feeok, fee] => do
    let m ← m.toNat?
    let h ← h.toNat?
    let amt ← amt.toInt?
    let bal ← optInt bal
    let pbal ← optInt pbal
    let act ← optInt act
    let pend ← optInt pend
    let rw ← optInt rw
    let rwp ← optInt rwp
    let fee ← fee.toInt?
    let c := cfgOf pool m
    let tx ← txOf kind a amt
    let k := (h + m, a)
    let s : St Addr :=
      { bal := recOf a bal ++ (if a == pool then [] else recOf pool pbal), active := recOf a act,
        pending := recOf k pend, rw := recOf a rw, rwTotal := 0, rwPending := recOf k rwp }
    let out (s : St Addr) : String :=
      s!"{showOpt (alookup a s.bal)} {showOpt (alookup pool s.bal)} {showOpt (alookup a s.active)} " ++
      s!"{showOpt (alookup k s.pending)} {showOpt (alookup a s.rw)} {showOpt (alookup k s.rwPending)}"
    match handler c s h tx with
    | .error e => pure s!"{e.name} {out s}"
    | .ok s1 =>
      if feeok == "1" then
        let r := deliver c s h tx fee
        if r.2 == .ok then pure s!"ok {out r.1}" else pure s!"feeFail-unexpected {out s}"
      else
        pure s!"feeFail {out s} resid={s1.balOf a}"
  | _ => none

def stepBegin (toks : List String) : Option String :=
  match toks with
  | [pool, h, t, pend, rwp, act, rw, rwtot, bal] => do
    let h ← h.toNat?
    let t ← optInt t
    let pend ← (splitList pend).mapM parseHAV
    let rwp ← (splitList rwp).mapM parseHAV
    let act ← (splitList act).mapM parseAV
    let rw ← (splitList rw).mapM parseAV
    let rwtot ← optInt rwtot
    let bal ← (splitList bal).mapM parseAV
    -- the maturity is not read by BeginBlock
    let c := cfgOf pool 0
    let s : St Addr := { bal := bal, active := act, pending := pend, rw := rw, rwTotal := rwtot.getD 0, rwPending := rwp }
    let poolAfter := (matureUndeleg c s h).1.balOf pool
    match t, decide (0 < poolAfter) with
    | none, true => pure "accrual-expected"
    | some _, false => pure "accrual-unexpected"
    | _, _ =>
      let o := beginBlock c s h (t.getD 0)
      let tot := if o.accrued.isEmpty && rwtot.isNone then "~" else toString o.st.rwTotal
      let rwPaidAddrs := sortBy (fun (x y : Addr) => decide (x < y)) (o.rwPaid.map (·.1))
      pure (s!"begun paid={showList (o.paid.map (·.1))} rwpaid={showList rwPaidAddrs} " ++
        s!"pend={showHAV c o.st.pending} rwp={showHAV c o.st.rwPending} rw={showAV (sortedAV o.st.rw)} " ++
        s!"rwtot={tot} bal={showAV (sortedAV o.st.bal)}")
  | _ => none

def stepIter (rewards : Bool) (toks : List String) : Option String :=
  match toks with
  | [h, keys] => do
    let h ← h.toNat?
    let keys ← (splitList keys).mapM parseHA
    let c := cfgOf "" 0
    let q : List ((Nat × Addr) × Int) := keys.map fun k => (k, 0)
    let vs := if rewards then visitRwPending c h q else visitPending c h q
    pure ("visit " ++ showList (vs.map fun (h, a) => s!"{h}:{a}"))
  | _ => none

def stepLine (line : String) : String :=
  let toks := (line.splitOn " ").filter (· ≠ "")
  match toks with
  | [] => ""
  | "#" :: _ => line
  | "tx" :: rest => (stepTx rest).getD "bad-op"
  | "begin" :: rest => (stepBegin rest).getD "bad-op"
  | "piter" :: rest => (stepIter false rest).getD "bad-op"
  | "rwiter" :: rest => (stepIter true rest).getD "bad-op"
  | _ => "bad-op"

partial def loop (hin : IO.FS.Stream) (hout : IO.FS.Stream) : IO Unit := do
  let line ← hin.getLine
  if line.isEmpty then return ()
  let line := (line.trimAsciiEnd).toString
  hout.putStrLn (stepLine line)
  loop hin hout

def main : IO Unit := do
  let hin ← IO.getStdin
  let hout ← IO.getStdout
  loop hin hout

end Driver.Deleg

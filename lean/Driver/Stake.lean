/-
  Line-protocol driver for the `stake` engine (C11).  Stateless steps: every input line carries
  the decoded pre-state records and one operation,

    step <begin|check|tx|end> h=<height> M=<maturity> N=<#addresses> | tot v:a … | vd v:d:a … | eff d:a … |
      bnd d:a … | mat h:d:a:d:a … | val v:staking:power:sa … | prev v:staking:power:sa … |
      bal d:a … | frozen v … | iter v … | req v … | purge v:h … | delayed h:v:a … | op <operation>

  operations: `begin` · `stake v d a` · `unstake v d a` · `withdraw v d a` (kind `tx` = DeliverTx,
  kind `check` = CheckTx on the mempool state; both run `Validate` first) · `end <guilty g1,g2,…|-> <deletable d1,…|->`
  and the answer is the result class plus the post-state records the model predicts

    code <c> | tot … | vd … | eff … | bnd … | mat … | val … | delayed … [| bal …]

  (zero amounts and empty lists are not printed).  `# …` lines are echoed.
-/
import OLP.Stake.Model

namespace Driver.Stake
open OLP.Stake

def ints (s : String) : Option (List Int) := (s.splitOn ":").mapM String.toInt?

def lookupD {β : Type} (l : List (Int × β)) (dflt : β) (k : Int) : β :=
  match l.find? (fun p => p.1 == k) with
  | some p => p.2
  | none => dflt

/-- the tokens of a section after its name -/
def entries (sec : String) : List String :=
  ((sec.splitOn " ").filter (· ≠ "")).drop 1

def secName (sec : String) : String :=
  (((sec.splitOn " ").filter (· ≠ "")).head?).getD ""

structure Parsed where
  kind : String
  h : Int
  m : Int
  n : Nat
  st : St
  matKeys : List Int
  delayedKeys : List (Int × Nat)
  op : List String

def parseAmt (toks : List String) : Option (List (Int × Int)) :=
  toks.mapM fun t => match ints t with
    | some [k, v] => some (k, v)
    | _ => none

def parseVals (toks : List String) : Option (List (Int × VRec)) :=
  toks.mapM fun t => match ints t with
    | some [k, st, pw, sa] => some (k, ⟨st, pw, sa.toNat⟩)
    | _ => none

def pairsOf : List Int → Option (List (Addr × Int))
  | [] => some []
  | d :: a :: t => (pairsOf t).map (fun r => (d.toNat, a) :: r)
  | _ => none

def parseMat (toks : List String) : Option (List (Int × List (Addr × Int))) :=
  toks.mapM fun t => match ints t with
    | some (h :: rest) => (pairsOf rest).map (fun l => (h, l))
    | _ => none

def parseTriples (toks : List String) : Option (List (Int × Int × Int)) :=
  toks.mapM fun t => match ints t with
    | some [a, b, c] => some (a, b, c)
    | _ => none

def kvInt (toks : List String) (key : String) : Option Int :=
  toks.findSome? fun t => match t.splitOn "=" with
    | [k, v] => if k == key then v.toInt? else none
    | _ => none

def parseLine (line : String) : Option Parsed := do
  let secs := line.splitOn " | "
  let head := (secs.headD "").splitOn " " |>.filter (· ≠ "")
  guard (head.head? == some "step")
  let kind := head.getD 1 ""
  let h ← kvInt head "h"
  let m ← kvInt head "M"
  let n ← kvInt head "N"
  let sec (name : String) : List String :=
    match secs.find? (fun s => secName s == name) with
    | some s => entries s
    | none => []
  let tot ← parseAmt (sec "tot")
  let vd ← parseTriples (sec "vd")
  let eff ← parseAmt (sec "eff")
  let bnd ← parseAmt (sec "bnd")
  let mat ← parseMat (sec "mat")
  let vals ← parseVals (sec "val")
  let prev ← parseVals (sec "prev")
  let bal ← parseAmt (sec "bal")
  let frozen ← (sec "frozen").mapM String.toInt?
  let iterVals ← (sec "iter").mapM String.toNat?
  let req ← (sec "req").mapM String.toInt?
  let purge ← parseAmt (sec "purge")
  let delayed ← parseTriples (sec "delayed")
  let e := St.empty m
  let st : St := { e with
    height := h
    tot := fun v => lookupD tot 0 v
    vd := fun v d => match vd.find? (fun t => t.1 == (v : Int) && t.2.1 == (d : Int)) with
      | some t => t.2.2
      | none => 0
    eff := fun d => lookupD eff 0 d
    bnd := fun d => lookupD bnd 0 d
    mat := fun k => lookupD mat [] k
    vals := fun v => lookupD (vals.map fun p => (p.1, some p.2)) none v
    prev := fun v => lookupD (prev.map fun p => (p.1, some p.2)) none v
    bal := fun d => lookupD bal 0 d
    frozen := fun v => frozen.contains (v : Int)
    iterVals := iterVals
    req := fun v => req.contains (v : Int)
    purge := fun v => lookupD purge 0 v
    delayed := fun k v => match delayed.find? (fun t => t.1 == k && t.2.1 == (v : Int)) with
      | some t => some t.2.2
      | none => none }
  return { kind := kind, h := h, m := m, n := n.toNat, st := st, matKeys := mat.map (·.1),
           delayedKeys := delayed.map (fun t => (t.1, t.2.1.toNat)), op := sec "op" }

def showCode : Code → String
  | .ok => "ok" | .frozen => "frozen" | .inuse => "inuse" | .reqexists => "reqexists"
  | .purge => "purge" | .novalidator => "novalidator" | .balance => "balance"
  | .insufficient => "insufficient" | .invalidamount => "invalidamount" | .mismatch => "mismatch"
  | .nofunds => "nofunds"

def insSorted (k : Int) : List Int → List Int
  | [] => [k]
  | x :: t => if k < x then k :: x :: t else if k == x then x :: t else x :: insSorted k t

def sortDedup (l : List Int) : List Int := l.foldl (fun acc k => insSorted k acc) []

def showAmt (name : String) (n : Nat) (f : Addr → Int) : String :=
  (List.range n).foldl (fun acc k => if f k == 0 then acc else acc ++ s!" {k}:{f k}") name

def showState (p : Parsed) (s : St) (withBal : Bool) : String :=
  let n := p.n
  let tot := showAmt "tot" n s.tot
  let vd := (List.range n).foldl (fun acc v =>
      (List.range n).foldl (fun acc d => if s.vd v d == 0 then acc else acc ++ s!" {v}:{d}:{s.vd v d}") acc) "vd"
  let eff := showAmt "eff" n s.eff
  let bnd := showAmt "bnd" n s.bnd
  let keys := sortDedup (p.matKeys ++ [p.h + p.m])
  let mat := keys.foldl (fun acc k =>
      match s.mat k with
      | [] => acc
      | l => acc ++ s!" {k}" ++ l.foldl (fun a e => a ++ s!":{e.1}:{e.2}") "") "mat"
  let val := (List.range n).foldl (fun acc v =>
      match s.vals v with
      | none => acc
      | some r => acc ++ s!" {v}:{r.staking}:{r.power}:{r.sa}") "val"
  let dh := sortDedup (p.delayedKeys.map (·.1) ++ [p.h])
  let delayed := dh.foldl (fun acc k =>
      (List.range n).foldl (fun acc v =>
        match s.delayed k v with
        | none => acc
        | some a => acc ++ s!" {k}:{v}:{a}") acc) "delayed"
  let base := s!"{tot} | {vd} | {eff} | {bnd} | {mat} | {val} | {delayed}"
  if withBal then base ++ " | " ++ showAmt "bal" n s.bal else base

def cfg : Cfg := { pen := penalty30 }

def natTok (s : String) : Option Nat := s.toNat?

def stepLine (line : String) : String :=
  let toks := (line.splitOn " ").filter (· ≠ "")
  match toks with
  | [] => ""
  | "#" :: _ => line
  | _ =>
    match parseLine line with
    | none => "bad-line"
    | some p =>
      match p.kind, p.op with
      | "begin", ["begin"] =>
        -- the pre-state of a begin step is the committed state of the previous height
        let s := beginBlock { p.st with height := p.h - 1 } p.h
        "code ok | " ++ showState p s false
      | "tx", [k, v, d, a] =>
        match natTok v, natTok d, a.toInt? with
        | some v, some d, some a =>
          let r := match k with
            | "stake" => some (txStake p.st v d a)
            | "unstake" => some (txUnstake p.st v d a)
            | "withdraw" => some (txWithdraw p.st v d a)
            | _ => none
          match r with
          | some (s, c) => s!"code {showCode c} | " ++ showState p s true
          | none => "bad-op"
        | _, _, _ => "bad-op"
      | "check", [k, v, d, a] =>
        match natTok v, natTok d, a.toInt? with
        | some v, some d, some a =>
          let r := match k with
            | "stake" => some (txStake p.st v d a)
            | "unstake" => some (txUnstake p.st v d a)
            | "withdraw" => some (txWithdraw p.st v d a)
            | _ => none
          match r with
          | some (s, c) => s!"code {showCode c} | " ++ showState p s true
          | none => "bad-op"
        | _, _, _ => "bad-op"
      | "end", ["end", gl, dl] =>
        let lst (l : String) : Option (List Nat) :=
          if l == "-" then some [] else (l.splitOn ",").mapM natTok
        match lst gl, lst dl with
        | some g, some dele =>
          -- purge heights are decided by the election (not predicted, not printed)
          let s := endBlock cfg p.st g [] dele
          "code ok | " ++ showState p s false
        | _, _ => "bad-op"
      | _, _ => "bad-op"

partial def loop (hin hout : IO.FS.Stream) : IO Unit := do
  let line ← hin.getLine
  if line.isEmpty then return ()
  let line := (line.trimAsciiEnd).toString
  hout.putStrLn (stepLine line)
  loop hin hout

def main : IO Unit := do
  let hin ← IO.getStdin
  let hout ← IO.getStdout
  loop hin hout

end Driver.Stake

import OLP.Gen.Funcs
import Driver.FuncsCommon
open OLP.Gen.Funcs Driver.Funcs

def step17 (t : List String) : String :=
  match t with
  | ["intrinsicGas", d, c] => (do let d ← parseList d; let c ← s2b c; let r := olvmIntrinsicGas d c true 0 0; pure s!"{r.1} {b2s r.2}").getD "bad-op"
  | ["gasUsed", g, i] => (do let g ← g.toInt?; let i ← i.toInt?; pure s!"{olvmGasUsed g i}").getD "bad-op"
  | _ => "bad-op"

def main : IO Unit := do loop step17 (← IO.getStdin)

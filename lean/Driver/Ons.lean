/-
  Line-protocol driver for the `ons` engine: one stateless step of `OLP.Ons.step` per line.

  input :  ons <height> <version> <base> <perBlock> <tld,tld> <feePrice> <minFee> <feeObs> <payer> <sigValid>
               <chainCurrency> <cur,cur,…> <kind> <args…>
               R <n> <rec>… B <n> <addr>/<cur>=<amt>… P <pool>
           feeObs = used gas (decimal) | go (gas overflow) | nf (charge not covered)
           name   = dotted, `-` for the empty name
           rec    = name;owner;benef;creation;lastUpdate;expire;active;onSale;salePrice|~;urihex|-
           addr   = lower-case hex, `-` for the empty address
  output:  ok|fail:<err> R <n> <rec>… B <n> <addr>/<cur>=<amt>… P <pool>
-/
import OLP.Ons.Model

namespace Driver.Ons
open OLP OLP.Ons

def unDash (s : String) : String := if s == "-" then "" else s
def dash (s : String) : String := if s.isEmpty then "-" else s

def parseName (s : String) : Name := if s == "-" then [""] else s.splitOn "."
def showName (n : Name) : String := ".".intercalate n

def parseBool (s : String) : Option Bool := if s == "1" then some true else if s == "0" then some false else none
def showBool (b : Bool) : String := if b then "1" else "0"

def parseRec (tok : String) : Option (Name × Domain) :=
  match tok.splitOn ";" with
  | [n, o, b, c, lu, e, a, os, sp, u] => do
    let c ← c.toInt?
    let lu ← lu.toInt?
    let e ← e.toInt?
    let a ← parseBool a
    let os ← parseBool os
    let sp ← if sp == "~" then some none else sp.toInt?.map some
    pure (parseName n, { owner := unDash o, benef := unDash b, creation := c, lastUpdate := lu, expire := e,
                         active := a, onSale := os, salePrice := sp, uri := unDash u })
  | _ => none

def showRec (p : Name × Domain) : String :=
  let d := p.2
  ";".intercalate [showName p.1, dash d.owner, dash d.benef, toString d.creation, toString d.lastUpdate,
    toString d.expire, showBool d.active, showBool d.onSale,
    (match d.salePrice with | none => "~" | some x => toString x), dash d.uri]

def parseBal (tok : String) : Option (Acct × Int) :=
  match tok.splitOn "=" with
  | [k, v] =>
    match k.splitOn "/" with
    | [a, c] => v.toInt?.map (fun i => ((unDash a, c), i))
    | _ => none
  | _ => none

def showBal (p : Acct × Int) : String := s!"{dash p.1.1}/{p.1.2}={p.2}"

def showErr : Err → String
  | .priceTooLow => "priceTooLow" | .priceTooHigh => "priceTooHigh" | .exists_ => "exists" | .debit => "debit" | .badName => "badName"
  | .badUri => "badUri" | .noParent => "noParent" | .parentNotOwned => "parentNotOwned"
  | .notFound => "notFound" | .notChangeable => "notChangeable" | .notOwner => "notOwner"
  | .isSub => "isSub" | .expired => "expired" | .notForSale => "notForSale" | .offerTooLow => "offerTooLow"
  | .invalidAmount => "invalidAmount" | .inactive => "inactive" | .noBeneficiary => "noBeneficiary"
  | .feeGas => "feeGas" | .feeDebit => "feeDebit" | .crash => "crash"
  | .vSigner => "vSigner" | .vSignature => "vSignature" | .vFee => "vFee" | .vMissing => "vMissing"
  | .vBadName => "vBadName" | .vBadAmount => "vBadAmount"

def parseTx : List String → Option (Tx × List String)
  | "create" :: o :: b :: n :: u :: uo :: p :: c :: rest => do
    let uo ← parseBool uo
    let p ← p.toInt?
    pure (.create (unDash o) (unDash b) (parseName n) (unDash u) uo p c, rest)
  | "update" :: o :: b :: n :: a :: u :: uo :: rest => do
    let a ← parseBool a
    let uo ← parseBool uo
    pure (.update (unDash o) (unDash b) (parseName n) a (unDash u) uo, rest)
  | "sale" :: o :: n :: p :: cu :: c :: rest => do
    let p ← p.toInt?
    let c ← parseBool c
    pure (.sale (unDash o) (parseName n) p cu c, rest)
  | "purchase" :: b :: a :: n :: o :: c :: rest => do
    let o ← o.toInt?
    pure (.purchase (unDash b) (unDash a) (parseName n) o c, rest)
  | "send" :: f :: n :: a :: c :: rest => do
    let a ← a.toInt?
    pure (.send (unDash f) (parseName n) a c, rest)
  | "renew" :: o :: n :: p :: c :: rest => do
    let p ← p.toInt?
    pure (.renew (unDash o) (parseName n) p c, rest)
  | "delsub" :: o :: n :: rest => pure (.deleteSub (unDash o) (parseName n), rest)
  | _ => none

/-- `<tag> <n> <item>…` -/
def takeSection (tag : String) : List String → Option (List String × List String)
  | t :: n :: rest =>
    if t != tag then none else
    match n.toNat? with
    | none => none
    | some k => if rest.length < k then none else some (rest.take k, rest.drop k)
  | _ => none

def parseFee (s : String) : Option FeeObs :=
  if s == "go" then some .gasOverflow else if s == "nf" then some .noFunds else s.toInt?.map .used

def runLine (toks : List String) : Option String :=
  match toks with
  | "ons" :: h :: v :: base :: pb :: tlds :: fp :: mf :: fo :: payer :: sv :: olt :: curs :: rest => do
    let h ← h.toInt?
    let v ← v.toInt?
    let base ← base.toInt?
    let pb ← pb.toInt?
    let fp ← fp.toInt?
    let fo ← parseFee fo
    let mf ← mf.toInt?
    let sv ← parseBool sv
    let env : Env := { height := h, version := v, opts := { base := base, perBlock := pb, tlds := (unDash tlds).splitOn "," },
                       feePrice := fp, fee := fo, payer := unDash payer, sigValid := sv, minFee := mf, olt := olt,
                       currencies := (unDash curs).splitOn "," }
    let (tx, rest) ← parseTx rest
    let (rtoks, rest) ← takeSection "R" rest
    let (btoks, rest) ← takeSection "B" rest
    let recs ← rtoks.mapM parseRec
    let bals ← btoks.mapM parseBal
    let pool ← match rest with
      | ["P", p] => p.toInt?
      | _ => none
    let s : St := { recs := recs, bals := bals, pool := pool }
    let (r, s') := step env s tx
    let code := match r with
      | .ok => "ok"
      | .fail e => "fail:" ++ showErr e
    let rs := s'.recs.map showRec
    let bs := s'.bals.map showBal
    pure (" ".intercalate ([code, "R", toString rs.length] ++ rs ++ ["B", toString bs.length] ++ bs ++ ["P", toString s'.pool]))
  | _ => none

def stepLine (line : String) : String :=
  let toks := (line.splitOn " ").filter (· ≠ "")
  match toks with
  | [] => ""
  | "#" :: _ => line
  | _ => (runLine toks).getD "bad-op"

partial def loop (hin hout : IO.FS.Stream) : IO Unit := do
  let line ← hin.getLine
  if line.isEmpty then return ()
  let line := (line.trimAsciiEnd).toString
  hout.putStrLn (stepLine line)
  loop hin hout

def main : IO Unit := do
  let hin ← IO.getStdin
  let hout ← IO.getStdout
  loop hin hout

end Driver.Ons

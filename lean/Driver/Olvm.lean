/-
  Line-protocol driver for the `olvm` engine (C17). Stateless: every line carries the decoded
  pre-state records of all addresses the harness tracks, the transaction, and the interpreter's
  observed outputs; the model prints the result code / stage / gas and the post-state records.

  deliver <enabled> <minFee> <gasPool> <newAddr|~> <meterShut> <feeGasLeft>
          <from> <to|~> <nonce> <value> <gas> <price> <nz> <z> <size> <memo|x>
          <sigs> <sigOk> <chainOk> <senderOk> <feeCurOk> <amtCurOk> <addrOk> <chainNil>
          <payloadCanon> <signerKeyOk> <typeOk> <memoCanon>
          <vmGasLeft> <vmRefund> <vmFailed> <vmRetCode> <effs|->
          <pool> <accts>
  check   (same fields; the vm fields are ignored)

    effs  = comma separated  s:<addr>:<n> | a:<addr>:<n> | x:<addr>
    accts = comma separated  <addr>=<balance>:<nonce>:<code 0|1>   or   <addr>=<balance>:~   (no keeper record)

  out: code <c> stage <name> used <gasUsed> wanted <gasWanted> pool <n> accts <same addresses, same order>
-/
import OLP.Olvm.Model

namespace Driver.Olvm
open OLP OLP.Ledger OLP.Olvm

def b01 (s : String) : Bool := s == "1"

def optAddr (s : String) : Option String := if s == "~" then none else some s

def parseEff (s : String) : Option Eff :=
  match s.splitOn ":" with
  | ["s", a, n] => n.toInt?.map (Eff.sub a)
  | ["a", a, n] => n.toInt?.map (Eff.add a)
  | ["x", a] => some (Eff.suicide a)
  | _ => none

def parseEffs (s : String) : Option (List Eff) :=
  if s == "-" then some [] else (s.splitOn ",").mapM parseEff

/-- one account token → (address, balance, keeper record) -/
def parseAcct (s : String) : Option (Addr × Int × Option KRec) :=
  match s.splitOn "=" with
  | [a, rest] =>
    match rest.splitOn ":" with
    | [b, "~"] => b.toInt?.map fun b => (a, b, none)
    | [b, n, c] =>
      match b.toInt?, n.toNat? with
      | some b, some n => some (a, b, some ⟨n, b01 c⟩)
      | _, _ => none
    | _ => none
  | _ => none

def parseAccts (s : String) : Option (List (Addr × Int × Option KRec)) :=
  if s == "-" then some [] else (s.splitOn ",").mapM parseAcct

def mkWorld (pool : Int) (accts : List (Addr × Int × Option KRec)) : World :=
  { bal := accts.filterMap (fun (a, b, _) => if b = 0 then none else some (a, b)),
    keeper := accts.filterMap (fun (a, _, r) => r.map fun r => (a, r)),
    pool := pool }

def showAcct (w : World) (a : Addr) : String :=
  let b := nativeBalance w a
  match alookup a w.keeper with
  | none => s!"{a}={b}:~"
  | some r => s!"{a}={b}:{r.nonce}:{if r.code then 1 else 0}"

def showVErr : VErr → String
  | .notEnabled => "notEnabled" | .payloadEnc => "payloadEnc" | .signerKey => "signerKey" | .txType => "txType"
  | .sigCount => "sigCount" | .sigBad => "sigBad" | .chainId => "chainId"
  | .sender => "sender" | .feeCurrency => "feeCurrency" | .feePrice => "feePrice" | .currency => "currency"
  | .address => "address" | .oversized => "oversized" | .negative => "negative" | .gasLimit => "gasLimit"
  | .nonceLow => "nonceLow" | .funds => "funds" | .intrinsic => "intrinsic" | .memoParse => "memoParse"
  | .memoNonce => "memoNonce"

def showTErr : TErr → String
  | .nonceLow => "nonceLow" | .notEOA => "notEOA" | .funds => "funds" | .gasPool => "gasPool"
  | .intrinsic => "intrinsic" | .fundsTransfer => "fundsTransfer"

def showStage : Stage → String
  | .invalid e => "invalid:" ++ showVErr e
  | .consensus e => "consensus:" ++ showTErr e
  | .panic => "panic"
  | .gasOverflow => "gasOverflow"
  | .feeRefused => "feeRefused"
  | .reverted => "reverted"
  | .success => "success"

/-- which branch of the outer layer of `EVM.Call` / `EVM.create` an executed transaction took
    (diagnostic only: counted into the harness' distribution, not compared) -/
def pathTag (env : Env) (s : St) (tx : Tx) (vm : VmOut) : String :=
  match validate env s.w tx with
  | some _ => "refused"
  | none =>
    match preCheck env s tx with
    | .error _ => "consensus"
    | .ok s1 =>
      match tx.to with
      | none =>
        let s0 := setNonce s1 tx.sender (evmNonce s1 tx.sender + 1)
        if evmNonce s0 env.newAddr ≠ 0 ∨ evmCode s0 env.newAddr then "create:collision"
        else (if evmExist s0 env.newAddr then "create:prefunded" else "create:fresh") ++
             (if vm.failed then ":failed" else if vm.retCode then ":code" else ":nocode") ++
             (if tx.value = 0 then ":v0" else ":v+")
      | some to =>
        let s1 := setNonce s1 tx.sender (evmNonce s1 tx.sender + 1)
        if !evmExist s1 to && decide (tx.value = 0) then "call:absent-zero-value"
        else
          let ex := if evmExist s1 to then "existing" else "absent"
          if !evmCode s1 to then s!"call:{ex}:nocode" ++ (if tx.value = 0 then ":v0" else ":v+")
          else "call:code" ++ (if vm.failed then ":failed" else ":ok") ++ (if tx.value = 0 then ":v0" else ":v+") ++
               (if vm.effs.isEmpty then "" else ":effs") ++ (if vm.refund = 0 then "" else ":refund") ++
               (if noSuicide vm.effs then "" else ":selfdestruct")

structure Parsed where
  env : Env
  tx : Tx
  vm : VmOut
  pool : Int
  accts : List (Addr × Int × Option KRec)

def parseFields (f : List String) : Option Parsed :=
  match f with
  | enabled :: minFee :: gasPool :: newAddr :: meterShut :: feeGasLeft :: [from_, to, nonce, value, gas, price, nz, z, size, memo,
     sigs, sigOk, chainOk, senderOk, feeCurOk, amtCurOk, addrOk, chainNil,
     payloadCanon, signerKeyOk, typeOk, memoCanon,
     vmGasLeft, vmRefund, vmFailed, vmRetCode, effs, pool, accts] =>
    match minFee.toInt?, gasPool.toNat?, nonce.toNat?, value.toInt?, gas.toInt?, price.toInt?, nz.toNat?, z.toNat?, feeGasLeft.toNat? with
    | some minFee, some gasPool, some nonce, some value, some gas, some price, some nz, some z, some feeGasLeft =>
      match size.toNat?, sigs.toNat?, vmGasLeft.toNat?, vmRefund.toNat?, parseEffs effs, pool.toInt?, parseAccts accts with
      | some size, some sigs, some vmGasLeft, some vmRefund, some effs, some pool, some accts =>
        some {
          env := { enabled := b01 enabled, minFee := minFee, gasPool := gasPool, newAddr := if newAddr == "~" then "" else newAddr,
                   meterShut := b01 meterShut, feeGasLeft := feeGasLeft },
          tx := { sender := from_, to := optAddr to, nonce := nonce, value := value, gas := gas, price := price, nz := nz, z := z,
                  size := size, memo := if memo == "x" then none else memo.toNat?, sigs := sigs, sigOk := b01 sigOk,
                  chainOk := b01 chainOk, senderOk := b01 senderOk, feeCurOk := b01 feeCurOk, amtCurOk := b01 amtCurOk,
                  addrOk := b01 addrOk, chainNil := b01 chainNil, payloadCanon := b01 payloadCanon,
                  signerKeyOk := b01 signerKeyOk, typeOk := b01 typeOk, memoCanon := b01 memoCanon },
          vm := { gasLeft := vmGasLeft, refund := vmRefund, failed := b01 vmFailed, retCode := b01 vmRetCode, effs := effs },
          pool := pool, accts := accts }
      | _, _, _, _, _, _, _ => none
    | _, _, _, _, _, _, _, _, _ => none
  | _ => none

def stepLine (line : String) : String :=
  let toks := (line.splitOn " ").filter (· ≠ "")
  match toks with
  | [] => ""
  | "#" :: _ => line
  | "deliver" :: f =>
    match parseFields f with
    | none => "bad-op"
    | some p =>
      let s : St := ⟨mkWorld p.pool p.accts, []⟩
      let (s', r) := deliverOlvm p.env s p.tx p.vm
      let addrs := p.accts.map (·.1)
      s!"code {r.code} stage {showStage r.stage} used {r.gasUsed} wanted {r.gasWanted} pool {s'.w.pool} burnt {burnt p.env s p.tx p.vm} live {s'.cache.length} accts " ++
        (if addrs.isEmpty then "-" else ",".intercalate (addrs.map (showAcct s'.w))) ++ " path " ++ pathTag p.env s p.tx p.vm
  | "check" :: f =>
    match parseFields f with
    | none => "bad-op"
    | some p =>
      let s : St := ⟨mkWorld p.pool p.accts, []⟩
      let (_, c) := checkOlvm p.env s p.tx
      let st := match validate p.env s.w p.tx with
        | some e => "invalid:" ++ showVErr e
        | none => "accepted"
      s!"code {c} stage {st}"
  | _ => "bad-op"

partial def loop (hin : IO.FS.Stream) (hout : IO.FS.Stream) : IO Unit := do
  let line ← hin.getLine
  if line.isEmpty then return ()
  let line := (line.trimAsciiEnd).toString
  hout.putStrLn (stepLine line)
  loop hin hout

def main : IO Unit := do
  let hin ← IO.getStdin
  let hout ← IO.getStdout
  loop hin hout

end Driver.Olvm

/-
  Line-protocol driver for the `sigm` engine (C04): runs the executable definitions of
  OLP/Sig/Model.lean.  One input line → one output line; `# …` lines are echoed.

    raw <type> <data> <currency> <value> <gas> <memo>
        data: `~` = nil, `-` = empty, else hex;  currency / memo: `-` = empty, else hex of the
        UTF-8 bytes.            → `bytes <hex of serBytes> rt=<1 iff unser (ser t) = some t>`
                                 | `invalid-utf8` (strings that cannot come out of json.Unmarshal)
    vb <n> <signer>×n <m> (<alg> <pk> <parses> <addr> <verify>)×m
        signer / pk: `-` = empty, else hex; alg = keys.Algorithm as an integer; parses, addr, verify
        are the answers of the real library primitives for that key / signature (addr `~` when the
        key has no handler).   → `vb <ok|unmatch|badkey|badsig|panic> <addr>:<verify>,…`
        (second token: what the MODEL's key-handler layer says `h.Address()` / `h.VerifyBytes` are)
    olvm <nsigs> <sig length> <chain id derived from the signature|~> <recovered sender|~>
         <payload chain id|~> <payload from> <nonce> <memo> <address of the named public key|~>
         <payload type> <access list present 0|1> <payload bytes = Marshal(Unmarshal(bytes)) 0|1>
                                                                 → `olvm <ok|reject|panic>`
-/
import OLP.Sig.Model

namespace Driver.Sig
open OLP.Sig

def hexDigit (c : Char) : Option Nat :=
  if '0' ≤ c ∧ c ≤ '9' then some (c.toNat - 48)
  else if 'a' ≤ c ∧ c ≤ 'f' then some (c.toNat - 87)
  else none

def hexToBytesAux : List Char → List UInt8 → Option (List UInt8)
  | [], acc => some acc.reverse
  | [_], _ => none
  | a :: b :: rest, acc =>
    match hexDigit a, hexDigit b with
    | some x, some y => hexToBytesAux rest (UInt8.ofNat (16 * x + y) :: acc)
    | _, _ => none

/-- `-` = empty -/
def hexToBytes (s : String) : Option (List UInt8) :=
  if s == "-" then some [] else hexToBytesAux s.toList []

def nib (n : Nat) : Char := if n < 10 then Char.ofNat (48 + n) else Char.ofNat (87 + n)

def bytesToHex (b : List UInt8) : String :=
  if b.isEmpty then "-" else
  String.ofList (b.foldr (fun x acc => nib (x.toNat / 16) :: nib (x.toNat % 16) :: acc) [])

def strOfHex (s : String) : Option (List Char) :=
  match hexToBytes s with
  | none => none
  | some b => (String.fromUTF8? (ByteArray.mk b.toArray)).map String.toList

def showVB : VB → String
  | .ok => "ok" | .unmatch => "unmatch" | .badKey => "badkey" | .badSig => "badsig" | .panic => "panic"

/-- one signature entry of a `vb` line -/
structure Entry where
  pk     : PubKey
  parses : Bool
  addr   : Bytes
  verify : Bool

def parseEntries : List String → Option (List Entry)
  | [] => some []
  | alg :: pk :: parses :: addr :: verify :: rest =>
    match alg.toNat?, hexToBytes pk, parseEntries rest with
    | some a, some pkb, some tl =>
      let ad := if addr == "~" then some [] else hexToBytes addr
      match ad with
      | none => none
      | some ad => some ({ pk := ⟨Alg.ofCode a, pkb⟩, parses := parses == "1", addr := ad, verify := verify == "1" } :: tl)
    | _, _, _ => none
  | _ => none

def takeN {α : Type} : Nat → List α → Option (List α × List α)
  | 0, l => some ([], l)
  | _ + 1, [] => none
  | n + 1, x :: l => (takeN n l).map (fun p => (x :: p.1, p.2))

def allSome {α : Type} : List (Option α) → Option (List α)
  | [] => some []
  | none :: _ => none
  | some x :: l => (allSome l).map (x :: ·)

def doVB (toks : List String) : String :=
  match toks with
  | n :: rest =>
    match n.toNat? with
    | none => "bad-op"
    | some n =>
      match takeN n rest with
      | none => "bad-op"
      | some (sg, rest) =>
        match allSome (sg.map hexToBytes), rest with
        | some signers, m :: rest =>
          match m.toNat?, parseEntries rest with
          | some m, some es =>
            if es.length ≠ m then "bad-op" else
            -- the primitives answer by key; signatures are identified by their position
            let find (pk : PubKey) : Option Entry := es.find? (fun e => e.pk == pk)
            let prims : Prims Unit Nat :=
              { parses := fun pk => (find pk).map (·.parses) |>.getD false,
                hashAddr := fun pk => (find pk).map (·.addr) |>.getD [],
                sigVerify := fun _ _ i => (es[i]?).map (·.verify) |>.getD false }
            let sigs : List (Sig PubKey Nat) := (List.range es.length).zip es |>.map (fun p => ⟨p.2.pk, p.1⟩)
            let r := validateBasicK prims () signers sigs
            -- a key without a handler has neither an address nor a VerifyBytes
            let per := sigs.map (fun g =>
              match keyAddr prims g.signer with
              | none => "~:0"
              | some a => s!"{bytesToHex a}:{if keyVerify prims g.signer () g.signed then 1 else 0}")
            s!"vb {showVB r} {if per.isEmpty then "-" else ",".intercalate per}"
          | _, _ => "bad-op"
        | _, _ => "bad-op"
  | _ => "bad-op"

def doRaw (toks : List String) : String :=
  match toks with
  | [ty, data, cur, value, gas, memo] =>
    let d : Option (Option Bytes) := if data == "~" then some none else (hexToBytes data).map some
    match ty.toInt?, d, value.toInt?, gas.toInt? with
    | some ty, some d, some v, some g =>
      match strOfHex cur, strOfHex memo with
      | some cur, some memo =>
        let t : RawTx := { type := ty, data := d, currency := cur, value := v, gas := g, memo := memo }
        let rt := if unser (ser t) == some t then 1 else 0
        s!"bytes {bytesToHex (serBytes t).toList} rt={rt}"
      | _, _ => "invalid-utf8"
    | _, _, _, _ => "bad-op"
  | _ => "bad-op"

def doOlvm (toks : List String) : String :=
  match toks with
  | [nsigs, siglen, dchain, rsender, pchain, sender, nonce, memo, keyaddr, txtype, al, canon] =>
    match nsigs.toNat?, siglen.toNat?, hexToBytes sender, nonce.toNat?, strOfHex memo, txtype.toInt? with
    | some k, some sl, some sender, some nonce, some memo, some tt =>
      let pc : Option (Option Int) := if pchain == "~" then some none else pchain.toInt?.map some
      let rs : Option (Option Bytes) := if rsender == "~" then some none else (hexToBytes rsender).map some
      let ka : Option (Option Bytes) := if keyaddr == "~" then some none else (hexToBytes keyaddr).map some
      match pc, rs, ka with
      | some pc, some rs, some ka =>
        let lib : EthLib Bytes Unit Unit :=
          { sigLen := fun _ => sl, chainOf := fun _ => (dchain.toInt?).getD 0, sender := fun _ _ => rs }
        let v : OlvmView Bytes Unit :=
          { nonce := nonce, sender := sender, chainID := pc, eth := (), extra := ⟨tt, al == "1"⟩ }
        let sigs : List (Sig Unit Unit) := List.replicate k ⟨(), ()⟩
        -- payload bytes as a number: 0 is what was received, `encode` answers 0 iff it is canonical
        match olvmValidate lib (fun _ => ka) (fun (_ : Nat) => some v) (fun _ => if canon == "1" then 0 else 1) 0 memo sigs with
        | .ok => "olvm ok"
        | .reject => "olvm reject"
        | .panic => "olvm panic"
      | _, _, _ => "bad-op"
    | _, _, _, _, _, _ => "bad-op"
  | _ => "bad-op"

def stepLine (line : String) : String :=
  let toks := (line.splitOn " ").filter (· ≠ "")
  match toks with
  | [] => ""
  | "#" :: _ => line
  | "raw" :: rest => doRaw rest
  | "vb" :: rest => doVB rest
  | "olvm" :: rest => doOlvm rest
  | _ => "bad-op"

partial def loop (hin hout : IO.FS.Stream) : IO Unit := do
  let line ← hin.getLine
  if line.isEmpty then return ()
  hout.putStrLn (stepLine (line.trimAsciiEnd).toString)
  loop hin hout

def main : IO Unit := do
  let hin ← IO.getStdin
  let hout ← IO.getStdout
  loop hin hout

end Driver.Sig

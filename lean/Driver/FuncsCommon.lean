/-
  Line protocol of the `funcs` engine: the definitions the function translator generates from the
  Go source (OLP/Gen/Funcs.lean) are EXECUTED on the inputs the harness also hands to the Go
  functions themselves. This validates what the translator is trusted for (the meaning it gives to
  math/big's Div / Mod / Int64 / Cmp, to the dropped guards, to loops as folds). One executable per
  property group, so that a function that stops translating breaks the checks of its own property only.

  input :  <function> <arg> …     integers in decimal, booleans 0/1, lists comma-separated (`-` = empty)
  output:  the results, space separated, in the same spelling; `bad-op` for an unknown line
-/
namespace Driver.Funcs

def b2s (b : Bool) : String := if b then "1" else "0"
def s2b (s : String) : Option Bool := if s == "1" then some true else if s == "0" then some false else none
def parseList (s : String) : Option (List Int) :=
  if s == "-" then some [] else (s.splitOn ",").mapM String.toInt?

partial def loop (step : List String → String) (h : IO.FS.Stream) : IO Unit := do
  let line ← h.getLine
  if line.isEmpty then return ()
  let toks := (line.trimAscii.toString.splitOn " ").filter (· ≠ "")
  IO.println (step toks)
  loop step h

end Driver.Funcs

/-
  Line-protocol driver for the `evm` engine (C16): runs the port of the adapter (`Impl`) and the
  reference semantics (`Ref`) side by side on the same op lines.  One input line → one output line
  `I <adapter-model output> R <reference-model output>`; all numbers decimal.

    new tomb=<code> ripemd=<addr> acct=a:nonce:code,… bal=a:n,… code=c,… stor=a:k:v,…
    create a · addbal a n · subbal a n · getbal a · getnonce a · setnonce a n · codehash a · code a ·
    setcode a c · codesize a · addrefund n · subrefund n · refund · cstate a k · state a k ·
    setstate a k v · suicide a · suicided a · exist a · empty a · aladdr a · alslot a k · inaddr a ·
    inslot a k · prepare h · addlog a p · logs · snap · revert id · finalise 0|1 · reset · commit ·
    obs a (the eight account getters) · obsk a k (GetState, GetCommittedState) · dump
-/
import OLP.Evm.Model

namespace Driver.Evm
open OLP OLP.Evm

structure St where
  cfg : Cfg
  impl : Option Impl     -- none after a panic
  ref : Option Ref
  safe : Bool := true    -- every guard of `Impl.safeRun` held so far in this case

/-- which guard of `Impl.guard` / `Impl.safeStep` fails for this call (`ok` = none) -/
def guardKind (c : Cfg) (s : Impl) (op : Op) : String :=
  let pre :=
    match op with
    | .prepare _ => if s.guard c op then "ok" else "inside-transaction"
    | .reset => if s.guard c op then "ok" else "inside-transaction"
    | .finalise false => "finalise-false"
    | .finalise true =>
      if !(s.objs.all fun ao => ao.2.dirtyHasOrigin) then "INVARIANT-BROKEN:dirty-slot-without-origin"
      else if s.finaliseGuard c then "ok" else "marker-code"
    | _ => if s.guard c op then "ok" else "GUARD-UNKNOWN"
  if pre != "ok" then pre
  else if (s.step c op).2 == Out.panic && !s.legitPanic op then "PANIC-NOT-SHARED" else "ok"

def showOut : Out → String
  | .unit => "u"
  | .nat n => s!"n {n}"
  | .bool b => if b then "b 1" else "b 0"
  | .bool2 a b => s!"bb {if a then 1 else 0} {if b then 1 else 0}"
  | .hash none => "c ~"
  | .hash (some h) => s!"c {h}"
  | .code c => s!"c {c}"
  | .logs l => "logs " ++ (if l.isEmpty then "-" else ",".intercalate (l.map fun (i, a, p) => s!"{i}:{a}:{p}"))
  | .panic => "panic"

def joinOrDash (l : List String) (sep : String := ",") : String := if l.isEmpty then "-" else sep.intercalate l

def sortBy {α : Type} (key : α → Nat × Nat) (l : List α) : List α :=
  l.mergeSort fun x y => let a := key x; let b := key y; a.1 < b.1 || (a.1 == b.1 && a.2 ≤ b.2)

def showStore (st : Store) : String :=
  let ac := (sortBy (fun x : Addr × (Nat × Code) => (x.1, 0)) st.acct).map fun (a, n, h) => s!"{a}:{n}:{h}"
  let bl := ((sortBy (fun x : Addr × Nat => (x.1, 0)) st.bal).filter (·.2 ≠ 0)).map fun (a, n) => s!"{a}:{n}"
  let cd := ((sortBy (fun x : Code × Code => (x.1, 0)) st.code).filter (·.2 ≠ 0)).map fun (h, _) => s!"{h}"
  let sr := ((sortBy (fun x : (Addr × Key) × Val => x.1) st.stor).filter (·.2 ≠ 0)).map fun ((a, k), v) => s!"{a}:{k}:{v}"
  s!"store acct={joinOrDash ac} bal={joinOrDash bl} code={joinOrDash cd} stor={joinOrDash sr}"

def showWorld (w : RWorld) : String :=
  let ac := (sortBy (fun x : Addr × RAcct => (x.1, 0)) w.accts).map fun (a, r) =>
    let sl := ((sortBy (fun x : Key × Val => (x.1, 0)) r.stor).filter (·.2 ≠ 0)).map fun (k, v) => s!"{k}={v}"
    s!"{a}:{r.nonce}:{r.bal}:{r.code}:{joinOrDash sl "+"}"
  "world " ++ joinOrDash ac

def nats (s : String) : Option (List Nat) := (s.splitOn ":").mapM (·.toNat?)

def items (s : String) : List String := if s == "-" || s == "" then [] else s.splitOn ","

def field (toks : List String) (name : String) : String :=
  match toks.find? (fun t => t.startsWith (name ++ "=")) with
  | some t => (t.drop (name.length + 1)).toString
  | none => "-"

/-- `new …`: the records, the adapter over them, the reference world holding the same accounts -/
def parseNew (toks : List String) : Option St := do
  let tomb ← (field toks "tomb").toNat?
  let ripemd ← (field toks "ripemd").toNat?
  let cfg : Cfg := { tomb := tomb, ripemd := ripemd }
  let accts ← (items (field toks "acct")).mapM nats
  let bals ← (items (field toks "bal")).mapM nats
  let codes ← (items (field toks "code")).mapM (·.toNat?)
  let stors ← (items (field toks "stor")).mapM nats
  let acct ← accts.mapM fun l => match l with | [a, n, h] => some (a, (n, h)) | _ => none
  let bal ← bals.mapM fun l => match l with | [a, n] => some (a, n) | _ => none
  let stor ← stors.mapM fun l => match l with | [a, k, v] => some ((a, k), v) | _ => none
  -- a code equal to the marker cannot be stored (Set of the marker value is a delete)
  let st : Store := { acct := acct, bal := bal, code := (codes.filter (· ≠ tomb)).map (fun c => (c, c)), stor := stor }
  let slotsOf (a : Addr) : List (Key × Val) := (stor.filter (fun x => x.1.1 == a)).map fun x => (x.1.2, x.2)
  let balOf (a : Addr) : Nat := (alookup a bal).getD 0
  let w1 : List (Addr × RAcct) := acct.map fun (a, n, h) =>
    (a, { nonce := n, bal := balOf a, code := h, stor := slotsOf a, cstor := slotsOf a, suicided := false })
  let w2 : List (Addr × RAcct) := (bal.filter fun (a, n) => n ≠ 0 && (alookup a acct).isNone).map fun (a, n) =>
    (a, { RAcct.fresh n with stor := slotsOf a, cstor := slotsOf a })
  pure { cfg := cfg, impl := some (Impl.init st), ref := some (Ref.init (w1 ++ w2)), safe := st.sane }

def parseOp (toks : List String) : Option Op :=
  let n (s : String) := s.toNat?
  match toks with
  | ["create", a] => (n a).map .createAccount
  | ["addbal", a, x] => do pure (.addBalance (← n a) (← n x))
  | ["subbal", a, x] => do pure (.subBalance (← n a) (← n x))
  | ["getbal", a] => (n a).map .getBalance
  | ["getnonce", a] => (n a).map .getNonce
  | ["setnonce", a, x] => do pure (.setNonce (← n a) (← n x))
  | ["codehash", a] => (n a).map .getCodeHash
  | ["code", a] => (n a).map .getCode
  | ["setcode", a, c] => do pure (.setCode (← n a) (← n c))
  | ["codesize", a] => (n a).map .getCodeSize
  | ["addrefund", x] => (n x).map .addRefund
  | ["subrefund", x] => (n x).map .subRefund
  | ["refund"] => some .getRefund
  | ["cstate", a, k] => do pure (.getCommittedState (← n a) (← n k))
  | ["state", a, k] => do pure (.getState (← n a) (← n k))
  | ["setstate", a, k, v] => do pure (.setState (← n a) (← n k) (← n v))
  | ["suicide", a] => (n a).map .suicide
  | ["suicided", a] => (n a).map .hasSuicided
  | ["exist", a] => (n a).map .exist
  | ["empty", a] => (n a).map .empty
  | ["aladdr", a] => (n a).map .addAddressToAccessList
  | ["alslot", a, k] => do pure (.addSlotToAccessList (← n a) (← n k))
  | ["inaddr", a] => (n a).map .addressInAccessList
  | ["inslot", a, k] => do pure (.slotInAccessList (← n a) (← n k))
  | ["prepare", h] => (n h).map .prepare
  | ["addlog", a, p] => do pure (.addLog (← n a) (← n p))
  | ["logs"] => some .getLogs
  | ["snap"] => some .snapshot
  | ["revert", id] => (n id).map .revertToSnapshot
  | ["finalise", b] => some (.finalise (b == "1"))
  | ["reset"] => some .reset
  | _ => none

/-- the macro lines: several getters in the order the harness calls them -/
def macroOps (toks : List String) : Option (String × List Op) :=
  match toks with
  | ["obs", a] => a.toNat?.map fun a => ("acct", [.exist a, .empty a, .hasSuicided a, .getNonce a, .getBalance a, .getCodeHash a, .getCode a, .getCodeSize a])
  | ["obsk", a, k] => do let a ← a.toNat?; let k ← k.toNat?; pure ("slot", [.getState a k, .getCommittedState a k])
  | _ => none

def bareOut : Out → String
  | .unit => "u"
  | .nat n => s!"{n}"
  | .bool b => if b then "1" else "0"
  | .bool2 a b => s!"{if a then 1 else 0} {if b then 1 else 0}"
  | .hash none => "~"
  | .hash (some h) => s!"{h}"
  | .code c => s!"{c}"
  | .logs _ => "?"
  | .panic => "panic"

def runMacro {σ : Type} (step : σ → Op → σ × Out) (s : σ) (tag : String) (ops : List Op) : Option σ × String :=
  let rec go (s : σ) (acc : List String) : List Op → Option σ × String
    | [] => (some s, tag ++ " " ++ " ".intercalate acc.reverse)
    | op :: rest =>
      let (s1, o) := step s op
      if o == .panic then (none, "panic") else go s1 (bareOut o :: acc) rest
  go s [] ops

def stepLine (s : St) (line : String) : St × String :=
  let toks := (line.splitOn " ").filter (· ≠ "")
  match toks with
  | [] => (s, "")
  | "#" :: _ => (s, line)
  | "new" :: rest =>
    match parseNew rest with
    | some s' => (s', "I ok R ok G " ++ (if s'.safe then "ok" else "start-not-sane"))
    | none => (s, "bad-op")
  | ["commit"] => (s, "I u R u G ok")
  | ["dump"] =>
    let i := match s.impl with | some x => showStore x.store | none => "dead"
    let r := match s.ref with | some x => showWorld x.cur | none => "dead"
    (s, s!"I {i} R {r} G {if s.safe then "ok" else "-"}")
  | _ =>
    match macroOps toks with
    | some (tag, ops) =>
      let (i', io) := match s.impl with
        | some x => runMacro (fun st op => Impl.step s.cfg st op) x tag ops
        | none => (none, "dead")
      let (r', ro) := match s.ref with
        | some x => runMacro (fun st op => Ref.step s.cfg st op) x tag ops
        | none => (none, "dead")
      let gk := if s.safe then (if io != ro then "THEOREM-VIOLATED" else "ok") else "-"
      ({ s with impl := i', ref := r' }, s!"I {io} R {ro} G {gk}")
    | none =>
      match parseOp toks with
      | none => (s, "bad-op")
      | some op =>
        let gk := match s.impl with
          | some x => if s.safe then guardKind s.cfg x op else "-"
          | none => "-"
        let (i', io) := match s.impl with
          | some x => let (x', o) := Impl.step s.cfg x op; (if o == Out.panic then none else some x', showOut o)
          | none => (none, "dead")
        let (r', ro) := match s.ref with
          | some x => let (x', o) := Ref.step s.cfg x op; (if o == Out.panic then none else some x', showOut o)
          | none => (none, "dead")
        let safe' := s.safe && gk == "ok"
        -- `impl_refines_ref_partial`, observed: inside the guards both models answer alike
        let gk' := if safe' && io != ro then "THEOREM-VIOLATED" else gk
        ({ s with impl := i', ref := r', safe := safe' }, s!"I {io} R {ro} G {gk'}")

partial def loop (hin hout : IO.FS.Stream) (s : St) : IO Unit := do
  let line ← hin.getLine
  if line.isEmpty then return ()
  let line := (line.trimAsciiEnd).toString
  let (s', out) := stepLine s line
  hout.putStrLn out
  loop hin hout s'

def main : IO Unit := do
  let hin ← IO.getStdin
  let hout ← IO.getStdout
  loop hin hout { cfg := { tomb := 0, ripemd := 3 }, impl := none, ref := none }

end Driver.Evm

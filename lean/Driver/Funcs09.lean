import OLP.Gen.Funcs
import Driver.FuncsCommon
open OLP.Gen.Funcs Driver.Funcs

def step09 (t : List String) : String :=
  match t with
  | ["gasConsume", l, c, a, k, ov] => (do let l ← l.toInt?; let c ← c.toInt?; let a ← a.toInt?; let k ← k.toInt?; let ov ← s2b ov; let r := gasConsume l c a k ov; pure s!"{b2s r.1} {r.2}").getD "bad-op"
  | ["gasIsEnough", l, c] => (do let l ← l.toInt?; let c ← c.toInt?; pure (b2s (gasIsEnough l c))).getD "bad-op"
  | ["gasGetLeft", l, c] => (do let l ← l.toInt?; let c ← c.toInt?; pure s!"{gasGetLeft l c}").getD "bad-op"
  | _ => "bad-op"

def main : IO Unit := do loop step09 (← IO.getStdin)

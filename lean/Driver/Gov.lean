/-
  Line-protocol driver for the `gov` engine (C14).  Stateless steps: every input line carries the
  operation and the decoded pre-state records it can touch; the output line carries the result
  code and the post-state records in the same notation (lists sorted), so that the harness can
  compare it literally with what the real application left behind.

  input  := <op> { " | " <section> }
  op     := create pid ptype proposer initial fd goal vd pass cfghex fee
          | fund pid funder value fee | vote pid payer validator opinion fee
          | cancel pid proposer fee  | withdraw pid funder value beneficiary fee
          | expire pid | finalize pid | end
  section:= h <height> | opts <config> <code> <general> <bounty> <minFeeDecimal> <perBlockFees> <baseDomainPrice> <luhFee> <luhOns>
          | vals <addr:power:active:committed,…|->  | bal <addr=amount,…|->
          | item <pid> <A> <P> <F> <Z> <X> <votes> <funds> <total>        (state before the op)
          | bitem …                                                        (`end` only: state at BeginBlock)
  proposal := ptype.status.outcome.proposer.fd.goal.vd.pass.cfghex | ~
-/
import OLP.Gov.Model

namespace Driver.Gov
open OLP OLP.Gov OLP.Ledger

def hexVal (c : Char) : Option Nat :=
  if '0' ≤ c ∧ c ≤ '9' then some (c.toNat - '0'.toNat)
  else if 'a' ≤ c ∧ c ≤ 'f' then some (c.toNat - 'a'.toNat + 10)
  else none

def unhexAux : List Char → List Char → Option (List Char)
  | [], acc => some acc.reverse
  | [_], _ => none
  | a :: b :: t, acc =>
    match hexVal a, hexVal b with
    | some x, some y => unhexAux t (Char.ofNat (x * 16 + y) :: acc)
    | _, _ => none

/-- configuration strings travel as hex of their (ASCII) bytes; `-` = empty -/
def unhex (s : String) : Option String :=
  if s == "-" then some "" else (unhexAux s.toList []).map String.ofList

def hexDigit (n : Nat) : Char := if n < 10 then Char.ofNat (48 + n) else Char.ofNat (87 + n)

def hex (s : String) : String :=
  if s.isEmpty then "-" else String.ofList (s.toList.flatMap fun c => [hexDigit (c.toNat / 16), hexDigit (c.toNat % 16)])

def splitList (s : String) (sep : String) : List String := if s == "-" then [] else s.splitOn sep

def showList (l : List String) (sep : String) : String :=
  if l.isEmpty then "-" else sep.intercalate (l.mergeSort (fun a b => decide (a ≤ b)))

def parseBool (s : String) : Option Bool := if s == "1" then some true else if s == "0" then some false else none
def showBool (b : Bool) : String := if b then "1" else "0"

def parsePType : String → Option PType
  | "config" => some .config | "code" => some .code | "general" => some .general | _ => none
def showPType : PType → String
  | .config => "config" | .code => "code" | .general => "general"

def parseStatus : String → Option Status
  | "funding" => some .funding | "voting" => some .voting | "completed" => some .completed | _ => none
def showStatus : Status → String
  | .funding => "funding" | .voting => "voting" | .completed => "completed"

def parseOutcome : String → Option Outcome
  | "inProgress" => some .inProgress | "insFunds" => some .insufficientFunds | "insVotes" => some .insufficientVotes
  | "no" => some .completedNo | "cancelled" => some .cancelled | "yes" => some .completedYes | _ => none
def showOutcome : Outcome → String
  | .inProgress => "inProgress" | .insufficientFunds => "insFunds" | .insufficientVotes => "insVotes"
  | .completedNo => "no" | .cancelled => "cancelled" | .completedYes => "yes"

def parseOpinion : String → Option Opinion
  | "u" => some .unknown | "y" => some .yes | "n" => some .no | "g" => some .giveup | _ => none
def showOpinion : Opinion → String
  | .unknown => "u" | .yes => "y" | .no => "n" | .giveup => "g"

def parseProposal (s : String) : Option (Option Proposal) :=
  if s == "~" then some none else
  match s.splitOn "." with
  | [pt, st, oc, pr, fd, g, vd, pp, cfg] => do
    let pt ← parsePType pt; let st ← parseStatus st; let oc ← parseOutcome oc
    let fd ← fd.toInt?; let g ← g.toInt?; let vd ← vd.toInt?; let pp ← pp.toInt?; let cfg ← unhex cfg
    pure (some { ptype := pt, status := st, outcome := oc, proposer := pr, fundingDeadline := fd,
                 fundingGoal := g, votingDeadline := vd, passPercent := pp, cfg := cfg })
  | _ => none

def showProposal : Option Proposal → String
  | none => "~"
  | some p => ".".intercalate [showPType p.ptype, showStatus p.status, showOutcome p.outcome, p.proposer,
      toString p.fundingDeadline, toString p.fundingGoal, toString p.votingDeadline, toString p.passPercent, hex p.cfg]

def parseVote (s : String) : Option (Addr × VoteRec) :=
  match s.splitOn ":" with
  | [a, o, p, c] => do
    let o ← parseOpinion o; let p ← p.toInt?; let c ← parseBool c
    pure (a, { opinion := o, power := p, committed := c })
  | _ => none
def showVote (kv : Addr × VoteRec) : String :=
  s!"{kv.1}:{showOpinion kv.2.opinion}:{kv.2.power}:{showBool kv.2.committed}"

def parseFund (s : String) : Option (Addr × FundRec) :=
  match s.splitOn ":" with
  | [a, v, c] => do
    let v ← v.toInt?; let c ← parseBool c
    pure (a, { amount := v, committed := c })
  | _ => none
def showFund (kv : Addr × FundRec) : String := s!"{kv.1}:{kv.2.amount}:{showBool kv.2.committed}"

def parseVal (s : String) : Option (Addr × ValRec) :=
  match s.splitOn ":" with
  | [a, p, act, c] => do
    let p ← p.toInt?; let act ← parseBool act; let c ← parseBool c
    pure (a, { power := p, active := act, committed := c })
  | _ => none

def parseBal (s : String) : Option (Addr × Int) :=
  match s.splitOn "=" with
  | [a, v] => do let v ← v.toInt?; pure (a, v)
  | _ => none

def parseDist (s : String) : Option Dist :=
  match s.splitOn "/" with
  | [v, p, b, e, u] => do
    let v ← v.toInt?; let p ← p.toInt?; let b ← b.toInt?; let e ← e.toInt?; let u ← u.toInt?
    pure { validators := v, proposer := p, bounty := b, exec := e, burn := u }
  | _ => none

def parsePOpt (s : String) : Option POpt :=
  match s.splitOn "," with
  | [i, g, vd, pp, pd, fdist, ex] => do
    let i ← i.toInt?; let g ← g.toInt?; let vd ← vd.toInt?; let pp ← pp.toInt?
    let pd ← parseDist pd; let fdist ← parseDist fdist
    pure { initialFunding := i, fundingGoal := g, votingDeadline := vd, passPercent := pp,
           passedDist := pd, failedDist := fdist, execAddr := ex }
  | _ => none

def parseItem (toks : List String) : Option (PID × Item) :=
  match toks with
  | [pid, a, p, f, z, x, votes, funds, total] => do
    let a ← parseProposal a; let p ← parseProposal p; let f ← parseProposal f
    let z ← parseProposal z; let x ← parseProposal x
    let votes ← (splitList votes ",").mapM parseVote
    let funds ← (splitList funds ",").mapM parseFund
    let total ← total.toInt?
    pure (pid, { active := a, passed := p, failed := f, finalized := z, finFailed := x,
                 votes := votes, funds := funds, total := total })
  | _ => none

def showItem (kv : PID × Item) : String :=
  let it := kv.2
  " ".intercalate ["item", kv.1, showProposal it.active, showProposal it.passed, showProposal it.failed,
    showProposal it.finalized, showProposal it.finFailed, showList (it.votes.map showVote) ",",
    showList (it.funds.map showFund) ",", toString it.total]

def showOpts (o : Opts) : String :=
  s!"optv {o.minFeeDecimal} {o.perBlockFees} {o.baseDomainPrice} {o.luhFee} {o.luhOns} {o.other.length}"

def emptyOpts : Opts :=
  let d : Dist := { validators := 0, proposer := 0, bounty := 0, exec := 0, burn := 0 }
  let p : POpt := { initialFunding := 0, fundingGoal := 0, votingDeadline := 0, passPercent := 0,
                    passedDist := d, failedDist := d, execAddr := "" }
  { config := p, code := p, general := p, bountyAddr := "", minFeeDecimal := 0, perBlockFees := 0,
    baseDomainPrice := 0, luhFee := 0, luhOns := 0, other := [] }

def emptySt : St :=
  { height := 0, items := [], bal := [], burned := 0, opts := emptyOpts, applied := [], vals := [],
    qExpire := [], qFinalize := [] }

/-- pre-state under construction: the state, and the items as of BeginBlock (`bitem`) -/
structure Pre where
  s : St
  bitems : List (PID × Item)

def parseSection (p : Pre) (sec : String) : Option Pre :=
  match (sec.splitOn " ").filter (· ≠ "") with
  | ["h", h] => do let h ← h.toInt?; pure { p with s := { p.s with height := h } }
  | ["opts", c, k, g, bounty, mfd, pbf, bdp, lf, lo] => do
    let c ← parsePOpt c; let k ← parsePOpt k; let g ← parsePOpt g
    let mfd ← mfd.toInt?; let pbf ← pbf.toInt?; let bdp ← bdp.toInt?; let lf ← lf.toInt?; let lo ← lo.toInt?
    let o : Opts := { emptyOpts with config := c, code := k, general := g, bountyAddr := bounty }
    let o : Opts := { o with minFeeDecimal := mfd, perBlockFees := pbf, baseDomainPrice := bdp }
    let o : Opts := { o with luhFee := lf, luhOns := lo }
    pure { p with s := { p.s with opts := o } }
  | ["vals", l] => do
    let vs ← (splitList l ",").mapM parseVal
    pure { p with s := { p.s with vals := vs } }
  | ["bal", l] => do
    let bs ← (splitList l ",").mapM parseBal
    pure { p with s := { p.s with bal := bs } }
  | "item" :: rest => do
    let it ← parseItem rest
    pure { p with s := { p.s with items := p.s.items ++ [it] } }
  | "bitem" :: rest => do
    let it ← parseItem rest
    pure { p with bitems := p.bitems ++ [it] }
  | _ => none

def parseOp (toks : List String) : Option Op :=
  match toks with
  | ["create", pid, pt, pr, ini, fd, g, vd, pp, cfg, fee] => do
    let pt ← parsePType pt; let ini ← ini.toInt?; let fd ← fd.toInt?; let g ← g.toInt?
    let vd ← vd.toInt?; let pp ← pp.toInt?; let cfg ← unhex cfg; let fee ← fee.toInt?
    pure (.create pid pt pr ini fd g vd pp cfg fee)
  | ["fund", pid, f, v, fee] => do let v ← v.toInt?; let fee ← fee.toInt?; pure (.fund pid f v fee)
  | ["vote", pid, payer, val, o, fee] => do let o ← parseOpinion o; let fee ← fee.toInt?; pure (.vote pid payer val o fee)
  | ["cancel", pid, pr, fee] => do let fee ← fee.toInt?; pure (.cancel pid pr fee)
  | ["withdraw", pid, f, v, b, fee] => do let v ← v.toInt?; let fee ← fee.toInt?; pure (.withdraw pid f v b fee)
  | ["expire", pid] => some (.expire pid)
  | ["finalize", pid] => some (.finalize pid)
  | ["end"] => some .endBlock
  | _ => none

def showErr (e : Gov.Err) : String :=
  match e with
  | .invalid => "invalid" | .feeFailed => "feeFailed" | .invalidAmount => "invalidAmount"
  | .invalidFundingGoal => "invalidFundingGoal" | .invalidPassPercentage => "invalidPassPercentage"
  | .invalidVotingDeadline => "invalidVotingDeadline" | .invalidFundingDeadline => "invalidFundingDeadline"
  | .invalidOptions => "invalidOptions" | .validateGovState => "validateGovState"
  | .proposalExists => "proposalExists" | .deductFunding => "deductFunding"
  | .proposalNotExists => "proposalNotExists" | .fundingDeadlineCrossed => "fundingDeadlineCrossed"
  | .statusNotFunding => "statusNotFunding" | .balanceMinusFailed => "balanceMinusFailed"
  | .statusNotVoting => "statusNotVoting" | .votingHeightReached => "votingHeightReached"
  | .gettingValidatorList => "gettingValidatorList" | .addingVoteToVoteStore => "addingVoteToVoteStore"
  | .peekingVoteResult => "peekingVoteResult" | .unmatchedProposer => "unmatchedProposer"
  | .withdrawNotEligible => "withdrawNotEligible" | .noSuchFunder => "noSuchFunder"
  | .statusNotCompleted => "statusNotCompleted" | .unableToQueryVoteResult => "unableToQueryVoteResult"
  | .votingTBD => "votingTBD" | .finalizeConfigUpdateFailed => "finalizeConfigUpdateFailed"

def showRes : Res → String
  | .ok => "res ok" | .err e => "res err:" ++ showErr e

def showSt (s0 s : St) (r : Res) : String :=
  " | ".intercalate ([showRes r, showOpts s.opts,
      "bal " ++ showList (s.bal.map fun kv => s!"{kv.1}={kv.2}") ","]
    ++ (s.items.mergeSort (fun a b => decide (a.1 ≤ b.1))).map showItem
    ++ [s!"burned {s.burned - s0.burned}"])

def stepLine (line : String) : String :=
  match line.splitOn " | " with
  | [] => "bad-line"
  | opS :: secs =>
    match parseOp ((opS.splitOn " ").filter (· ≠ "")) with
    | none => "bad-op"
    | some op =>
      match secs.foldlM parseSection { s := emptySt, bitems := [] } with
      | none => "bad-section"
      | some pre =>
        let s0 : St :=
          match op with
          | .endBlock =>
            -- the queues are what BeginBlock derives from the items as they were committed
            let b := beginBlock { pre.s with items := pre.bitems } pre.s.height
            { pre.s with qExpire := b.qExpire, qFinalize := b.qFinalize }
          | _ => pre.s
        let (s1, r) := step smallEnv s0 op
        showSt s0 s1 r

partial def loop (hin hout : IO.FS.Stream) : IO Unit := do
  let line ← hin.getLine
  if line.isEmpty then return ()
  let line := (line.trimAsciiEnd).toString
  if line.startsWith "#" || line.isEmpty then hout.putStrLn line
  else hout.putStrLn (stepLine line)
  loop hin hout

def main : IO Unit := do
  let hin ← IO.getStdin
  let hout ← IO.getStdout
  loop hin hout

end Driver.Gov

/-
  Line-protocol driver for the `alleg` engine (C19).  STATELESS: every input line carries the
  decoded pre-state records and one operation; the output line is the result code and the
  post-state records in canonical (sorted) order.

    allege  h= rep= acc= id= bh= sig= fee=   <q= t= s= v=>             -> res=<code> <q= t= s= v=>
    vote    voter= id= ch= sig= fee=          <q= t= s= v=>             -> res=<code> <q= t= s= v=>
    release h= now= days= val= sig= fee=        <q= t= s= v=>             -> res=<code> <q= t= s= v=>
    guard   kind= val= sa=                    <q= s= r=>               -> guard=<frozen|openRequest|pass>
    begin   h= now= diff= minv= cv=           <r= q= t= s= v=>          -> begun <s=>
    elect   h= minself= top= pop=             <z= v=>                   -> active=<n> el=<addrs> <v=>
    tally   h= now= active= o= pf=            <r= k= q= t= s= v= T= E= D= B= U=> -> tallied <q= t= s= T= E= D= B= U=>

  ids are lower-case hex of the id bytes (`-` = empty id); addresses 40 hex digits.
  `r=` are validator records: those of the previous version for begin / tally; for guard the
  records whose key is in the committed tree with their current values (`Validators.Iterate`).
  `k=` (tally) are the validator records as they are when the tally runs.
  `pf` are the values of the big.Float penalty expression as computed by the Go runtime (the
  model is parametric in it: `FloatOps`); the `v=` records of a tally line are those left by the
  election pass of the same EndBlock.
-/
import OLP.Alleg.Model

namespace Driver.Alleg
open OLP OLP.Alleg

def unDash (s : String) : String := if s == "-" then "" else s
def dash (s : String) : String := if s.isEmpty then "-" else s

def splitKV (tok : String) : Option (String × String) :=
  match tok.splitOn "=" with
  | k :: v :: rest => some (k, "=".intercalate (v :: rest))
  | _ => none

def field (toks : List (String × String)) (k : String) : Option String :=
  (toks.find? (·.1 == k)).map (·.2)

def fieldI (toks : List (String × String)) (k : String) : Option Int :=
  (field toks k).bind String.toInt?

def fieldB (toks : List (String × String)) (k : String) : Bool := field toks k == some "1"

def parseVotes (s : String) : Option (List Vote) :=
  if s == "-" then some [] else
  (s.splitOn ",").mapM fun p =>
    match p.splitOn ":" with
    | [a, c] => c.toInt?.map fun ci => (⟨a, ci⟩ : Vote)
    | _ => none

/-- parses the state records of a line; unknown tokens are ignored (they are operation fields) -/
def parseState (toks : List (String × String)) : Option (State × List (Addr × ValRec) × List (Addr × Susp) × List (Addr × ValRec)) := do
  let mut st := State.empty
  let mut prev : List (Addr × ValRec) := []
  let mut cur : List (Addr × ValRec) := []
  let mut z : List (Addr × Susp) := []
  for (k, v) in toks do
    let p := v.splitOn "/"
    match k, p with
    | "q", [id, rep, acc, bh, status, votes] =>
      let vs ← parseVotes votes
      st := { st with reqs := st.reqs ++ [(unDash id, ⟨rep, acc, ← bh.toInt?, ← status.toInt?, vs⟩)] }
    | "t", [id] => st := { st with tracker := st.tracker ++ [unDash id] }
    | "s", [a, status, fh, fat, rh, rat] =>
      let ra ← if rat == "~" then some none else rat.toInt?.map some
      st := { st with susp := st.susp ++ [(a, ⟨← status.toInt?, ← fh.toInt?, ← fat.toInt?, ← rh.toInt?, ra⟩)] }
    | "z", [a, status, fh, fat, rh, rat] =>
      let ra ← if rat == "~" then some none else rat.toInt?.map some
      z := z ++ [(a, ⟨← status.toInt?, ← fh.toInt?, ← fat.toInt?, ← rh.toInt?, ra⟩)]
    | "v", [a, act, h] => st := { st with vstat := st.vstat ++ [(a, ⟨act == "1", ← h.toInt?⟩)] }
    | "r", [a, sa, pw] => prev := prev ++ [(a, ⟨sa, ← pw.toInt?⟩)]
    | "k", [a, sa, pw] => cur := cur ++ [(a, ⟨sa, ← pw.toInt?⟩)]
    | "T", [a, n] => st := { st with total := st.total ++ [(a, ← n.toInt?)] }
    | "E", [a, d, n] => st := { st with vd := st.vd ++ [((a, d), ← n.toInt?)] }
    | "D", [d, n] => st := { st with de := st.de ++ [(d, ← n.toInt?)] }
    | "W", [d, n] => st := { st with db := st.db ++ [(d, ← n.toInt?)] }
    | "B", [n] => st := { st with bounty := ← n.toInt? }
    | "U", [h, a, n] => st := { st with delayed := st.delayed ++ [((← h.toInt?, a), ← n.toInt?)] }
    | _, _ => pure ()
  return (st, prev, z, cur)

def sortBy {α : Type} (key : α → String) (l : List α) : List α := l.mergeSort fun a b => leS (key a) (key b)

def showRes : Res → String
  | .ok => "ok" | .rejected => "rejected" | .invalidHeight => "invalidHeight" | .frozen => "frozen"
  | .nonActive => "nonActive" | .selfAccused => "selfAccused" | .idBusy => "idBusy" | .exists => "exists"
  | .voteNotFound => "voteNotFound" | .badChoice => "badChoice" | .closed => "closed" | .dupVote => "dupVote"
  | .suspNotFound => "suspNotFound" | .alreadyReleased => "alreadyReleased" | .tooEarly => "tooEarly"
  | .notReady => "notReady" | .unsupported => "unsupported" | .openRequest => "openRequest"
  | .insufficient => "insufficient"

def showQ (st : State) : List String :=
  (sortBy (·.1) st.reqs).map fun (id, r) =>
    let vs := if r.votes.isEmpty then "-" else ",".intercalate (r.votes.map fun v => s!"{v.addr}:{v.choice}")
    s!"q={dash id}/{r.reporter}/{r.accused}/{r.height}/{r.status}/{vs}"

def showT (st : State) : List String := (sortIds st.tracker).map fun id => s!"t={dash id}"

def showS (susp : List (Addr × Susp)) : List String :=
  (sortBy (·.1) susp).map fun (a, s) =>
    let ra := match s.releaseAt with | none => "~" | some r => toString r
    s!"s={a}/{s.status}/{s.frozenHeight}/{s.frozenAt}/{s.releaseHeight}/{ra}"

def showV (vs : List (Addr × VStat)) : List String :=
  (sortBy (·.1) vs).map fun (a, s) => s!"v={a}/{if s.active then 1 else 0}/{s.height}"

def showStake (st : State) : List String :=
  ((sortBy (·.1) st.total).map fun (a, n) => s!"T={a}/{n}") ++
  ((sortBy (fun p => p.1.1 ++ "/" ++ p.1.2) st.vd).map fun ((a, d), n) => s!"E={a}/{d}/{n}") ++
  ((sortBy (·.1) st.de).map fun (d, n) => s!"D={d}/{n}") ++
  [s!"B={st.bounty}"] ++
  ((st.delayed.mergeSort fun a b => decide (a.1.1 < b.1.1) || (decide (a.1.1 = b.1.1) && leS a.1.2 b.1.2)).map
    fun ((h, a), n) => s!"U={h}/{a}/{n}")

def showEv (st : State) : List String := showQ st ++ showT st ++ showS st.susp ++ showV st.vstat

def parsePairs (s : String) : Option (List (String × Int)) :=
  if s == "-" then some [] else
  (s.splitOn ",").mapM fun p =>
    match p.splitOn ":" with
    | [a, n] => n.toInt?.map fun i => (a, i)
    | _ => none

def parseOpts (s : String) (minv diff days : Int) : Option Opts :=
  match (s.splitOn "/").mapM String.toInt? with
  | some [vp, vd, ap, ad, bp, bd, cp, cd] => some ⟨minv, diff, bp, bd, cp, cd, days, vp, vd, ap, ad⟩
  | _ => none

/-- the big.Float penalty as evaluated by the Go runtime (table of the line), the exact reading
    outside the table -/
def floatOps (pf : List (String × Int)) : FloatOps where
  penalty := fun stake o => ((pf.find? (·.1 == toString stake)).map (·.2)).getD (exactOps.penalty stake o)

def join (l : List String) : String := " ".intercalate l

def stepLine (line : String) : String :=
  let toks := (line.splitOn " ").filter (· ≠ "")
  match toks with
  | [] => ""
  | "#" :: _ => line
  | op :: rest =>
    let kvs := rest.filterMap splitKV
    match parseState kvs with
    | none => "bad-state"
    | some (st, prev, z, cur) =>
      let out : Option String := do
        match op with
        | "allege" =>
          let r := txAllege st (← fieldI kvs "h") (← field kvs "rep") (← field kvs "acc") (unDash (← field kvs "id"))
            (← fieldI kvs "bh") (fieldB kvs "sig") (fieldB kvs "fee")
          pure (join (s!"res={showRes r.1}" :: showEv r.2))
        | "vote" =>
          let r := txVote st (unDash (← field kvs "id")) (← field kvs "voter") (← fieldI kvs "ch") (fieldB kvs "sig") (fieldB kvs "fee")
          pure (join (s!"res={showRes r.1}" :: showEv r.2))
        | "release" =>
          let r := txRelease st (← fieldI kvs "days") (← field kvs "val") (← fieldI kvs "h") (← fieldI kvs "now") (fieldB kvs "sig") (fieldB kvs "fee")
          pure (join (s!"res={showRes r.1}" :: showEv r.2))
        | "guard" =>
          let g := stakingGuard st prev (← field kvs "kind") (← field kvs "val") (← field kvs "sa")
          pure ("guard=" ++ (if g == .ok then "pass" else showRes g))
        | "begin" =>
          let o : Opts := ⟨← fieldI kvs "minv", ← fieldI kvs "diff", 0, 1, 0, 1, 0, 0, 1, 0, 1⟩
          let cv ← parsePairs (← field kvs "cv")
          let st' := beginBlock o (← fieldI kvs "h") (← fieldI kvs "now") cv prev st
          pure (join ("begun" :: showS st'.susp))
        | "elect" =>
          let pop ← parsePairs (← field kvs "pop")
          let h ← fieldI kvs "h"
          let r := elect (← fieldI kvs "minself") (← fieldI kvs "top") h (malOf z) pop st.vstat
          let el := if r.elected.isEmpty then "-" else ",".intercalate (sortIds r.elected)
          pure (join (s!"active={r.cnt} el={el}" :: showV r.vstat))
        | "tally" =>
          let o ← parseOpts (← field kvs "o") 0 0 0
          let pf ← parsePairs (← field kvs "pf")
          let F := floatOps pf
          let env : Env := ⟨← fieldI kvs "h", ← fieldI kvs "now", ← fieldI kvs "active", o, prev, cur⟩
          let st' := tally F env st
          pure (join ("tallied" :: (showQ st' ++ showT st' ++ showS st'.susp ++ showStake st')))
        | _ => none
      out.getD "bad-op"

partial def loop (hin hout : IO.FS.Stream) : IO Unit := do
  let line ← hin.getLine
  if line.isEmpty then return ()
  hout.putStrLn (stepLine (line.trimAsciiEnd).toString)
  loop hin hout

def main : IO Unit := do
  loop (← IO.getStdin) (← IO.getStdout)

end Driver.Alleg

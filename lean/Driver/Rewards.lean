/-
  Line-protocol driver for the `rewards` engine (C13).  Every line carries the decoded pre-state
  records the step needs plus the operation; the model prints the writes / result it predicts.
  The only state kept between lines is the calculator's volatile cache per replica tag (it is
  private to the implementation and cannot be dumped); `restart <rep>` resets it to the fresh
  cache, `# case …` resets all of them.

    blk <rep> o=<interval>,<estSecs>,<cycle>,<window>,<burnout>,<share/share/…> h=<h>
        tm=<height:unix/…> closes=<unix/…> ydist=<~|close:dist:till/…> tdist=<n>
        votes=<addr:power:signed:known/…|-> prop=<addr|-> D=<n> pool=<n> active=<addr:amt/…|->
        chunks=<addr:idx:amt/…|-> addrs=<addr/…|-> ivs=<lastIndex:lastHeight/…|->
        mat=<addr:amt/…|-> dbal=<addr:amt/…|-> dtot=<n> pend=<addr:amt:bal/…|->
      → done pulled=<T> ydist=<…> tdist=<n> w=<record writes, sorted> ev=<addr:amt/…|-> prop=<n|~> dpool=<n|~>
      | skip ydist=<…>
      | crash
    wd mat=<n> wdn=<n> pool=<n> sb=<n> cur=<0|1> stake=<addr|~> signer=<addr> value=<n> charge=<n|~>
      → ok mat=<n> wdn=<n> pool=<n> sb=<n> | fail <reason> | unexplained
    fq <a> <b> → the float quotient the driver uses
-/
import OLP.Rewards.Model

namespace Driver.Rewards
open OLP OLP.Rewards

/-- `int64(float64(a) / float64(b))` as Go on amd64 computes it (out-of-range and NaN give the
    "integer indefinite" value -2^63) -/
def fqFloat (a b : Int) : Int :=
  let q := Float.ofInt a / Float.ofInt b
  if q.isNaN || q ≥ 9223372036854775808.0 || q < -9223372036854775808.0 then -9223372036854775808
  else q.toInt64.toInt

def splitOnC (s : String) (c : String) : List String := if s == "-" || s == "" then [] else s.splitOn c

def int! (s : String) : Int := s.toInt?.getD 0

def field (toks : List String) (name : String) : String :=
  match toks.find? (fun t => t.startsWith (name ++ "=")) with
  | some t => (t.drop (name.length + 1)).toString
  | none => ""

def parseOpts (s : String) : Opts :=
  match s.splitOn "," with
  | [i, es, cy, w, b, sh] => ⟨int! i, int! es, int! cy, int! w, (splitOnC sh "/").map int!, int! b⟩
  | _ => ⟨1, 1, 1, 1, [], 0⟩

def parseYears (s : String) : Option (List Year) :=
  if s == "~" then none else
  some ((splitOnC s "/").filterMap fun it =>
    match it.splitOn ":" with
    | [c, d, t] => some ⟨int! c, int! d, int! t⟩
    | _ => none)

def showYears (ys : List Year) : String :=
  if ys.isEmpty then "-" else "/".intercalate (ys.map fun y => s!"{y.close}:{y.dist}:{y.till}")

def parsePairs (s : String) : List (Addr × Int) :=
  (splitOnC s "/").filterMap fun it =>
    match it.splitOn ":" with
    | [a, x] => some (a, int! x)
    | _ => none

def parseVotes (s : String) : List Vote :=
  (splitOnC s "/").filterMap fun it =>
    match it.splitOn ":" with
    | [a, p, sg, kn] => some ⟨a, int! p, sg == "1", kn == "1"⟩
    | _ => none

def parseChunks (s : String) : Chunks :=
  (splitOnC s "/").filterMap fun it =>
    match it.splitOn ":" with
    | [a, i, x] => some ((a, int! i), int! x)
    | _ => none

def parseIvs (s : String) : Intervals :=
  (splitOnC s "/").filterMap fun it =>
    match it.splitOn ":" with
    | [i, h] => some (int! i, int! h)
    | _ => none

def parseTm (s : String) : Int → Int :=
  let l := (splitOnC s "/").filterMap fun it =>
    match it.splitOn ":" with
    | [h, t] => some (int! h, int! t)
    | _ => none
  fun h => (alookup h l).getD 0

def parseCloses (s : String) : Nat → Int :=
  let l := (splitOnC s "/").map int!
  fun i => l.getD i 0

/-- insertion sort on strings (the canonical order of the predicted writes) -/
def insertS (x : String) : List String → List String
  | [] => [x]
  | y :: t => if x ≤ y then x :: y :: t else y :: insertS x t
def sortS (l : List String) : List String := l.foldr insertS []

def dedupLast (l : List (String × String)) : List (String × String) :=
  l.foldl (fun acc p => upsert acc p.1 p.2) []

abbrev Caches := List (String × Cache)

def doBlk (caches : Caches) (toks : List String) : Caches × String :=
  match toks with
  | _ :: rep :: _ =>
    let o := parseOpts (field toks "o")
    let e : Env := ⟨o, parseTm (field toks "tm"), parseCloses (field toks "closes"), fqFloat⟩
    let pend3 := (splitOnC (field toks "pend") "/").filterMap fun it =>
      match it.splitOn ":" with
      | [a, x, b] => some (a, int! x, int! b)
      | _ => none
    let s : St := {
      ydist := parseYears (field toks "ydist"), tdist := int! (field toks "tdist"),
      chunks := parseChunks (field toks "chunks"), addrList := splitOnC (field toks "addrs") "/",
      newAddrs := [], intervals := parseIvs (field toks "ivs"), matured := parsePairs (field toks "mat"),
      withdrawn := [], delegBal := parsePairs (field toks "dbal"), delegTotal := int! (field toks "dtot"),
      cache := (alookup rep caches).getD Cache.fresh }
    let prop := field toks "prop"
    let b : BlockIn := ⟨int! (field toks "h"), parseVotes (field toks "votes"), if prop == "-" then "" else prop,
      int! (field toks "D"), int! (field toks "pool"), parsePairs (field toks "active")⟩
    match blockRewards e s b with
    | .crash => (caches, "crash")
    | .skipped s' => (upsert caches rep s'.cache, s!"skip ydist={showYears (s'.ydist.getD [])}")
    | .done s' T sp =>
      let idx := chunkIndex o s.intervals b.h
      -- record writes, last value per key
      let wChunks := sp.vals.map fun p => (s!"rwz:{p.1}:{idx}", toString (chunkGet s'.chunks p.1 idx))
      let wAddrs := s'.newAddrs.map fun a => (s!"rwaddr:{a}", "active")
      let wMat := if b.h.tmod o.interval = 0 then s.addrList.map fun a => (s!"bal:{a}", toString (balGet s'.matured a)) else []
      let wDbal := sp.resp.credits.map fun p => (s!"dbal:{p.1}", toString (balGet s'.delegBal p.1))
      let wDtot := if sp.resp.credits.isEmpty then [] else [("dtot", toString s'.delegTotal)]
      let bals0 : Bals := dedupLast' (pend3.map fun t => (t.1, t.2.2))
      let bals1 := matureDelegRewards bals0 (pend3.map fun t => (t.1, t.2.1))
      let wPend := pend3.map fun t => (s!"pend:{t.1}", "0")
      let wB := pend3.map fun t => (s!"b:{t.1}", toString (balGet bals1 t.1))
      let ws := dedupLast (wChunks ++ wAddrs ++ wMat ++ wDbal ++ wDtot ++ wPend ++ wB)
      let wstr := if ws.isEmpty then "-" else ";".intercalate (sortS (ws.map fun p => s!"{p.1}={p.2}"))
      let evs := (dedupLast (sp.vals.map fun p => (p.1, toString p.2))).filter (fun p => p.2 ≠ "0")
      let evstr := if evs.isEmpty then "-" else "/".intercalate (sortS (evs.map fun p => s!"{p.1}:{p.2}"))
      let propS := if b.D > 0 ∧ sp.resp.events then toString sp.resp.proposerReward else "~"
      let poolS := if b.D > 0 ∧ sp.resp.events then toString sp.resp.delegRewards else "~"
      (upsert caches rep s'.cache,
        s!"done pulled={T} ydist={showYears (s'.ydist.getD [])} tdist={s'.tdist} w={wstr} ev={evstr} prop={propS} dpool={poolS}")
  | _ => (caches, "bad-op")
where
  dedupLast' (l : List (Addr × Int)) : Bals := l.foldl (fun acc p => upsert acc p.1 p.2) []

def doWd (toks : List String) : String :=
  let w : WSt := ⟨int! (field toks "mat"), int! (field toks "wdn"), int! (field toks "pool"), int! (field toks "sb")⟩
  let stake := field toks "stake"
  let stakeO := if stake == "~" then none else some stake
  let signer := field toks "signer"
  let value := int! (field toks "value")
  let curOK := field toks "cur" == "1"
  let chargeS := field toks "charge"
  let showW (w : WSt) := s!"ok mat={w.matured} wdn={w.withdrawn} pool={w.pool} sb={w.signer}"
  let showE : WErr → String
    | .invalid => "fail invalid" | .unable => "fail unable" | .mismatch => "fail mismatch"
    | .pool => "fail pool" | .fee => "fail fee"
  if chargeS == "~" then
    -- the transaction failed on the implementation, so the gas it would have used is unknown: the
    -- model must explain the failure without it (any positive charge fails on a negative balance)
    match withdrawTx w curOK stakeO signer value 0 with
    | .error e => showE e
    | .ok w' => if w'.signer ≤ 0 then "fail fee" else "unexplained"
  else
    match withdrawTx w curOK stakeO signer value (int! chargeS) with
    | .error e => showE e
    | .ok w' => showW w'

def stepLine (caches : Caches) (line : String) : Caches × String :=
  let toks := (line.splitOn " ").filter (· ≠ "")
  match toks with
  | [] => (caches, "")
  | "#" :: "case" :: _ => ([], line)
  | "#" :: _ => (caches, line)
  | ["restart", rep] => (upsert caches rep Cache.fresh, "ok")
  | "blk" :: _ => doBlk caches toks
  | "wd" :: _ => (caches, doWd toks)
  | ["fq", a, b] => (caches, toString (fqFloat (int! a) (int! b)))
  | _ => (caches, "bad-op")

partial def loop (hin hout : IO.FS.Stream) (c : Caches) : IO Unit := do
  let line ← hin.getLine
  if line.isEmpty then return ()
  let line := (line.trimAsciiEnd).toString
  let (c', out) := stepLine c line
  hout.putStrLn out
  loop hin hout c'

def main : IO Unit := do
  let hin ← IO.getStdin
  let hout ← IO.getStdout
  loop hin hout []

end Driver.Rewards

import OLP.Gen.Funcs
import Driver.FuncsCommon
open OLP.Gen.Funcs Driver.Funcs

def step20 (t : List String) : String :=
  match t with
  | ["blocksFor", a, p, f] => (do let a ← a.toInt?; let p ← p.toInt?; let f ← f.toInt?; let r := blocksFor a p f; pure s!"{r.1} {b2s r.2}").getD "bad-op"
  | ["calculateExpiry", b, base, p, f] => (do let b ← b.toInt?; let base ← base.toInt?; let p ← p.toInt?; let f ← f.toInt?; let r := calculateExpiry b base p f; pure s!"{r.1} {b2s r.2}").getD "bad-op"
  | ["calculateRenewal", b, p, f] => (do let b ← b.toInt?; let p ← p.toInt?; let f ← f.toInt?; let r := calculateRenewal b p f; pure s!"{r.1} {b2s r.2}").getD "bad-op"
  | ["isChangeable", lu, h] => (do let lu ← lu.toInt?; let h ← h.toInt?; pure (b2s (domainIsChangeable lu h))).getD "bad-op"
  | ["isActive", ex, a, h] => (do let ex ← ex.toInt?; let a ← s2b a; let h ← h.toInt?; pure (b2s (domainIsActive ex a h))).getD "bad-op"
  | ["isExpired", ex, h] => (do let ex ← ex.toInt?; let h ← h.toInt?; pure (b2s (domainIsExpired ex h))).getD "bad-op"
  | ["addToExpire", ex, h] => (do let ex ← ex.toInt?; let h ← h.toInt?; pure s!"{domainAddToExpire ex h}").getD "bad-op"
  | ["resetAfterSale", lu, ex, a, o, n, cur] => (do let lu ← lu.toInt?; let ex ← ex.toInt?; let a ← s2b a; let o ← s2b o; let n ← n.toInt?; let cur ← cur.toInt?; let r := domainResetAfterSale lu ex a o 0 n cur; pure s!"{b2s r.1} {r.2.1} {r.2.2.1} {b2s r.2.2.2}").getD "bad-op"
  | ["domainExpiry", a, p] => (do let a ← a.toInt?; let p ← p.toInt?; pure s!"{calculateDomainExpiry a p}").getD "bad-op"
  | _ => "bad-op"

def main : IO Unit := do loop step20 (← IO.getStdin)

import OLP.Gen.Funcs
import Driver.FuncsCommon
open OLP.Gen.Funcs Driver.Funcs

def step15 (t : List String) : String :=
  match t with
  | ["getVotes", vs] => (do let vs ← parseList vs; let r := trackerGetVotes vs; pure s!"{r.1} {r.2}").getD "bad-op"
  | ["finalized", n, vs] => (do let n ← n.toInt?; let vs ← parseList vs; pure (b2s (trackerFinalized n vs))).getD "bad-op"
  | ["failed", n, vs] => (do let n ← n.toInt?; let vs ← parseList vs; pure (b2s (trackerFailed n vs))).getD "bad-op"
  | _ => "bad-op"

def main : IO Unit := do loop step15 (← IO.getStdin)

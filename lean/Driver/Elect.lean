/-
  Line-protocol driver for the `elect` engine (C10).  Stateless: every line carries the decoded
  hook inputs, the model prints what the hook does.

    heap <p0,p1,…>                      → pop <i…>          indices of the inputs in pop order
    elect <h> <minSelf> <top> recs=<addr:pub:kt:power,…> act=<addr,…>
          frozen=<addr,…> flagged=<addr,…> purge=<addr:h,…> st=<addr:0|1:h,…> cur=<addr:power,…>
                                        → upd=<pub:kt:power,…> st=<addr:0|1:h,…> del=<addr,…> purge=<addr:h,…> n=<activeCount>
    tm set=<key:power,…> upd=<key:kt:power,…>
                                        → ok <key:power,…> | err <class>

  Addresses / keys are lower-case hex byte strings; they enter the model as the natural number
  that orders like the byte string (base-257 digits `byte+1`, right-padded to 40 bytes), so the
  model's `<` is `bytes.Compare`.  Empty list = `-`.
-/
import OLP.Elect.Model

namespace Driver.Elect
open OLP OLP.Elect

def hexVal (c : Char) : Option Nat :=
  if '0' ≤ c ∧ c ≤ '9' then some (c.toNat - '0'.toNat)
  else if 'a' ≤ c ∧ c ≤ 'f' then some (c.toNat - 'a'.toNat + 10)
  else none

def hexBytes : List Char → Option (List Nat)
  | [] => some []
  | [_] => none
  | a :: b :: t => do
    let x ← hexVal a
    let y ← hexVal b
    let r ← hexBytes t
    pure ((x * 16 + y) :: r)

/-- order-preserving code of a byte string of at most 40 bytes -/
def code (s : String) : Option Nat := do
  let bs ← hexBytes s.toList
  if bs.length > 40 then none
  else pure (bs.foldl (fun acc b => acc * 257 + (b + 1)) 0 * 257 ^ (40 - bs.length))

abbrev Names := List (Nat × String)

def nameOf (t : Names) (n : Nat) : String := (alookup n t).getD s!"?{n}"

def splitList (s : String) : List String := if s == "-" || s.isEmpty then [] else s.splitOn ","

def joinList (l : List String) : String := if l.isEmpty then "-" else ",".intercalate l

def field (pfx : String) (tok : String) : Option String :=
  if tok.startsWith pfx then some (tok.drop pfx.length).toString else none

def parseRec (s : String) : Option (Rec × Names) :=
  match s.splitOn ":" with
  | [a, p, kt, pw] => do
    let ca ← code a
    let cp ← code p
    let k ← kt.toNat?
    let w ← pw.toInt?
    pure (⟨ca, cp, k, w⟩, [(ca, a), (cp, p)])
  | _ => none

def parseAddr (s : String) : Option (Nat × Names) := do
  let c ← code s
  pure (c, [(c, s)])

def parsePurge (s : String) : Option ((Nat × Int) × Names) :=
  match s.splitOn ":" with
  | [a, h] => do
    let ca ← code a
    let hh ← h.toInt?
    pure ((ca, hh), [(ca, a)])
  | _ => none

def parseStatus (s : String) : Option ((Nat × Status) × Names) :=
  match s.splitOn ":" with
  | [a, b, h] => do
    let ca ← code a
    let hh ← h.toInt?
    pure ((ca, ⟨b == "1", hh⟩), [(ca, a)])
  | _ => none

def parseAll {α : Type} (f : String → Option (α × Names)) (l : List String) : Option (List α × Names) :=
  l.foldr (fun s acc => do
    let (xs, ns) ← acc
    let (x, n) ← f s
    pure (x :: xs, n ++ ns)) (some ([], []))

def showUpd (t : Names) (u : Upd) : String := s!"{nameOf t u.pub}:{u.ktype}:{u.power}"
def showStatus (t : Names) (p : Nat × Status) : String :=
  s!"{nameOf t p.1}:{if p.2.active then 1 else 0}:{p.2.height}"

/-- canonical order for the unordered parts of the output (the harness sorts the same way) -/
def insBy {α : Type} (key : α → Nat) (x : α) : List α → List α
  | [] => [x]
  | y :: t => if key x ≤ key y then x :: y :: t else y :: insBy key x t
def sortBy {α : Type} (key : α → Nat) (l : List α) : List α := l.foldr (insBy key) []

def electLine (toks : List String) : Option String :=
  match toks with
  | [h, mn, tp, recs, act, frozen, flagged, purge, st, cur] => do
    let h ← h.toInt?
    let mn ← mn.toInt?
    let tp ← tp.toInt?
    let (recs, n1) ← parseAll parseRec (splitList (← field "recs=" recs))
    let (act, n2) ← parseAll parseAddr (splitList (← field "act=" act))
    let (frozen, n3) ← parseAll parseAddr (splitList (← field "frozen=" frozen))
    let (flagged, n6) ← parseAll parseAddr (splitList (← field "flagged=" flagged))
    let (purge, n4) ← parseAll parsePurge (splitList (← field "purge=" purge))
    let (st, n5) ← parseAll parseStatus (splitList (← field "st=" st))
    let (cur, n7) ← parseAll parsePurge (splitList (← field "cur=" cur))
    let t : Names := n1 ++ n2 ++ n3 ++ n4 ++ n5 ++ n6 ++ n7
    let o := elect ⟨h, mn, tp, recs, act, maliciousSet frozen flagged, purge, st, cur⟩
    pure (s!"upd={joinList (o.updates.map (showUpd t))} " ++
          s!"st={joinList ((sortBy (·.1) o.statusW).map (showStatus t))} " ++
          s!"del={joinList ((sortBy id o.deleted).map (nameOf t))} " ++
          s!"purge={joinList ((sortBy (·.1) o.purgeW).map fun p => s!"{nameOf t p.1}:{p.2}")} " ++
          s!"n={o.activeCount}")
  | _ => none

def heapLine (arg : String) : Option String := do
  let ps ← (splitList arg).foldr (fun s acc => do
    let xs ← acc
    let x ← s.toInt?
    pure (x :: xs)) (some [])
  let items := (List.range ps.length).zip ps |>.map fun (i, p) => (⟨i, p⟩ : Item)
  pure ("pop " ++ joinList ((Heap.drain items).map fun it => toString it.val))

def parseKV (s : String) : Option ((Nat × Int) × Names) :=
  match s.splitOn ":" with
  | [k, p] => do
    let ck ← code k
    let pp ← p.toInt?
    pure ((ck, pp), [(ck, k)])
  | _ => none

def parseChg (s : String) : Option (TM.Chg × Names) :=
  match s.splitOn ":" with
  | [k, kt, p] => do
    let ck ← code k
    let kk ← kt.toNat?
    let pp ← p.toInt?
    pure (⟨ck, kk, pp⟩, [(ck, k)])
  | _ => none

def showErr : TM.Err → String
  | .negative => "negative"
  | .keyType => "keytype"
  | .duplicate => "duplicate"
  | .tooHigh => "toohigh"
  | .emptySet => "emptyset"
  | .removeAbsent => "removeabsent"
  | .totalPower => "totalpower"

def tmLine (toks : List String) : Option String :=
  match toks with
  | [set, upd] => do
    let (s, n1) ← parseAll parseKV (splitList (← field "set=" set))
    let (u, n2) ← parseAll parseChg (splitList (← field "upd=" upd))
    let t : Names := n1 ++ n2
    match TM.apply s u with
    | .error e => pure ("err " ++ showErr e)
    | .ok s' => pure ("ok " ++ joinList (s'.map fun kv => s!"{nameOf t kv.1}:{kv.2}"))
  | _ => none

def stepLine (line : String) : String :=
  let toks := (line.splitOn " ").filter (· ≠ "")
  match toks with
  | [] => ""
  | "#" :: _ => line
  | ["heap", arg] => (heapLine arg).getD "bad-op"
  | "elect" :: rest => (electLine rest).getD "bad-op"
  | "tm" :: rest => (tmLine rest).getD "bad-op"
  | _ => "bad-op"

partial def loop (hin hout : IO.FS.Stream) : IO Unit := do
  let line ← hin.getLine
  if line.isEmpty then return ()
  hout.putStrLn (stepLine (line.trimAsciiEnd).toString)
  loop hin hout

def main : IO Unit := do
  loop (← IO.getStdin) (← IO.getStdout)

end Driver.Elect

/-
  Line-protocol driver for the `shell` engine: the ABCI shell model (OLP/Shell/Model.lean) is run
  with each handler abstracted to the program "perform the writes the real handler was observed
  to perform, then succeed / fail as observed". The model then predicts the block cache after
  every call, the commit write logs (replayed into IAVL by the harness to get the application
  hash), index short-circuits, CheckTx isolation and Info after a restart.
-/
import OLP.Shell.Model

namespace Driver.Shell
open OLP OLP.KV OLP.Shell

abbrev K := String
abbrev V := String

def cfg : Cfg K V := { tomb := "e29bbc", vlen := fun v => v.length / 2, lt := fun a b => decide (a < b) }

/-- a transaction as the driver sees it: id, observed ok flag, gas used, observed writes -/
structure Tx where
  id     : String
  ok     : Bool
  gas    : Int
  writes : List (K × V)
  cwrites : List (K × V)   -- writes observed on the check state (CheckTx)
  cok    : Bool

def writesProg (ws : List (K × V)) (fin : Prog K V Unit Unit Unit) : Prog K V Unit Unit Unit :=
  match ws with
  | [] => fin
  | (k, v) :: t => if v = cfg.tomb then .del k (writesProg t fin) else .set k v (fun _ => writesProg t fin)

def handlers (beginW endW : List (K × V)) (limit : Int) : Handlers K V Unit Unit Tx String Unit :=
  { hash := fun t => t.id,
    validate := fun _ => .ret (),
    check := fun t => writesProg t.cwrites (if t.cok then .ret () else .fail),
    deliver := fun t => writesProg t.writes (if t.ok then .ret () else .fail),
    fee := fun t _ => .ret t.gas,
    begin := fun _ => [(true, writesProg beginW (.ret ()))],
    endb := fun _ => [(true, writesProg endW (.ret ()))],
    gasLimit := limit }

/-- FNV-1a 64 over the ordered cache (same function in the Go harness) -/
def fnvStr (h : UInt64) (s : String) : UInt64 :=
  s.foldl (fun h c => (h ^^^ (UInt64.ofNat c.toNat)) * 1099511628211) h

def digest (l : List (K × V)) : UInt64 :=
  l.foldl (fun h p => fnvStr (fnvStr (fnvStr (fnvStr h p.1) "=") p.2) ",") 14695981039346656037

def parseKVs (s : String) : List (K × V) :=
  if s == "-" then [] else
  (s.splitOn ",").filterMap fun it =>
    match it.splitOn "=" with
    | [k, v] => some (k, if v == "-" then "" else v)
    | _ => none

def showTreeOp : TreeOp K V → String
  | .set k v => s!"s:{k}:{if v.isEmpty then "-" else v}"
  | .remove k => s!"r:{k}"
  | .save => "S"

structure DS where
  node  : Node K V Unit Tx String Unit
  limit : Int
  pend  : List (String × TxRes Unit)

def emptyNode (rot : Rot) (_limit : Int) : Node K V Unit Tx String Unit :=
  { tree := Tree.empty rot, dlv := { sess := none, cache := [], metered := false, gas := ⟨0, 0⟩ },
    chk := { sess := none, cache := [], metered := false, gas := ⟨0, 0⟩ }, vol := fun _ => none,
    idx := [], aim := .check, height := 0, closed := false }

def showLog (lg : List (TreeOp K V)) : String :=
  if lg.isEmpty then "-" else ";".intercalate (lg.map showTreeOp)

def stepLine (d : DS) (line : String) : DS × String :=
  let toks := (line.splitOn " ").filter (· ≠ "")
  match toks with
  | [] => (d, "")
  | "#" :: _ => (d, line)
  | ["new", r, e, c, l] =>
    match r.toNat?, e.toNat?, c.toNat?, l.toInt? with
    | some r, some e, some c, some l => ({ node := emptyNode ⟨r, e, c⟩ l, limit := l, pend := [] }, "ok")
    | _, _, _, _ => (d, "bad-op")
  | ["write", ws] =>
    -- InitChain: writes straight into the (unmetered, session-less) deliver state, then Write()
    let n : Node K V Unit Tx String Unit :=
      runHook cfg () { d.node with aim := .deliver } (true, writesProg (parseKVs ws) (.ret ()))
    let s := (n.dlv.toSt n.tree).write cfg
    ({ d with node := { n with tree := s.tree } }, s!"cache {digest n.dlv.cache}")
  | ["begin", ws] =>
    let hs := handlers (parseKVs ws) [] d.limit
    let n := beginBlock cfg hs () d.node
    ({ d with node := n, pend := [] }, s!"cache {digest n.dlv.cache}")
  | ["tx", id, ok, gas, ws] =>
    let t : Tx := { id := id, ok := ok == "1", gas := gas.toInt?.getD 0, writes := parseKVs ws, cwrites := [], cok := false }
    let hs := handlers [] [] d.limit
    let r := deliverTx cfg hs () d.node t
    ({ d with node := r.1, pend := d.pend ++ [(id, r.2)] },
     s!"res {if r.2.ok then 1 else 0} {r.2.gasUsed} cache {digest r.1.dlv.cache}")
  | ["check", id, ok, ws] =>
    let t : Tx := { id := id, ok := false, gas := 0, writes := [], cwrites := parseKVs ws, cok := ok == "1" }
    let hs := handlers [] [] d.limit
    let r := checkTx cfg hs () d.node t
    ({ d with node := r.1 },
     s!"checked {if r.2 then 1 else 0} cache {digest r.1.dlv.cache} ccache {digest r.1.chk.cache}")
  | ["end", ws] =>
    let hs := handlers [] (parseKVs ws) d.limit
    let n := endBlock cfg hs () d.node
    ({ d with node := n }, s!"cache {digest n.dlv.cache}")
  | ["commit"] =>
    let hs := handlers [] [] d.limit
    let n := commit cfg hs d.node
    ({ d with node := { n with idx := n.idx ++ d.pend }, pend := [] },
     s!"commit {n.tree.version} log={showLog (n.tree.log.drop (savedPrefixLen d.node.tree.log))}")
  | ["crash"] =>
    let hs := handlers [] [] d.limit
    let n := crash (fun _ => (fun _ => none)) hs d.node
    ({ d with node := n, pend := [] }, "ok")
  | ["info"] => (d, s!"info {(info d.node).1}")
  | _ => (d, "bad-op")

partial def loop (hin hout : IO.FS.Stream) (d : DS) : IO Unit := do
  let line ← hin.getLine
  if line.isEmpty then return ()
  let line := (line.trimAsciiEnd).toString
  let (d', out) := stepLine d line
  hout.putStrLn out
  loop hin hout d'

def main : IO Unit := do
  loop (← IO.getStdin) (← IO.getStdout) { node := emptyNode ⟨0, 0, 0⟩ 0, limit := 0, pend := [] }

end Driver.Shell

/-
  Line-protocol driver for the `bidm` engine: one stateless step of `OLP.Bid.step` per line.

  input :  bidm <height> <version> <now> <feePrice> <minFee> <feeObs> <payer> <sigValid> <kind> <args…>
                A <n> <conv>… C <n> <closed>… O <n> <offer>… I <n> <ioffer>… R <n> <domain>… B <n> <addr>=<amt>… P <pool>
           bidq <now> A <n> <conv>…                      (the ids BeginBlock queues for expiry)
           feeObs = used gas (decimal) | go (gas overflow) | nf (charge not covered)
           kind   = create <id> <owner> <assethex> <atype> <bidder> <amount> <cur> <deadline> <newId>
                  | counter <id> <owner> <amount> <cur> | cancel <id> <bidder> | bdec <id> <bidder> <decision>
                  | expire <id> <validator> | odec <id> <owner> <decision> | hook <n> <id>…
           conv   = id;owner;assethex;atype;bidder;deadline;committed(0|1)
           closed = status;id;owner;assethex;atype;bidder;deadline
           offer  = key;conv;otype;time;accept;reject;amount;astatus
           ioffer = keyid;keytype;keytime;conv;otype;time;accept;reject;amount;astatus
           domain = the record token of the `ons` engine (Driver/Ons.lean)
           `-` stands for the empty string everywhere
  output:  ok|fail:<err> A … C … O … I … R … B … P <pool>     (every section sorted by token)
           Q <n> <id>…                                         (sorted)
-/
import OLP.Bid.Model
import Driver.Ons

namespace Driver.Bid
open OLP OLP.Bid

def unDash (s : String) : String := if s == "-" then "" else s
def dash (s : String) : String := if s.isEmpty then "-" else s

def hexVal (c : Char) : Option Nat :=
  if '0' ≤ c ∧ c ≤ '9' then some (c.toNat - '0'.toNat)
  else if 'a' ≤ c ∧ c ≤ 'f' then some (c.toNat - 'a'.toNat + 10)
  else none

def hexBytes : List Char → Option (List UInt8)
  | [] => some []
  | [_] => none
  | a :: b :: t => do
    let x ← hexVal a
    let y ← hexVal b
    let r ← hexBytes t
    pure (UInt8.ofNat (16 * x + y) :: r)

def unHex (s : String) : Option String :=
  if s == "-" then some "" else do
    let bs ← hexBytes s.toList
    String.fromUTF8? ⟨bs.toArray⟩

def hexDigit (n : Nat) : Char := if n < 10 then Char.ofNat (48 + n) else Char.ofNat (87 + n)

def toHex (s : String) : String :=
  if s.isEmpty then "-" else
  String.ofList (s.toUTF8.toList.foldr (fun b acc => hexDigit (b.toNat / 16) :: hexDigit (b.toNat % 16) :: acc) [])

def parseBool (s : String) : Option Bool := if s == "1" then some true else if s == "0" then some false else none

def sortToks (l : List String) : List String := l.mergeSort (fun a b => decide (a ≤ b))

def parseConv (tok : String) : Option ((ConvId × Conv) × Bool) :=
  match tok.splitOn ";" with
  | [id, o, a, t, b, dl, cm] => do
    let a ← unHex a
    let t ← t.toInt?
    let dl ← dl.toInt?
    let cm ← parseBool cm
    pure ((unDash id, ⟨unDash o, a, t, unDash b, dl⟩), cm)
  | _ => none

def showConv (committed : List ConvId) (p : ConvId × Conv) : String :=
  ";".intercalate [dash p.1, dash p.2.owner, toHex p.2.asset, toString p.2.atype, dash p.2.bidder, toString p.2.deadline,
    if committed.contains p.1 then "1" else "0"]

def parseClosed (tok : String) : Option ((Int × ConvId) × Conv) :=
  match tok.splitOn ";" with
  | [st, id, o, a, t, b, dl] => do
    let st ← st.toInt?
    let a ← unHex a
    let t ← t.toInt?
    let dl ← dl.toInt?
    pure ((st, unDash id), ⟨unDash o, a, t, unDash b, dl⟩)
  | _ => none

def showClosed (p : (Int × ConvId) × Conv) : String :=
  ";".intercalate [toString p.1.1, dash p.1.2, dash p.2.owner, toHex p.2.asset, toString p.2.atype, dash p.2.bidder,
    toString p.2.deadline]

def parseOfferFields : List String → Option Offer
  | [c, ot, tm, ac, rj, am, st] => do
    let ot ← ot.toInt?
    let tm ← tm.toInt?
    let ac ← ac.toInt?
    let rj ← rj.toInt?
    let am ← am.toInt?
    let st ← st.toInt?
    pure ⟨unDash c, ot, tm, ac, rj, am, st⟩
  | _ => none

def showOfferFields (o : Offer) : List String :=
  [dash o.conv, toString o.otype, toString o.time, toString o.acceptTime, toString o.rejectTime, toString o.amount,
   toString o.astatus]

def parseOffer (tok : String) : Option (ConvId × Offer) :=
  match tok.splitOn ";" with
  | k :: rest => (parseOfferFields rest).map (fun o => (unDash k, o))
  | _ => none

def showOffer (p : ConvId × Offer) : String := ";".intercalate (dash p.1 :: showOfferFields p.2)

def parseIOffer (tok : String) : Option (IKey × Offer) :=
  match tok.splitOn ";" with
  | k :: kt :: ktm :: rest => do
    let kt ← kt.toInt?
    let ktm ← ktm.toInt?
    let o ← parseOfferFields rest
    pure ((unDash k, kt, ktm), o)
  | _ => none

def showIOffer (p : IKey × Offer) : String :=
  ";".intercalate (dash p.1.1 :: toString p.1.2.1 :: toString p.1.2.2 :: showOfferFields p.2)

def parseBal (tok : String) : Option (Addr × Int) :=
  match tok.splitOn "=" with
  | [a, v] => v.toInt?.map (fun i => (unDash a, i))
  | _ => none

def showBal (p : Addr × Int) : String := s!"{dash p.1}={p.2}"

def showErr : Err → String
  | .invalidAsset => "invalidAsset" | .failedCreate => "failedCreate" | .notFound => "notFound"
  | .gettingConv => "gettingConv" | .expired => "expired" | .gettingActiveOffer => "gettingActiveOffer"
  | .gettingActiveBid => "gettingActiveBid" | .gettingActiveCounter => "gettingActiveCounter"
  | .deactivate => "deactivate" | .amountNotBelow => "amountNotBelow" | .amountNotAbove => "amountNotAbove"
  | .lockAmount => "lockAmount" | .wrongBidder => "wrongBidder" | .wrongOwner => "wrongOwner" | .deduct => "deduct"
  | .badBidderDecision => "badBidderDecision" | .badOwnerDecision => "badOwnerDecision" | .exchange => "exchange"
  | .vSigner => "vSigner" | .vSignature => "vSignature" | .vFee => "vFee" | .vBadAmount => "vBadAmount"
  | .vBadId => "vBadId" | .vBadAddr => "vBadAddr" | .feeGas => "feeGas" | .feeDebit => "feeDebit" | .crash => "crash"

def parseOp : List String → Option (Op × List String)
  | "create" :: id :: o :: a :: t :: b :: am :: cur :: dl :: nid :: rest => do
    let a ← unHex a
    let t ← t.toInt?
    let am ← am.toInt?
    let dl ← dl.toInt?
    pure (.create (unDash id) (unDash o) a t (unDash b) am (unDash cur) dl (unDash nid), rest)
  | "counter" :: id :: o :: am :: cur :: rest => do
    let am ← am.toInt?
    pure (.counter (unDash id) (unDash o) am (unDash cur), rest)
  | "cancel" :: id :: b :: rest => pure (.cancel (unDash id) (unDash b), rest)
  | "bdec" :: id :: b :: d :: rest => do
    let d ← d.toInt?
    pure (.bidderDecision (unDash id) (unDash b) d, rest)
  | "expire" :: id :: v :: rest => pure (.expire (unDash id) (unDash v), rest)
  | "odec" :: id :: o :: d :: rest => do
    let d ← d.toInt?
    pure (.ownerDecision (unDash id) (unDash o) d, rest)
  | "hook" :: n :: rest => do
    let k ← n.toNat?
    if rest.length < k then none else pure (.hook ((rest.take k).map unDash), rest.drop k)
  | _ => none

def takeSection := Driver.Ons.takeSection

def parseFee (s : String) : Option FeeObs :=
  if s == "go" then some .gasOverflow else if s == "nf" then some .noFunds else s.toInt?.map .used

def showState (s : St) : List String :=
  let sec (tag : String) (l : List String) : List String := [tag, toString l.length] ++ sortToks l
  sec "A" (s.active.map (showConv s.committed)) ++ sec "C" (s.closed.map showClosed) ++
  sec "O" (s.aoffers.map showOffer) ++ sec "I" (s.ioffers.map showIOffer) ++
  sec "R" (s.doms.map Driver.Ons.showRec) ++ sec "B" (s.bals.map showBal) ++ ["P", toString s.pool]

def runLine (toks : List String) : Option String :=
  match toks with
  | "bidm" :: h :: v :: now :: fp :: mf :: fo :: payer :: sv :: rest => do
    let h ← h.toInt?
    let v ← v.toInt?
    let now ← now.toInt?
    let fp ← fp.toInt?
    let mf ← mf.toInt?
    let fo ← parseFee fo
    let sv ← parseBool sv
    let env : Env := { height := h, version := v, now := now, feePrice := fp, fee := fo, payer := unDash payer,
                       sigValid := sv, minFee := mf }
    let (op, rest) ← parseOp rest
    let (atoks, rest) ← takeSection "A" rest
    let (ctoks, rest) ← takeSection "C" rest
    let (otoks, rest) ← takeSection "O" rest
    let (itoks, rest) ← takeSection "I" rest
    let (rtoks, rest) ← takeSection "R" rest
    let (btoks, rest) ← takeSection "B" rest
    let convs ← atoks.mapM parseConv
    let closed ← ctoks.mapM parseClosed
    let offers ← otoks.mapM parseOffer
    let ioffers ← itoks.mapM parseIOffer
    let recs ← rtoks.mapM Driver.Ons.parseRec
    let bals ← btoks.mapM parseBal
    let pool ← match rest with
      | ["P", p] => p.toInt?
      | _ => none
    let s : St := { active := convs.map (·.1), committed := (convs.filter (·.2)).map (·.1.1), closed := closed,
                    aoffers := offers, ioffers := ioffers, doms := recs, bals := bals, pool := pool }
    let (r, s') := step env s op
    let code := match r with
      | .ok => "ok"
      | .fail e => "fail:" ++ showErr e
    pure (" ".intercalate (code :: showState s'))
  | "bidq" :: now :: rest => do
    let now ← now.toInt?
    let (atoks, rest) ← takeSection "A" rest
    if !rest.isEmpty then none else
    let convs ← atoks.mapM parseConv
    let s : St := { St.empty with active := convs.map (·.1), committed := (convs.filter (·.2)).map (·.1.1) }
    let q := sortToks ((hookQueue now s).map dash)
    pure (" ".intercalate (["Q", toString q.length] ++ q))
  | _ => none

def stepLine (line : String) : String :=
  let toks := (line.splitOn " ").filter (· ≠ "")
  match toks with
  | [] => ""
  | "#" :: _ => line
  | _ => (runLine toks).getD "bad-op"

partial def loop (hin hout : IO.FS.Stream) : IO Unit := do
  let line ← hin.getLine
  if line.isEmpty then return ()
  let line := (line.trimAsciiEnd).toString
  hout.putStrLn (stepLine line)
  loop hin hout

def main : IO Unit := do
  let hin ← IO.getStdin
  let hout ← IO.getStdout
  loop hin hout

end Driver.Bid

import OLP.Gen.Funcs
import Driver.FuncsCommon
open OLP.Gen.Funcs Driver.Funcs

def step02 (t : List String) : String :=
  match t with
  | ["amountPlus", a, v] => (do let a ← a.toInt?; let v ← v.toInt?; pure s!"{amountPlus a v}").getD "bad-op"
  | ["amountMinus", a, v] => (do let a ← a.toInt?; let v ← v.toInt?; let r := amountMinus a v; pure s!"{r.1} {b2s r.2}").getD "bad-op"
  | ["amountIsZero", a] => (do let a ← a.toInt?; pure (b2s (amountIsZero a))).getD "bad-op"
  | ["amountEquals", a, v] => (do let a ← a.toInt?; let v ← v.toInt?; pure (b2s (amountEquals a v))).getD "bad-op"
  | ["amountLessThan", a, v] => (do let a ← a.toInt?; let v ← v.toInt?; pure (b2s (amountLessThan a v))).getD "bad-op"
  | ["amountCheckInRange", a, lo, hi] => (do let a ← a.toInt?; let lo ← lo.toInt?; let hi ← hi.toInt?; let r := amountCheckInRange a lo hi; pure s!"{b2s r.1} {b2s r.2}").getD "bad-op"
  | ["coinPlus", c, v] => (do let c ← c.toInt?; let v ← v.toInt?; pure s!"{coinPlus c false v}").getD "bad-op"
  | ["coinMinus", c, n, v] => (do let c ← c.toInt?; let n ← s2b n; let v ← v.toInt?; let r := coinMinus c n v; pure s!"{r.1} {b2s r.2}").getD "bad-op"
  | ["coinDivideInt64", c, n, k] => (do let c ← c.toInt?; let n ← s2b n; let k ← k.toInt?; pure s!"{coinDivideInt64 c n k}").getD "bad-op"
  | ["coinMultiplyInt64", c, n, k] => (do let c ← c.toInt?; let n ← s2b n; let k ← k.toInt?; pure s!"{coinMultiplyInt64 c n k}").getD "bad-op"
  | ["coinLessThan", c, v] => (do let c ← c.toInt?; let v ← v.toInt?; pure (b2s (coinLessThan c false v false))).getD "bad-op"
  | ["coinLessThanEqual", c, v] => (do let c ← c.toInt?; let v ← v.toInt?; pure (b2s (coinLessThanEqual c false v false))).getD "bad-op"
  | ["newCoinFromInt", a, d] => (do let a ← a.toInt?; let d ← d.toInt?; pure s!"{newCoinFromInt a d}").getD "bad-op"
  | _ => "bad-op"

def main : IO Unit := do loop step02 (← IO.getStdin)
